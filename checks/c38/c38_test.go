// C38: re-downsampling aggregates conserves totals.
//
// Engine E4. 5m aggregate series are PRODUCED by the real DownsampleRaw from every raw series of two bounded
// families and then re-downsampled to 1h by the unexported downsampleAggr, called exactly like Downsample()
// calls it for one series (all chunks, first MinTime, last MaxTime, 5m, 1h).
//
//	grid : all assignments of {absent, 1, -2.5, NaN, StaleNaN} to an edge grid (window start, +1ms, window end)
//	       of three consecutive 5m windows straddling a 1h boundary x every cut of the raw series into
//	       separately downsampled pieces (chunks of adjacent 5m blocks concatenated by compaction).
//	segs : every sequence of 1..3 segments, a segment being (sampling kind, length in 5m windows) with kinds
//	       {15s real, 15s NaN, 5s NaN, one real sample per 5m, one real sample per hour} and lengths
//	       {12, 141, 1700} (thorough: {1, 12, 141, 600, 1700, 3400}) windows - the lengths sit on both sides of the 140-samples-per-chunk thresholds
//	       of targetChunkCount at 5m (141 windows) and at 1h (1680 windows = 140 h), the kinds move its
//	       "fullness" estimate between its two regimes and let whole batches vanish (all-NaN batches).
//
// Oracle = the statement: sum of counts, sum of sums, overall min and overall max of the 1h output equal those
// of the 5m input; output timestamps are ordered and inside the input's time span.
//
// Termination: downsampleAggrLoop has a single loop whose only progress is "the batch handed to the batch
// function is non-empty". Before the real downsampleAggr is called, the same loop is run through its own
// batch-function parameter with a wrapper that aborts on the first empty batch (see the in-package adapter).
// A stall is therefore a deterministic verdict (no clock, no step budget) and the real call is skipped.
package c38

import (
	"fmt"
	"iter"
	"math"
	"testing"

	"github.com/prometheus/prometheus/model/histogram"
	"github.com/prometheus/prometheus/model/value"
	"github.com/prometheus/prometheus/tsdb/chunkenc"
	"github.com/prometheus/prometheus/tsdb/chunks"

	"github.com/thanos-io/thanos/pkg/compact/downsample"

	"verif/vlib"
)

const (
	res5m = int64(5 * 60 * 1000)
	res1h = int64(60 * 60 * 1000)
)

type Seg struct {
	Kind int `json:"kind"` // see kinds
	Win  int `json:"win"`  // length in 5m windows
}

type Case struct {
	Fam string `json:"fam"`

	// grid
	Base int64 `json:"base,omitempty"`
	Pos  []int `json:"pos,omitempty"`
	Syms []int `json:"syms,omitempty"` // 0 absent, 1 -> 1, 2 -> -2.5, 3 -> NaN, 4 -> stale marker
	Cuts int   `json:"cuts,omitempty"`

	// segs
	Segs []Seg `json:"segs,omitempty"`
}

const (
	kDense    = iota // one real sample every 15s
	kDenseNaN        // one NaN every 15s
	kFastNaN         // one NaN every 5s
	kSparse          // one real sample per 5m window
	kHourly          // one real sample per hour (every 12th window)
	nKinds
)

var kindNames = []string{"15s-real", "15s-NaN", "5s-NaN", "5m-real", "1h-real"}

var (
	plainNaN = math.NaN()
	staleNaN = math.Float64frombits(value.StaleNaN)
)

type smp struct {
	t int64
	v float64
}

func (s smp) T() int64                      { return s.t }
func (s smp) F() float64                    { return s.v }
func (s smp) H() *histogram.Histogram       { return nil }
func (s smp) FH() *histogram.FloatHistogram { return nil }
func (s smp) Type() chunkenc.ValueType      { return chunkenc.ValFloat }
func (s smp) Copy() chunks.Sample           { return s }

func build(c Case) [][]smp {
	switch c.Fam {
	case "grid":
		vals := []float64{0, 1, -2.5, plainNaN, staleNaN}
		pieces := [][]smp{nil}
		lastW := -1
		for i, p := range c.Pos {
			w, o := p/3, p%3
			if lastW >= 0 && w != lastW {
				for x := lastW; x < w; x++ {
					if c.Cuts&(1<<uint(x)) != 0 {
						pieces = append(pieces, nil)
						break
					}
				}
			}
			lastW = w
			if c.Syms[i] == 0 {
				continue
			}
			t := (c.Base + int64(w)) * res5m
			switch o {
			case 1:
				t++
			case 2:
				t += res5m - 1
			}
			pieces[len(pieces)-1] = append(pieces[len(pieces)-1], smp{t, vals[c.Syms[i]]})
		}
		return pieces
	case "segs":
		var out []smp
		w0 := int64(12) // start at an hour boundary
		i := 0
		val := func() float64 { i++; return float64(i%7) - 2.5*float64(i%3) }
		for _, sg := range c.Segs {
			for w := int64(0); w < int64(sg.Win); w++ {
				start := (w0 + w) * res5m
				switch sg.Kind {
				case kDense:
					for k := int64(0); k < 20; k++ {
						out = append(out, smp{start + k*15_000, val()})
					}
				case kDenseNaN:
					for k := int64(0); k < 20; k++ {
						out = append(out, smp{start + k*15_000, plainNaN})
					}
				case kFastNaN:
					for k := int64(0); k < 60; k++ {
						out = append(out, smp{start + k*5_000, plainNaN})
					}
				case kSparse:
					out = append(out, smp{start + 7_000, val()})
				case kHourly:
					if w%12 == 0 {
						out = append(out, smp{start + 7_000, val()})
					}
				}
			}
			w0 += int64(sg.Win)
		}
		return [][]smp{out}
	}
	return nil
}

type tv struct {
	t int64
	v float64
}

func drain(it chunkenc.Iterator) ([]tv, error) {
	var out []tv
	for it.Next() != chunkenc.ValNone {
		t, v := it.At()
		out = append(out, tv{t, v})
	}
	return out, it.Err()
}

type totals struct {
	count, sum, min, max float64
	n                    int   // samples in the count aggregate
	tmin, tmax           int64 // span of every timestamp seen (all five aggregates and the chunk metas)
}

var aggrNames = [5]string{"count", "sum", "min", "max", "counter"}

// summarize decodes an aggregate chunk series. order=true additionally checks the ordering of timestamps.
func summarize(r *vlib.R, c Case, what string, metas []chunks.Meta, order bool) (tt totals, ok bool) {
	tt = totals{min: math.Inf(1), max: math.Inf(-1), tmin: math.MaxInt64, tmax: math.MinInt64}
	lastT := [5]int64{math.MinInt64, math.MinInt64, math.MinInt64, math.MinInt64, math.MinInt64}
	prevMax := int64(math.MinInt64)
	span := func(t int64) {
		if t < tt.tmin {
			tt.tmin = t
		}
		if t > tt.tmax {
			tt.tmax = t
		}
	}
	for ci, m := range metas {
		ac, isA := m.Chunk.(*downsample.AggrChunk)
		if !isA {
			r.Violation(what+"-not-aggr-chunk", fmt.Sprintf("chunk %d is %T", ci, m.Chunk), c)
			return tt, false
		}
		span(m.MinTime)
		span(m.MaxTime)
		if order {
			if m.MinTime > m.MaxTime {
				r.Violation("output-chunk-meta-inverted", fmt.Sprintf("chunk %d [%d,%d]", ci, m.MinTime, m.MaxTime), c)
			}
			if m.MinTime <= prevMax {
				r.Violation("output-chunks-overlap-or-unordered", fmt.Sprintf("chunk %d starts at %d, previous ends at %d", ci, m.MinTime, prevMax), c)
			}
			prevMax = m.MaxTime
		}
		for a := 0; a < 5; a++ {
			sub, err := ac.Get(downsample.AggrType(a))
			if err != nil {
				r.Violation(what+"-aggregate-missing", fmt.Sprintf("chunk %d %s: %v", ci, aggrNames[a], err), c)
				return tt, false
			}
			xs, err := drain(sub.Iterator(nil))
			if err != nil {
				r.Violation(what+"-aggregate-unreadable", fmt.Sprintf("chunk %d %s: %v", ci, aggrNames[a], err), c)
				return tt, false
			}
			for _, x := range xs {
				span(x.t)
				if order {
					// the counter aggregate repeats a timestamp by design (first/last raw value markers)
					if x.t < lastT[a] || (a < 4 && x.t == lastT[a]) {
						r.Violation("output-timestamps-not-ordered", fmt.Sprintf("%s: %d after %d (chunk %d)", aggrNames[a], x.t, lastT[a], ci), c)
						order = false
					}
					lastT[a] = x.t
				}
				switch a {
				case 0:
					tt.count += x.v
					tt.n++
				case 1:
					tt.sum += x.v
				case 2:
					tt.min = math.Min(tt.min, x.v)
				case 3:
					tt.max = math.Max(tt.max, x.v)
				}
			}
		}
	}
	return tt, true
}

func eval(r *vlib.R, c Case) {
	pieces := build(c)
	var l1 []chunks.Meta
	for _, p := range pieces {
		in := make([]chunks.Sample, len(p))
		for i, s := range p {
			in[i] = s
		}
		l1 = append(l1, downsample.DownsampleRaw(downsample.SamplesFromTSDBSamples(in), res5m)...)
	}
	r.Sample(c)
	if len(l1) == 0 {
		return // nothing to re-downsample (no non-NaN raw sample)
	}
	in, ok := summarize(r, c, "input", l1, false)
	if !ok {
		return
	}
	aggr := make([]*downsample.AggrChunk, len(l1))
	for i, m := range l1 {
		aggr[i] = m.Chunk.(*downsample.AggrChunk)
	}
	mint, maxt := l1[0].MinTime, l1[len(l1)-1].MaxTime

	stalled, numChunks := downsample.VerifC38AggrLoopStalls(aggr, mint, maxt, res5m, res1h)
	if numChunks > 1 {
		r.Add("cases_with_1h_chunk_target_above_1", 1)
	}
	if stalled {
		r.Nontrivial(fmt.Sprint(c))
		r.Violation("aggr-loop-never-terminates-when-chunk-target-exceeds-input-chunks",
			fmt.Sprintf("downsampleAggrLoop gets %d input chunk(s) (%d 5m samples over %.1f h) and a target of %d output chunks: batch size %d/%d = 0, every iteration takes an empty batch, appends an empty chunk and never consumes input",
				len(aggr), in.n, float64(maxt-mint)/3.6e6, numChunks, len(aggr), numChunks), c)
		return
	}
	l2, err := downsample.VerifC38DownsampleAggr(aggr, mint, maxt, res5m, res1h)
	if err != nil {
		r.Violation("redownsample-error", err.Error(), c)
		return
	}
	if len(l1) >= 2 {
		r.Add("cases_with_2plus_5m_chunks", 1)
	}
	if len(l2) >= 2 {
		r.Add("cases_with_2plus_1h_chunks", 1)
	}
	if len(l1) >= 2 && in.n >= 2 {
		r.Nontrivial(fmt.Sprint(c))
	}
	out, ok := summarize(r, c, "output", l2, true)
	if !ok {
		return
	}
	if out.count != in.count {
		r.Violation("total-count-not-conserved", fmt.Sprintf("5m input counts %v samples, 1h output %v", in.count, out.count), c)
	}
	if out.sum != in.sum && !(math.IsNaN(out.sum) && math.IsNaN(in.sum)) {
		r.Violation("total-sum-not-conserved", fmt.Sprintf("5m input sum %v, 1h output %v", in.sum, out.sum), c)
	}
	if out.min != in.min {
		r.Violation("overall-min-not-conserved", fmt.Sprintf("5m input min %v, 1h output %v", in.min, out.min), c)
	}
	if out.max != in.max {
		r.Violation("overall-max-not-conserved", fmt.Sprintf("5m input max %v, 1h output %v", in.max, out.max), c)
	}
	if out.tmin < in.tmin || out.tmax > in.tmax {
		r.Violation("output-timestamp-outside-input-span", fmt.Sprintf("input spans [%d,%d], output [%d,%d]", in.tmin, in.tmax, out.tmin, out.tmax), c)
	}
}

func gen(r *vlib.R) iter.Seq[Case] {
	return func(yield func(Case) bool) {
		pos := vlib.Pick(r, []int{0, 2, 3, 4, 5, 6, 8}, []int{0, 1, 2, 3, 4, 5, 6, 7, 8})
		for _, base := range []int64{10, 11} {
			for cuts := 0; cuts < 4; cuts++ {
				for syms := range vlib.Tuples(len(pos), 5) {
					if !yield(Case{Fam: "grid", Base: base, Pos: pos, Syms: syms, Cuts: cuts}) {
						return
					}
				}
			}
		}
		wins := vlib.Pick(r, []int{12, 141, 1700}, []int{1, 12, 141, 600, 1700, 3400})
		var alpha []Seg
		for k := 0; k < nKinds; k++ {
			for _, w := range wins {
				alpha = append(alpha, Seg{k, w})
			}
		}
		for t := range vlib.TuplesUpTo(1, 3, len(alpha)) {
			segs := make([]Seg, len(t))
			for i, x := range t {
				segs[i] = alpha[x]
			}
			if !yield(Case{Fam: "segs", Segs: segs}) {
				return
			}
		}
	}
}

func TestCheck(t *testing.T) {
	r := vlib.New(t, "C38")
	defer r.Finish()
	r.Rule("grid: all assignments of {absent,1,-2.5,NaN,stale} to the edge grid of three 5m windows straddling a 1h boundary x every cut into separately downsampled pieces; " +
		"segs: all sequences of 1..3 segments over kinds " + fmt.Sprint(kindNames) + " x lengths {12,141,1700} (thorough {1,12,141,600,1700,3400}) 5m windows. " +
		"The 5m input is what the real DownsampleRaw produces. non-trivial = the 5m input has >=2 chunks and >=2 samples, or the loop stalls")
	r.Assume("values are small dyadic rationals (sums exact in any order)",
		"a stall of downsampleAggrLoop is decided through the loop's batch-function parameter (empty batch = no progress), see the adapter; the real downsampleAggr is called for every other case",
		"one series per call, inputs as Downsample() passes them; block I/O is not part of the run")
	vlib.ForEach(r, gen(r), func(c Case) { eval(r, c) })
}
