// C16: lazily loaded index headers stay correct under idle unloading.
package c16

import (
	"context"
	"encoding/json"
	"fmt"
	"os"
	"path/filepath"
	"reflect"
	"strings"
	"sync"
	"testing"
	"time"

	"github.com/go-kit/log"
	"github.com/oklog/ulid/v2"
	"github.com/prometheus/prometheus/model/labels"
	"github.com/thanos-io/objstore"
	"github.com/thanos-io/objstore/providers/filesystem"

	"github.com/thanos-io/thanos/pkg/block"
	"github.com/thanos-io/thanos/pkg/block/indexheader"
	"github.com/thanos-io/thanos/pkg/block/metadata"
	"github.com/thanos-io/thanos/pkg/testutil/e2eutil"

	"verif/vexplore"
	"verif/vlib"
	"verif/vsync"
)

const idleTimeout = 5 * time.Minute

type Params struct {
	Readers [][]string `json:"readers"` // per reader thread: lookups (po|names|values|symbol|version)
	Sweeps  int        `json:"sweeps"`  // sweeper thread: number of idle sweeps
	Close   bool       `json:"close"`   // a thread calling Close on the lazy reader
	Warm    bool       `json:"warm"`    // header loaded (one lookup) before the threads start
}

func (p Params) name() string { b, _ := json.Marshal(p); return string(b) }

var (
	rigOnce sync.Once
	rigDir  string
	rigBkt  objstore.Bucket
	rigID   ulid.ULID
	rigWant map[string]string
	rigErr  error
)

func lookup(r indexheader.Reader, op string) (string, error) {
	switch op {
	case "po":
		v, err := r.PostingsOffset("a", "2")
		return fmt.Sprint(v), err
	case "pos":
		v, err := r.PostingsOffsets("a", "1", "15", "3")
		return fmt.Sprint(v), err
	case "names":
		v, err := r.LabelNames()
		return fmt.Sprint(v), err
	case "values":
		v, err := r.LabelValues("a")
		return fmt.Sprint(v), err
	case "symbol":
		v, err := r.LookupSymbol(context.Background(), 2)
		return v, err
	case "version":
		v, err := r.IndexVersion()
		return fmt.Sprint(v), err
	}
	panic("bad op " + op)
}

var allOps = []string{"po", "pos", "names", "values", "symbol", "version"}

func rig(t testing.TB) {
	rigOnce.Do(func() {
		ctx := context.Background()
		dir, err := os.MkdirTemp("", "c16")
		if err != nil {
			rigErr = err
			return
		}
		rigDir = dir
		bkt, err := filesystem.NewBucket(filepath.Join(dir, "bkt"))
		if err != nil {
			rigErr = err
			return
		}
		rigBkt = bkt
		var series []labels.Labels
		for i := 1; i <= 9; i++ {
			series = append(series, labels.FromStrings("a", fmt.Sprint(i), "b", fmt.Sprint(i%3)))
		}
		id, err := e2eutil.CreateBlock(ctx, dir, series, 10, 0, 1000, labels.FromStrings("ext1", "1"), 124, metadata.NoneFunc, nil)
		if err != nil {
			rigErr = err
			return
		}
		rigID = id
		if err := block.Upload(ctx, log.NewNopLogger(), bkt, filepath.Join(dir, id.String()), metadata.NoneFunc); err != nil {
			rigErr = err
			return
		}
		// reference answers from an always-loaded reader
		br, err := indexheader.NewBinaryReader(ctx, log.NewNopLogger(), bkt, dir, id, 3, indexheader.NewBinaryReaderMetrics(nil))
		if err != nil {
			rigErr = err
			return
		}
		rigWant = map[string]string{}
		for _, op := range allOps {
			v, err := lookup(br, op)
			if err != nil {
				rigErr = fmt.Errorf("reference lookup %s: %v", op, err)
				return
			}
			rigWant[op] = v
		}
		_ = br.Close()
	})
	if rigErr != nil {
		t.Fatalf("HARNESS-ERROR building the index-header rig: %v", rigErr)
	}
}

func scenario(p Params) *vexplore.Scenario {
	return &vexplore.Scenario{
		Name:     p.name(),
		MaxSteps: 20000,
		New: func() (func(e *vsync.Exec), func(), func(e *vsync.Exec) (string, string, string)) {
			closed := map[any]bool{}
			var monitor []string
			var wrong []string
			results := make([][]string, len(p.Readers))
			pool := indexheader.NewReaderPool(log.NewNopLogger(), true, idleTimeout, indexheader.NewReaderPoolMetrics(nil), indexheader.AlwaysEagerDownloadIndexHeader)
			setup := func(e *vsync.Exec) {
				vsync.ProbeFn = func(site string, recv any) {
					if strings.HasSuffix(site, ".Close") {
						if closed[recv] {
							// a second Close unmaps the header's address range again - which by then may belong to
							// the mapping of a reloaded header; stop before the real munmap happens
							monitor = append(monitor, "index header closed twice (second munmap of a range that may have been re-used by a reloaded header)")
							panic("verif monitor: double close of an index header")
						}
						closed[recv] = true
						return
					}
					if closed[recv] {
						monitor = append(monitor, site+" entered on a closed index header")
						panic("verif monitor: " + site + " on closed header")
					}
					// the lookup is now inside the header: let everything else run; the header must still be
					// open afterwards (unloading needs the write lock, which a lookup in progress excludes)
					vsync.Point("inside-" + site)
					if closed[recv] {
						monitor = append(monitor, "index header closed while "+site+" was still reading it")
						panic("verif monitor: header closed during " + site)
					}
				}
			}
			body := func() {
				defer pool.Close()
				ctx := context.Background()
				r, err := pool.NewBinaryReader(ctx, log.NewNopLogger(), rigBkt, rigDir, rigID, 3, &metadata.Meta{})
				if err != nil {
					panic(err)
				}
				if p.Warm {
					if _, err := lookup(r, "version"); err != nil {
						panic(err)
					}
				}
				// the reader has been idle for longer than the timeout when the threads start
				vsync.Advance(idleTimeout + time.Nanosecond)
				var hs []vsync.Handle
				for i, ops := range p.Readers {
					i, ops := i, ops
					hs = append(hs, vsync.Spawn(fmt.Sprintf("reader%d", i), func() {
						for _, op := range ops {
							v, err := lookup(r, op)
							switch {
							case err == nil && v == rigWant[op]:
								results[i] = append(results[i], "ok")
							case err != nil && indexheader.VerifIsUnloadedWhileLoading(err):
								results[i] = append(results[i], "unloaded-while-loading")
							case err != nil:
								results[i] = append(results[i], "err")
								wrong = append(wrong, fmt.Sprintf("reader %d %s: unexpected error %v", i, op, err))
							default:
								results[i] = append(results[i], "wrong")
								wrong = append(wrong, fmt.Sprintf("reader %d %s: got %s want %s", i, op, v, rigWant[op]))
							}
						}
					}))
				}
				if p.Sweeps > 0 {
					hs = append(hs, vsync.Spawn("sweeper", func() {
						for k := 0; k < p.Sweeps; k++ {
							indexheader.VerifCloseIdleReaders(pool)
						}
					}))
				}
				if p.Close {
					hs = append(hs, vsync.Spawn("closer", func() { _ = r.Close() }))
				}
				for _, h := range hs {
					vsync.Join(h)
				}
				// a final sequential lookup must work (reload after unload)
				if !p.Close {
					if v, err := lookup(r, "po"); err != nil || v != rigWant["po"] {
						wrong = append(wrong, fmt.Sprintf("final lookup: %v %v", v, err))
					}
				}
				_ = r.Close()
			}
			check := func(e *vsync.Exec) (string, string, string) {
				vsync.ProbeFn = nil
				outcome := fmt.Sprintf("%s results=%v", e.Outcome(), results)
				switch {
				case len(monitor) > 0:
					return "method-entered-on-closed-header", strings.Join(monitor, "; "), outcome
				case len(e.Panics) > 0:
					return "panic", strings.Join(e.Panics, "; "), outcome
				case e.Deadlock:
					return "deadlock", e.DeadlockMsg, outcome
				case e.Horizon:
					return "step-horizon-exceeded", "", outcome
				case len(wrong) > 0:
					return "wrong-answer", strings.Join(wrong, "; "), outcome
				}
				return "", "", outcome
			}
			return setup, body, check
		},
	}
}

func TestCheck(t *testing.T) {
	r := vlib.New(t, "C16")
	defer r.Finish()
	rig(t)
	defer os.RemoveAll(rigDir)
	r.Rule("scenarios = (2 reader threads x 1-2 lookups from {PostingsOffset(s), LabelNames, LabelValues, LookupSymbol, IndexVersion}, 1-2 idle sweeps, optional Close, cold/warm header) x every schedule within the deviation bound; " +
		"distinct_nontrivial = distinct (scenario, per-lookup result vector) observations (ok vs unloaded-while-loading)")
	ps := []Params{
		{Readers: [][]string{{"po", "names"}, {"values"}}, Sweeps: 1, Warm: true},
		{Readers: [][]string{{"symbol"}, {"pos", "po"}}, Sweeps: 2, Warm: false},
		{Readers: [][]string{{"pos"}, {"names"}}, Sweeps: 1, Close: true, Warm: true},
		{Readers: [][]string{{"po"}, {"values"}}, Close: true, Warm: true},
	}
	if r.Thorough() {
		ps = append(ps,
			Params{Readers: [][]string{{"po", "po"}, {"po", "po"}}, Sweeps: 2, Warm: true},
			Params{Readers: [][]string{{"version", "values"}, {"symbol", "names"}}, Sweeps: 1, Close: true, Warm: false},
			Params{Readers: [][]string{{"pos"}, {"po"}, {"names"}}, Sweeps: 1, Warm: true},
		)
	}
	if r.Thorough() {
		// every lookup kind against a concurrent Close and a concurrent sweep
		for _, op := range allOps {
			ps = append(ps, Params{Readers: [][]string{{op}, {"version"}}, Close: true, Warm: true})
		}
	}
	if !reflect.DeepEqual(len(rigWant), len(allOps)) {
		t.Fatalf("HARNESS-ERROR reference answers incomplete")
	}
	var named []vexplore.Named
	for _, p := range ps {
		named = append(named, vexplore.Named{S: scenario(p), Params: p})
	}
	vexplore.Drive(r, named, vlib.Pick(r, 2, 3), func(c vexplore.Case) *vexplore.Scenario {
		var p Params
		if err := json.Unmarshal(c.Params, &p); err != nil {
			return nil
		}
		return scenario(p)
	})
}
