//go:build verif

// C22: the receiver acknowledges a remote write only if every series was stored on a write quorum of its
// replicas (already replicated request: on the addressed replica).
//
// Engine E4 on the real Handler (see rig/rig.go): every per-destination outcome vector x every arrival order,
// replies delivered one at a time under testing/synctest, "handler has returned" read after every reply.
package c22

import (
	"fmt"
	"iter"
	"testing"

	"verif/checks/c22/rig"
	"verif/vlib"
)

type Case = rig.Plan

type family struct {
	top      rig.Topology
	homes    []int
	rep      int
	grpc     bool
	alphabet []int // outcome symbols per destination
}

// families lists the (topology, request) shapes; each is crossed with alphabet^dests x all orders.
func families(thorough bool) []family {
	full := []int{rig.OK, rig.Conflict, rig.Unavailable, rig.Other}
	withBackoff := []int{rig.OK, rig.Conflict, rig.Unavailable, rig.Other, rig.Backoff}
	three := []int{rig.OK, rig.Conflict, rig.Unavailable}
	var fs []family
	// A. one series, fresh request, RF 1..5 on RF nodes, handler outside the ring / handler = replica 0.
	for rf := 1; rf <= 5; rf++ {
		for _, local := range []int{-1, 0} {
			alpha := withBackoff
			if rf == 5 && !thorough {
				alpha = full // back-off symbol for RF 5 only in the thorough tier
				if local == 0 {
					continue
				}
			}
			fs = append(fs, family{top: rig.Topology{RF: rf, Nodes: rf, Local: local}, homes: []int{0}, alphabet: alpha})
		}
	}
	// B. handler is a later replica of the series / more nodes than replicas.
	fs = append(fs,
		family{top: rig.Topology{RF: 3, Nodes: 3, Local: 1}, homes: []int{0}, alphabet: full},
		family{top: rig.Topology{RF: 3, Nodes: 3, Local: 2}, homes: []int{0}, alphabet: full},
		family{top: rig.Topology{RF: 2, Nodes: 4, Local: 3}, homes: []int{2}, alphabet: full},
	)
	// C. several series spread over several nodes with overlapping replica sets.
	fs = append(fs,
		family{top: rig.Topology{RF: 2, Nodes: 3, Local: -1}, homes: []int{0, 1}, alphabet: full}, // 4 destinations
		family{top: rig.Topology{RF: 2, Nodes: 3, Local: 0}, homes: []int{0, 1}, alphabet: full},
		family{top: rig.Topology{RF: 2, Nodes: 3, Local: -1}, homes: []int{0, 0}, alphabet: full}, // shared destinations
		family{top: rig.Topology{RF: 2, Nodes: 4, Local: -1}, homes: []int{0, 2}, alphabet: full}, // disjoint replica sets
		family{top: rig.Topology{RF: 3, Nodes: 3, Local: -1}, homes: []int{0, 0}, alphabet: full}, // 3 destinations x 2 series
		family{top: rig.Topology{RF: 3, Nodes: 4, Local: -1}, homes: []int{0, 0, 0}, alphabet: full},
		family{top: rig.Topology{RF: 1, Nodes: 3, Local: 1}, homes: []int{0, 1, 2}, alphabet: full},
	)
	if thorough {
		fs = append(fs,
			family{top: rig.Topology{RF: 3, Nodes: 4, Local: -1}, homes: []int{0, 1}, alphabet: three},    // 6 destinations
			family{top: rig.Topology{RF: 3, Nodes: 3, Local: -1}, homes: []int{0, 1}, alphabet: three},    // 6 destinations, same 3 nodes
			family{top: rig.Topology{RF: 2, Nodes: 3, Local: -1}, homes: []int{0, 1, 2}, alphabet: three}, // 6 destinations, 3 series
			family{top: rig.Topology{RF: 3, Nodes: 4, Local: 3}, homes: []int{0, 1}, alphabet: three},
		)
	}
	// D. already replicated requests (replica header k = 1..RF, and RF+1 which must be refused), both entry points.
	for rf := 1; rf <= 3; rf++ {
		n := rf
		if n < 2 {
			n = 2
		}
		for rep := 1; rep <= rf+1; rep++ {
			for _, g := range []bool{false, true} {
				for _, local := range []int{-1, 0} {
					fs = append(fs,
						family{top: rig.Topology{RF: rf, Nodes: n, Local: local}, homes: []int{0}, rep: rep, grpc: g, alphabet: full},
						family{top: rig.Topology{RF: rf, Nodes: n, Local: local}, homes: []int{0, 1}, rep: rep, grpc: g, alphabet: full},
					)
				}
			}
		}
	}
	// E. fresh requests through the gRPC entry point.
	fs = append(fs,
		family{top: rig.Topology{RF: 1, Nodes: 3, Local: 0}, homes: []int{0, 1}, grpc: true, alphabet: full},
		family{top: rig.Topology{RF: 2, Nodes: 3, Local: 0}, homes: []int{0, 1}, grpc: true, alphabet: full},
		family{top: rig.Topology{RF: 3, Nodes: 3, Local: 0}, homes: []int{0, 0}, grpc: true, alphabet: full},
	)
	return fs
}

// refQuorum is the reference write quorum: a majority of the replicas, except that replication factor 2 is
// documented (Handler.writeQuorum) to need only one store.
func refQuorum(rf int) int {
	if rf == 2 {
		return 1
	}
	return rf/2 + 1
}

func localOnce(f family) bool {
	n := 0
	for _, d := range rig.Dests(f.top, f.homes, f.rep) {
		if d.Node == f.top.Local {
			n++
		}
	}
	return n <= 1
}

func gen(r *vlib.R) iter.Seq[Case] {
	return func(yield func(Case) bool) {
		for _, f := range families(r.Thorough()) {
			if !localOnce(f) {
				panic("family uses the local node for two destinations (the local TSDB stub cannot tell them apart)")
			}
			dests := rig.Dests(f.top, f.homes, f.rep)
			for ov := range vlib.Tuples(len(dests), len(f.alphabet)) {
				out := make([]int, len(dests))
				var live []int
				nBack := 0
				for i, x := range ov {
					out[i] = f.alphabet[x]
					if out[i] == rig.Backoff {
						nBack++
					} else {
						live = append(live, i)
					}
				}
				if nBack > 0 && len(f.homes) > 1 {
					continue // back-off replies cannot be ordered among themselves; single-series families only
				}
				for perm := range vlib.Perms(len(live)) {
					order := make([]int, len(live))
					for i, p := range perm {
						order[i] = live[p]
					}
					c := Case{Top: f.top, Homes: f.homes, Rep: f.rep, GRPC: f.grpc, Outcomes: out, Order: order}
					if !yield(c) {
						return
					}
				}
			}
		}
	}
}

func TestCheck(t *testing.T) {
	r := vlib.New(t, "C22")
	defer r.Finish()
	r.Rule("real receive.Handler; families: 1 series RF 1..5 (handler outside ring / is replica 0,1,2), 2-3 series over 3-4 nodes with shared, " +
		"overlapping and disjoint replica sets, already-replicated requests (replica 1..RF+1) via HTTP and gRPC, fresh via gRPC; each crossed with " +
		"every outcome vector over {ok,conflict,unavailable,other[,backoff]} per (node,replica) destination x every arrival order; " +
		"non-trivial = distinct case with at least one ok and one failed destination")
	r.Assume("write quorum = floor(RF/2)+1, and 1 for RF 2 (the documented exception in Handler.writeQuorum); computed by the check, not read from the handler",
		"the hashring placement is taken as given (hashmod ring; C18-C21 cover placement)",
		"a peer that answers ok has stored every series of the forwarded request, a peer that answers with an error stored none",
		"arrival order is the release order of the stubs (synctest.Wait between releases); back-off replies always arrive first (produced synchronously by sendWrites)",
		"receiver mode RouterIngestor, protobuf replication, no relabelling, no limits, forward timeout never fires; worker pools are never saturated (8 workers per peer)")
	vlib.ForEach(r, gen(r), func(c Case) {
		tr := rig.Run(t, c)
		r.Sample(c)
		if tr.HarnessErr != "" {
			t.Errorf("HARNESS-ERROR %s case=%+v", tr.HarnessErr, c)
			return
		}
		nOK, nBad := 0, 0
		for _, o := range c.Outcomes {
			if o == rig.OK {
				nOK++
			} else {
				nBad++
			}
		}
		if nOK > 0 && nBad > 0 {
			r.Nontrivial(fmt.Sprint(c))
		}
		if len(tr.NotContacted) > 0 {
			r.Add("destinations_never_contacted", int64(len(tr.NotContacted)))
		}
		if tr.Resp.Panic != "" {
			r.Violation("request-handling-panicked", "panic: "+tr.Resp.Panic, c)
			return
		}
		acked := tr.Resp.Acked()
		early := tr.ReturnedAfter >= 0 && tr.ReturnedAfter < len(c.Order)
		r.Outcome(fmt.Sprintf("rf=%d series=%d rep=%d acked=%v early=%v status=%d", c.Top.RF, len(c.Homes), c.Rep, acked, early, tr.Resp.Status))
		if !tr.Resp.Returned {
			r.Add("returned_only_at_forward_timeout", 1)
		}
		// reference model: which series are sufficiently stored
		quorum := refQuorum(c.Top.RF)
		if quorum != tr.Quorum {
			r.Add("handler_quorum_differs_from_reference", 1)
		}
		enough := func(stored [][]int) (bool, int) {
			for s := range c.Homes {
				if c.Rep > 0 {
					if c.Rep > c.Top.RF {
						return false, s
					}
					addressed := (c.Homes[s] + c.Rep - 1) % c.Top.Nodes
					ok := false
					for _, n := range stored[s] {
						if n == addressed {
							ok = true
						}
					}
					if !ok {
						return false, s
					}
				} else if len(stored[s]) < quorum {
					return false, s
				}
			}
			return true, -1
		}
		okAtReturn, badSeries := enough(tr.StoredAtRet)
		okFinal, _ := enough(tr.StoredFinal)
		if acked && !okAtReturn {
			sig := "acknowledged-before-quorum-was-stored"
			if !okFinal {
				sig = "acknowledged-without-quorum"
			}
			if c.Rep > 0 {
				sig = "replicated-request-acknowledged-without-store-on-addressed-replica"
			}
			r.Violation(sig, fmt.Sprintf("status %d after %d/%d replies; series %d stored on nodes %v at that moment (finally %v), quorum %d, dests %+v",
				tr.Resp.Status, tr.ReturnedAfter, len(c.Order), badSeries, tr.StoredAtRet[badSeries], tr.StoredFinal[badSeries], quorum, tr.Dests), c)
		}
		if !acked && okFinal {
			// not promised by the statement (it only restricts acknowledgements); reported, not asserted
			r.Add("failed_although_every_series_reached_quorum", 1)
		}
		if acked {
			r.Add("acked", 1)
			if early {
				r.Add("acked_before_last_reply", 1)
			}
		} else {
			r.Add("failed", 1)
			if early {
				r.Add("failed_before_last_reply", 1)
			}
		}
	})
}
