//go:build verif

// C22: the receiver acknowledges a remote write only if every series was stored on a write quorum of its
// replicas (already replicated request: on the addressed replica).
//
// Engine E4 on the real Handler (see rig/rig.go): every per-destination outcome vector x every arrival order,
// replies delivered one at a time under testing/synctest, "handler has returned" read after every reply.
//
// History dimension: the handler keeps state between requests (pooled destination maps / id slices / counters,
// peer state). The observed request is therefore also run as the LAST of a short history on one handler: a
// preceding request from {none, stored everywhere, conflict everywhere, rejected while its series were being
// distributed (invalid split-tenant label value on a later series), rejected by a Hashring.GetN error (tenant whose
// hashring is smaller than the replication factor)} with the split-tenant label option configured. The oracle of
// the observed request is unchanged. sync.Pool hands an item back to the P that put it, so the process runs on one
// P (GOMAXPROCS 1; the driver shards the space over processes): what one request leaves in a pool is what the next
// one draws, on every run.
package c22

import (
	"fmt"
	"iter"
	"runtime"
	"testing"

	"verif/checks/c22/rig"
	"verif/vlib"
)

type Case = rig.Plan

type family struct {
	top      rig.Topology
	homes    []int
	rep      int
	grpc     bool
	alphabet []int // outcome symbols per destination
	// history dimension (zero values: a single request on a fresh handler, option not configured)
	split     bool    // split-tenant label configured
	lastLabel bool    // the observed request's series carry the split-tenant label
	pres      [][]int // histories to cross with (nil: just the empty history)
}

// histories lists the predecessor sequences up to the given length over the kinds that the family admits.
func histories(rf, maxLen int) [][]int {
	kinds := []int{rig.PreOK, rig.PreConflict, rig.PreBadLabel}
	if rf >= 2 {
		kinds = append(kinds, rig.PreGetN)
	}
	out := [][]int{nil}
	for n := 1; n <= maxLen; n++ {
		for t := range vlib.Tuples(n, len(kinds)) {
			h := make([]int, n)
			for i, x := range t {
				h[i] = kinds[x]
			}
			out = append(out, h)
		}
	}
	return out
}

// historyFamilies: small request shapes crossed with every history (split-tenant label configured throughout).
func historyFamilies(thorough bool) []family {
	full := []int{rig.OK, rig.Conflict, rig.Unavailable, rig.Other}
	three := []int{rig.OK, rig.Conflict, rig.Unavailable}
	two := []int{rig.OK, rig.Unavailable}
	var fs []family
	add := func(f family, maxLen int) {
		f.split = true
		f.pres = histories(f.top.RF, maxLen)
		fs = append(fs, f)
	}
	depth := 1 // history length
	if thorough {
		depth = 2
	}
	// H-A. one series, RF 1..4, handler outside the ring / is replica 0 (RF 3: histories of length 2 in both tiers).
	for rf := 1; rf <= 4; rf++ {
		for _, local := range []int{-1, 0} {
			alpha, d := full, depth
			if rf == 3 {
				d = 2
			}
			if rf == 4 && !thorough {
				alpha = three
			}
			add(family{top: rig.Topology{RF: rf, Nodes: rf, Local: local}, homes: []int{0}, alphabet: alpha}, d)
		}
	}
	// H-B. the observed request is split by the tenant label itself.
	for _, local := range []int{-1, 0} {
		add(family{top: rig.Topology{RF: 3, Nodes: 3, Local: local}, homes: []int{0}, alphabet: full, lastLabel: true}, depth)
	}
	add(family{top: rig.Topology{RF: 2, Nodes: 3, Local: -1}, homes: []int{0, 1}, alphabet: two, lastLabel: true}, depth)
	// H-C. several series: shared destinations, overlapping replica sets, more nodes than replicas, handler a later replica.
	add(family{top: rig.Topology{RF: 3, Nodes: 3, Local: -1}, homes: []int{0, 0}, alphabet: full}, depth)
	add(family{top: rig.Topology{RF: 3, Nodes: 3, Local: 0}, homes: []int{0, 0}, grpc: true, alphabet: full}, depth)
	add(family{top: rig.Topology{RF: 3, Nodes: 3, Local: 1}, homes: []int{0}, alphabet: full}, depth)
	add(family{top: rig.Topology{RF: 2, Nodes: 4, Local: 3}, homes: []int{2}, alphabet: full}, depth)
	if thorough {
		add(family{top: rig.Topology{RF: 2, Nodes: 3, Local: -1}, homes: []int{0, 1}, alphabet: full}, depth)
		add(family{top: rig.Topology{RF: 2, Nodes: 3, Local: 0}, homes: []int{0, 1}, alphabet: full}, depth)
		add(family{top: rig.Topology{RF: 3, Nodes: 4, Local: -1}, homes: []int{0, 0, 0}, alphabet: full}, depth)
		add(family{top: rig.Topology{RF: 5, Nodes: 5, Local: -1}, homes: []int{0}, alphabet: two}, 1)
	} else {
		add(family{top: rig.Topology{RF: 2, Nodes: 3, Local: -1}, homes: []int{0, 1}, alphabet: three}, depth)
	}
	// H-D. already replicated observed request (replica header 1..RF+1), both entry points.
	for rf := 2; rf <= 3; rf++ {
		for rep := 1; rep <= rf+1; rep++ {
			for _, g := range []bool{false, true} {
				for _, local := range []int{-1, 0} {
					add(family{top: rig.Topology{RF: rf, Nodes: rf, Local: local}, homes: []int{0}, rep: rep, grpc: g, alphabet: full}, depth)
					add(family{top: rig.Topology{RF: rf, Nodes: rf, Local: local}, homes: []int{0, 1}, rep: rep, grpc: g, alphabet: full}, depth)
				}
			}
		}
	}
	return fs
}

// families lists the (topology, request) shapes; each is crossed with alphabet^dests x all orders.
func families(thorough bool) []family {
	full := []int{rig.OK, rig.Conflict, rig.Unavailable, rig.Other}
	withBackoff := []int{rig.OK, rig.Conflict, rig.Unavailable, rig.Other, rig.Backoff}
	three := []int{rig.OK, rig.Conflict, rig.Unavailable}
	var fs []family
	// A. one series, fresh request, RF 1..5 on RF nodes, handler outside the ring / handler = replica 0.
	for rf := 1; rf <= 5; rf++ {
		for _, local := range []int{-1, 0} {
			alpha := withBackoff
			if rf == 5 && !thorough {
				alpha = full // back-off symbol for RF 5 only in the thorough tier
				if local == 0 {
					continue
				}
			}
			fs = append(fs, family{top: rig.Topology{RF: rf, Nodes: rf, Local: local}, homes: []int{0}, alphabet: alpha})
		}
	}
	// B. handler is a later replica of the series / more nodes than replicas.
	fs = append(fs,
		family{top: rig.Topology{RF: 3, Nodes: 3, Local: 1}, homes: []int{0}, alphabet: full},
		family{top: rig.Topology{RF: 3, Nodes: 3, Local: 2}, homes: []int{0}, alphabet: full},
		family{top: rig.Topology{RF: 2, Nodes: 4, Local: 3}, homes: []int{2}, alphabet: full},
	)
	// C. several series spread over several nodes with overlapping replica sets.
	fs = append(fs,
		family{top: rig.Topology{RF: 2, Nodes: 3, Local: -1}, homes: []int{0, 1}, alphabet: full}, // 4 destinations
		family{top: rig.Topology{RF: 2, Nodes: 3, Local: 0}, homes: []int{0, 1}, alphabet: full},
		family{top: rig.Topology{RF: 2, Nodes: 3, Local: -1}, homes: []int{0, 0}, alphabet: full}, // shared destinations
		family{top: rig.Topology{RF: 2, Nodes: 4, Local: -1}, homes: []int{0, 2}, alphabet: full}, // disjoint replica sets
		family{top: rig.Topology{RF: 3, Nodes: 3, Local: -1}, homes: []int{0, 0}, alphabet: full}, // 3 destinations x 2 series
		family{top: rig.Topology{RF: 3, Nodes: 4, Local: -1}, homes: []int{0, 0, 0}, alphabet: full},
		family{top: rig.Topology{RF: 1, Nodes: 3, Local: 1}, homes: []int{0, 1, 2}, alphabet: full},
	)
	if thorough {
		fs = append(fs,
			family{top: rig.Topology{RF: 3, Nodes: 4, Local: -1}, homes: []int{0, 1}, alphabet: three},    // 6 destinations
			family{top: rig.Topology{RF: 3, Nodes: 3, Local: -1}, homes: []int{0, 1}, alphabet: three},    // 6 destinations, same 3 nodes
			family{top: rig.Topology{RF: 2, Nodes: 3, Local: -1}, homes: []int{0, 1, 2}, alphabet: three}, // 6 destinations, 3 series
			family{top: rig.Topology{RF: 3, Nodes: 4, Local: 3}, homes: []int{0, 1}, alphabet: three},
		)
	}
	// D. already replicated requests (replica header k = 1..RF, and RF+1 which must be refused), both entry points.
	for rf := 1; rf <= 3; rf++ {
		n := rf
		if n < 2 {
			n = 2
		}
		for rep := 1; rep <= rf+1; rep++ {
			for _, g := range []bool{false, true} {
				for _, local := range []int{-1, 0} {
					fs = append(fs,
						family{top: rig.Topology{RF: rf, Nodes: n, Local: local}, homes: []int{0}, rep: rep, grpc: g, alphabet: full},
						family{top: rig.Topology{RF: rf, Nodes: n, Local: local}, homes: []int{0, 1}, rep: rep, grpc: g, alphabet: full},
					)
				}
			}
		}
	}
	// E. fresh requests through the gRPC entry point.
	fs = append(fs,
		family{top: rig.Topology{RF: 1, Nodes: 3, Local: 0}, homes: []int{0, 1}, grpc: true, alphabet: full},
		family{top: rig.Topology{RF: 2, Nodes: 3, Local: 0}, homes: []int{0, 1}, grpc: true, alphabet: full},
		family{top: rig.Topology{RF: 3, Nodes: 3, Local: 0}, homes: []int{0, 0}, grpc: true, alphabet: full},
	)
	return fs
}

// refQuorum is the reference write quorum: a majority of the replicas, except that replication factor 2 is
// documented (Handler.writeQuorum) to need only one store.
func refQuorum(rf int) int {
	if rf == 2 {
		return 1
	}
	return rf/2 + 1
}

func localOnce(f family) bool {
	n := 0
	for _, d := range rig.Dests(f.top, f.homes, f.rep) {
		if d.Node == f.top.Local {
			n++
		}
	}
	return n <= 1
}

func gen(r *vlib.R) iter.Seq[Case] {
	return func(yield func(Case) bool) {
		// the history families come first: they are the smaller part, a deadline cuts the tail of the older families
		for _, f := range append(historyFamilies(r.Thorough()), families(r.Thorough())...) {
			if !localOnce(f) {
				panic("family uses the local node for two destinations (the local TSDB stub cannot tell them apart)")
			}
			dests := rig.Dests(f.top, f.homes, f.rep)
			for ov := range vlib.Tuples(len(dests), len(f.alphabet)) {
				out := make([]int, len(dests))
				var live []int
				nBack := 0
				for i, x := range ov {
					out[i] = f.alphabet[x]
					if out[i] == rig.Backoff {
						nBack++
					} else {
						live = append(live, i)
					}
				}
				if nBack > 0 && len(f.homes) > 1 {
					continue // back-off replies cannot be ordered among themselves; single-series families only
				}
				pres := f.pres
				if pres == nil {
					pres = [][]int{nil}
				}
				for perm := range vlib.Perms(len(live)) {
					order := make([]int, len(live))
					for i, p := range perm {
						order[i] = live[p]
					}
					for _, pre := range pres {
						c := Case{Top: f.top, Homes: f.homes, Rep: f.rep, GRPC: f.grpc, Outcomes: out, Order: order,
							Split: f.split, LastLabel: f.lastLabel, Pre: pre}
						if !yield(c) {
							return
						}
					}
				}
			}
		}
	}
}

func TestCheck(t *testing.T) {
	// One P: a sync.Pool item put by one request (or by its clean-up goroutine) is then the item the next request of
	// the same handler draws, deterministically. Parallelism comes from the driver's shards (meta.json "workers").
	runtime.GOMAXPROCS(1)
	r := vlib.New(t, "C22")
	defer r.Finish()
	r.Rule("real receive.Handler; families: 1 series RF 1..5 (handler outside ring / is replica 0,1,2), 2-3 series over 3-4 nodes with shared, " +
		"overlapping and disjoint replica sets, already-replicated requests (replica 1..RF+1) via HTTP and gRPC, fresh via gRPC; each crossed with " +
		"every outcome vector over {ok,conflict,unavailable,other[,backoff]} per (node,replica) destination x every arrival order; " +
		"additionally (split-tenant label configured) the smaller shapes (1 series RF 1..4, 2 series on shared / overlapping replica sets, handler as a later replica, " +
		"observed request split by the tenant label itself, already-replicated requests) are run as the last request of a history on the same handler: preceding request in " +
		"{none, stored everywhere, conflict everywhere, rejected in distribution by an invalid split-tenant label value on its last series, rejected by Hashring.GetN " +
		"for a tenant whose hashring has RF-1 nodes} (histories of length 2 for 1 series RF 3; thorough: for every shape); " +
		"non-trivial = distinct case with at least one ok and one failed destination (history cases: and every predecessor ended as intended)")
	r.Assume("write quorum = floor(RF/2)+1, and 1 for RF 2 (the documented exception in Handler.writeQuorum); computed by the check, not read from the handler",
		"the hashring placement is taken as given (hashmod ring; C18-C21 cover placement)",
		"a peer that answers ok has stored every series of the forwarded request, a peer that answers with an error stored none",
		"arrival order is the release order of the stubs (synctest.Wait between releases); back-off replies always arrive first (produced synchronously by sendWrites)",
		"receiver mode RouterIngestor, protobuf replication, no relabelling, no limits, forward timeout never fires; worker pools are never saturated (8 workers per peer)",
		"history: requests of one handler are handled one after the other (a predecessor has returned, all its replies were delivered and its clean-up goroutine has finished before the next request starts); "+
			"the process runs on one P so that sync.Pool reuse between them is the deterministic worst case (always reused)")
	vlib.ForEach(r, gen(r), func(c Case) {
		tr := rig.Run(t, c)
		r.Sample(c)
		if tr.HarnessErr != "" {
			t.Errorf("HARNESS-ERROR %s case=%+v", tr.HarnessErr, c)
			return
		}
		nOK, nBad := 0, 0
		for _, o := range c.Outcomes {
			if o == rig.OK {
				nOK++
			} else {
				nBad++
			}
		}
		// history: did every predecessor end the way its kind says (so that the observed request really follows that history)?
		preAsIntended := true
		for j, pt := range tr.Pre {
			var ok bool
			switch pt.Kind {
			case rig.PreOK:
				ok = pt.Resp.Acked() || c.Rep > c.Top.RF
			case rig.PreConflict:
				ok = !pt.Resp.Acked() && pt.Resp.Panic == ""
			case rig.PreBadLabel:
				ok = pt.Resp.Returned && pt.Resp.Status == 400 && pt.Contacted == 0
			case rig.PreGetN:
				ok = pt.Resp.Returned && !pt.Resp.Acked() && pt.Resp.Panic == "" && pt.Contacted == 0
			}
			r.Add(fmt.Sprintf("history_%s_status_%d", rig.PreNames[pt.Kind], pt.Resp.Status), 1)
			if !ok {
				preAsIntended = false
				r.Add("history_predecessor_not_as_intended", 1)
			}
			if pt.Resp.Panic != "" {
				r.Violation("request-handling-panicked", fmt.Sprintf("predecessor %d (%s) panicked: %s", j, rig.PreNames[pt.Kind], pt.Resp.Panic), c)
				return
			}
			// the property holds for every request of the history: an acknowledged predecessor must have every series on a
			// quorum of nodes (judged on the stores at the end of the experiment: weaker than the statement, never stronger)
			if pt.Resp.Acked() {
				need := refQuorum(c.Top.RF)
				if c.Rep > 0 && (pt.Kind == rig.PreOK || pt.Kind == rig.PreConflict) {
					need = 1
				}
				for si, nodes := range pt.Stored {
					if len(nodes) < need {
						r.Violation("earlier-request-acknowledged-without-quorum", fmt.Sprintf("predecessor %d (%s) got status %d but its series %d is stored on nodes %v only (needs %d)",
							j, rig.PreNames[pt.Kind], pt.Resp.Status, si, nodes, need), c)
						return
					}
				}
			}
		}
		if len(c.Pre) > 0 || c.Split {
			r.Add("history_cases", 1)
		}
		if tr.Unexpected > 0 {
			r.Add("stub_calls_for_destinations_without_series_of_the_request", int64(tr.Unexpected))
		}
		if tr.Repeated > 0 {
			r.Add("repeated_stub_calls_for_one_destination", int64(tr.Repeated))
		}
		if nOK > 0 && nBad > 0 && preAsIntended {
			r.Nontrivial(fmt.Sprint(c))
			if len(c.Pre) > 0 {
				r.Add("history_nontrivial", 1)
			}
		}
		if len(tr.NotContacted) > 0 {
			r.Add("destinations_never_contacted", int64(len(tr.NotContacted)))
		}
		if tr.Resp.Panic != "" {
			r.Violation("request-handling-panicked", "panic: "+tr.Resp.Panic, c)
			return
		}
		acked := tr.Resp.Acked()
		early := tr.ReturnedAfter >= 0 && tr.ReturnedAfter < len(c.Order)
		r.Add(fmt.Sprintf("status_%d", tr.Resp.Status), 1)
		if !tr.Resp.Returned {
			r.Add("returned_only_at_forward_timeout", 1)
		}
		// reference model: which series are sufficiently stored
		quorum := refQuorum(c.Top.RF)
		if quorum != tr.Quorum {
			r.Add("handler_quorum_differs_from_reference", 1)
		}
		enough := func(stored [][]int) (bool, int) {
			for s := range c.Homes {
				if c.Rep > 0 {
					if c.Rep > c.Top.RF {
						return false, s
					}
					addressed := (c.Homes[s] + c.Rep - 1) % c.Top.Nodes
					ok := false
					for _, n := range stored[s] {
						if n == addressed {
							ok = true
						}
					}
					if !ok {
						return false, s
					}
				} else if len(stored[s]) < quorum {
					return false, s
				}
			}
			return true, -1
		}
		okAtReturn, badSeries := enough(tr.StoredAtRet)
		okFinal, _ := enough(tr.StoredFinal)
		if acked && !okAtReturn {
			sig := "acknowledged-before-quorum-was-stored"
			if !okFinal {
				sig = "acknowledged-without-quorum"
			}
			if c.Rep > 0 {
				sig = "replicated-request-acknowledged-without-store-on-addressed-replica"
			}
			r.Violation(sig, fmt.Sprintf("status %d after %d/%d replies; series %d stored on nodes %v at that moment (finally %v), quorum %d, dests %+v",
				tr.Resp.Status, tr.ReturnedAfter, len(c.Order), badSeries, tr.StoredAtRet[badSeries], tr.StoredFinal[badSeries], quorum, tr.Dests), c)
		}
		if !acked && okFinal {
			// not promised by the statement (it only restricts acknowledgements); reported, not asserted
			r.Add("failed_although_every_series_reached_quorum", 1)
		}
		if acked {
			r.Add("acked", 1)
			if early {
				r.Add("acked_before_last_reply", 1)
			}
		} else {
			r.Add("failed", 1)
			if early {
				r.Add("failed_before_last_reply", 1)
			}
		}
	})
}
