//go:build verif

// Package rig is the shared harness of the C22, C23 and C26 checks: the real receive.Handler (real peerGroup,
// real peerWorkers and worker pools, real localAsyncWriter + Writer) in front of network/TSDB stubs whose
// replies are released one at a time by the harness inside a testing/synctest bubble.
//
// Delivery control: every stub call blocks on its own gate. The harness releases exactly one gate and then
// calls synctest.Wait(), which returns only when every other goroutine of the bubble (handler goroutine,
// sendWrites goroutine, workers, drain goroutine) is durably blocked again - i.e. after the reply has travelled
// through peerWorker.buildWork into the `responses` channel and has been consumed by fanoutForward (or by the
// drain goroutine if the handler already returned). Arrival order at the handler therefore IS the release order,
// independent of the OS scheduler, and "has the handler returned yet" can be read after every single reply.
package rig

import (
	"bytes"
	"context"
	"errors"
	"fmt"
	"io"
	"net/http"
	"net/http/httptest"
	"strconv"
	"sync"
	"testing"
	"testing/synctest"
	"time"

	"github.com/go-kit/log"
	"github.com/gogo/protobuf/proto"
	"github.com/klauspost/compress/s2"
	"github.com/prometheus/prometheus/model/exemplar"
	"github.com/prometheus/prometheus/model/histogram"
	"github.com/prometheus/prometheus/model/labels"
	"github.com/prometheus/prometheus/model/metadata"
	"github.com/prometheus/prometheus/storage"
	"github.com/prometheus/prometheus/tsdb"
	"google.golang.org/grpc"
	"google.golang.org/grpc/codes"
	"google.golang.org/grpc/status"

	"github.com/thanos-io/thanos/pkg/receive"
	"github.com/thanos-io/thanos/pkg/store/labelpb"
	"github.com/thanos-io/thanos/pkg/store/storepb"
	"github.com/thanos-io/thanos/pkg/store/storepb/prompb"
)

// Outcomes of one (node, replica) destination.
const (
	OK          = 0 // stored
	Conflict    = 1 // remote: gRPC AlreadyExists; local: storage.ErrOutOfOrderSample from Append
	Unavailable = 2 // remote: gRPC Unavailable; local: tsdb.ErrNotReady from Appender()
	Other       = 3 // remote: gRPC Internal; local: Commit error
	Backoff     = 4 // peer is in back-off: the real getConnection returns errUnavailable (reply not orderable: it is
	//               produced synchronously by sendWrites, so it always precedes every released reply)
)

var OutcomeNames = []string{"ok", "conflict", "unavailable", "other", "backoff"}

const Tenant = "t1"

// Names used by the history / split-tenant dimension.
const (
	SplitLabel  = "tenant_id" // --receive.split-tenant-label-name when Plan.Split is set
	HeaderOther = "hdr"       // tenant named by the request when its series carry SplitLabel=Tenant (Plan.LastLabel)
	SmallTenant = "small"     // tenant whose hashring has only RF-1 nodes (predecessor PreGetN)
	BadTenant   = "not/valid" // split-label value that tenancy.IsTenantValid refuses
)

// Kinds of a request handled by the SAME handler before the observed one (Plan.Pre). A predecessor has its own
// series (indices 100*(j+1)+i) placed on the same homes as the observed request, so that everything the handler
// keeps between requests (pooled maps and slices, peer state) is keyed like the observed request's.
const (
	PreOK       = 1 // same shape as the observed request (homes, replica header, entry point); every destination stores; all replies delivered, cleanup awaited
	PreConflict = 2 // same shape; every destination answers conflict, the request fails; all replies delivered, cleanup awaited
	PreBadLabel = 3 // needs Split: fresh HTTP request, the same homes plus a trailing series whose split-tenant label value is not a valid tenant: rejected in distribution after the other series were placed
	PreGetN     = 4 // needs RF >= 2: fresh HTTP request of SmallTenant (hashring of RF-1 nodes): replicas 0..RF-2 of its series are placed, replica RF-1 makes Hashring.GetN fail
)

var PreNames = []string{"none", "ok", "conflict", "bad-split-label", "getn-error"}

// Topology of the rig: Nodes endpoints in a hashmod ring, replication factor RF, node Local is the handler
// itself (-1: the handler is not a member, every destination is remote).
type Topology struct {
	RF    int `json:"rf"`
	Nodes int `json:"nodes"`
	Local int `json:"local"`
}

type key struct{ node, replica int }

type call struct {
	gate chan int
}

// Store is one series durably accepted by a stub.
type Store struct {
	Node    int
	Replica int // replica number carried by the forwarded request (-1 for the local TSDB, which is not told)
	Tenant  string
	TS      prompb.TimeSeries
}

type Rig struct {
	Top  Topology
	H    *receive.Handler
	Eps  []receive.Endpoint
	HR   receive.Hashring
	Auto bool // stubs answer OK immediately (no gating); used by C26

	mu      sync.Mutex
	pending map[key][]*call
	stores  []Store
	// expectation mode (set by begin, used by run): only the destinations of the request being handled are gated;
	// a destination answers every call of one request alike
	expected   map[key]bool
	gatedMode  bool
	decided    map[key]int
	unexpected int // calls for a (node, replica) that holds no series of the request being handled (answered ok at once)
	repeated   int // further calls to a destination that has already answered during this request
}

// Config are the handler options beyond the topology.
type Config struct {
	Split     bool // configure SplitLabel as the split-tenant label name
	SmallRing bool // SmallTenant gets its own hashring made of the first RF-1 nodes
}

func endpoints(n int) []receive.Endpoint {
	eps := make([]receive.Endpoint, n)
	for i := range eps {
		a := fmt.Sprintf("node-%d:10901", i)
		eps[i] = receive.Endpoint{Address: a, CapNProtoAddress: a}
	}
	return eps
}

// New builds the handler. When gating is used it must be called inside the synctest bubble (worker pools and
// channels must belong to the bubble).
func New(top Topology, auto bool) *Rig { return NewWith(top, auto, Config{}) }

// SmallRingNodes is the size of SmallTenant's hashring.
func SmallRingNodes(top Topology) int { return top.RF - 1 }

func NewWith(top Topology, auto bool, cfg Config) *Rig {
	r := &Rig{Top: top, Auto: auto, pending: map[key][]*call{}}
	r.Eps = endpoints(top.Nodes)
	var rings []receive.HashringConfig
	if cfg.SmallRing {
		rings = append(rings, receive.HashringConfig{Hashring: "small", Tenants: []string{SmallTenant},
			Endpoints: append([]receive.Endpoint(nil), r.Eps[:SmallRingNodes(top)]...)})
	}
	rings = append(rings, receive.HashringConfig{Hashring: "verif", Endpoints: append([]receive.Endpoint(nil), r.Eps...)})
	hr, err := receive.NewMultiHashring(receive.AlgorithmHashmod, uint64(top.RF), rings, nil)
	if err != nil {
		panic(err)
	}
	r.HR = hr
	lim, err := receive.NewLimiter(nil, nil, receive.RouterIngestor, log.NewNopLogger(), time.Second)
	if err != nil {
		panic(err)
	}
	o := &receive.Options{
		TenantHeader:            "THANOS-TENANT",
		DefaultTenantID:         "default-tenant",
		ReplicaHeader:           receive.DefaultReplicaHeader,
		ReplicationFactor:       uint64(top.RF),
		ForwardTimeout:          time.Hour,
		Limiter:                 lim,
		AsyncForwardWorkerCount: 8, // >= destinations per peer, so no reply can queue behind a gated one
		ReplicationProtocol:     receive.ProtobufReplication,
		Endpoint:                "not-a-member:1",
	}
	if cfg.Split {
		o.SplitTenantLabelName = SplitLabel
	}
	remote := map[receive.Endpoint]receive.VerifPeerClient{}
	for i, ep := range r.Eps {
		if i == top.Local {
			o.Endpoint = ep.Address
			o.Writer = receive.NewWriter(log.NewNopLogger(), &localStorage{r: r, node: i}, &receive.WriterOptions{})
			continue
		}
		remote[ep] = &peerStub{r: r, node: i}
	}
	if o.Writer == nil {
		// isReady() wants a writer; it is never used when the handler is not a ring member.
		o.Writer = receive.NewWriter(log.NewNopLogger(), &localStorage{r: r, node: -1}, &receive.WriterOptions{})
	}
	r.H = receive.VerifNewHandler(o, hr, remote)
	return r
}

func (r *Rig) Close() { r.H.Close() }

func (r *Rig) NodeOf(ep receive.Endpoint) int {
	for i := range r.Eps {
		if r.Eps[i].Address == ep.Address {
			return i
		}
	}
	return -1
}

// ReplicaNode is where the hashring places replica rep of the series.
func (r *Rig) ReplicaNode(ts *prompb.TimeSeries, rep int) int {
	ep, err := r.HR.GetN(Tenant, ts, uint64(rep))
	if err != nil {
		return -1
	}
	return r.NodeOf(ep)
}

func (r *Rig) Stores() []Store {
	r.mu.Lock()
	defer r.mu.Unlock()
	return append([]Store(nil), r.stores...)
}

func (r *Rig) record(node, replica int, tenant string, ts prompb.TimeSeries) {
	r.mu.Lock()
	r.stores = append(r.stores, Store{Node: node, Replica: replica, Tenant: tenant, TS: ts})
	r.mu.Unlock()
}

// begin starts the handling of one request in expectation mode: exp lists the destinations (node, replica) that hold
// series of this request. Calls to other destinations are answered ok at once and counted (they only happen on a
// broken tree); once a destination was released, every further call of the same request gets the same answer.
func (r *Rig) begin(exp []Dest) {
	r.mu.Lock()
	defer r.mu.Unlock()
	r.gatedMode = true
	r.expected = map[key]bool{}
	r.decided = map[key]int{}
	for _, d := range exp {
		k := key{d.Node, d.Replica}
		if d.Node == r.Top.Local {
			k.replica = -1
		}
		r.expected[k] = true
	}
}

// arrive registers the blocked call and waits for the harness to release it.
func (r *Rig) arrive(k key) int {
	if r.Auto {
		return OK
	}
	r.mu.Lock()
	if r.gatedMode {
		if !r.expected[k] {
			r.unexpected++
			r.mu.Unlock()
			return OK
		}
		if out, ok := r.decided[k]; ok {
			r.repeated++
			r.mu.Unlock()
			return out
		}
	}
	c := &call{gate: make(chan int)}
	r.pending[k] = append(r.pending[k], c)
	r.mu.Unlock()
	return <-c.gate
}

// Release lets the blocked call(s) of (node, replica) finish with the given outcome; false if none arrived.
func (r *Rig) Release(node, replica, outcome int) bool {
	k := key{node, replica}
	if node == r.Top.Local {
		k.replica = -1
	}
	r.mu.Lock()
	cs := r.pending[k]
	delete(r.pending, k)
	if len(cs) > 0 && r.decided != nil {
		r.decided[k] = outcome
		r.repeated += len(cs) - 1
	}
	r.mu.Unlock()
	for _, c := range cs {
		c.gate <- outcome
	}
	return len(cs) > 0
}

// flush releases whatever is still blocked (answer: other error); returns how many destinations that were.
func (r *Rig) flush() int {
	r.mu.Lock()
	var ks []key
	for k := range r.pending {
		ks = append(ks, k)
	}
	r.mu.Unlock()
	for _, k := range ks {
		r.mu.Lock()
		cs := r.pending[k]
		delete(r.pending, k)
		if r.decided != nil {
			r.decided[k] = Other
		}
		r.mu.Unlock()
		for _, c := range cs {
			c.gate <- Other
		}
		synctest.Wait()
	}
	return len(ks)
}

// Arrived lists the destinations currently blocked in a stub.
func (r *Rig) Arrived() int {
	r.mu.Lock()
	defer r.mu.Unlock()
	return len(r.pending)
}

// ---- remote peer stub (the gRPC client of one peer) ----

type peerStub struct {
	r    *Rig
	node int
}

func (p *peerStub) Close() error { return nil }

func deepCopyTS(ts prompb.TimeSeries) prompb.TimeSeries {
	b, err := ts.Marshal()
	if err != nil {
		panic(err)
	}
	var out prompb.TimeSeries
	if err := out.Unmarshal(b); err != nil {
		panic(err)
	}
	labelpb.ReAllocZLabelsStrings(&out.Labels)
	for i := range out.Exemplars {
		labelpb.ReAllocZLabelsStrings(&out.Exemplars[i].Labels)
	}
	return out
}

func (p *peerStub) RemoteWrite(_ context.Context, in *storepb.WriteRequest, _ ...grpc.CallOption) (*storepb.WriteResponse, error) {
	rep := int(in.Replica) - 1
	switch p.r.arrive(key{p.node, rep}) {
	case OK:
		for _, tt := range in.TimeseriesTenantData {
			for _, ts := range tt.Timeseries {
				p.r.record(p.node, rep, tt.Tenant, deepCopyTS(ts))
			}
		}
		for _, ts := range in.Timeseries {
			p.r.record(p.node, rep, in.Tenant, deepCopyTS(ts))
		}
		return &storepb.WriteResponse{}, nil
	case Conflict:
		return nil, status.Error(codes.AlreadyExists, "peer: conflict")
	case Unavailable:
		return nil, status.Error(codes.Unavailable, "peer: unavailable")
	default:
		return nil, status.Error(codes.Internal, "peer: internal")
	}
}

// ---- local TSDB stub (under the real Writer and the real localAsyncWriter) ----

type localStorage struct {
	r    *Rig
	node int
}

func (s *localStorage) TenantAppendable(tenant string) (receive.Appendable, error) {
	if s.node < 0 {
		return nil, errors.New("rig: handler is not a ring member but wrote locally")
	}
	out := s.r.arrive(key{s.node, -1})
	return &localAppendable{s: s, tenant: tenant, outcome: out}, nil
}

type localAppendable struct {
	s       *localStorage
	tenant  string
	outcome int
}

func (a *localAppendable) Appender(context.Context) (storage.Appender, error) {
	if a.outcome == Unavailable {
		return nil, tsdb.ErrNotReady
	}
	return &localAppender{a: a, series: map[string]*prompb.TimeSeries{}}, nil
}

type localAppender struct {
	a      *localAppendable
	order  []string
	series map[string]*prompb.TimeSeries
}

func (l *localAppender) get(ls labels.Labels) *prompb.TimeSeries {
	k := ls.String()
	ts, ok := l.series[k]
	if !ok {
		ts = &prompb.TimeSeries{Labels: labelpb.ZLabelsFromPromLabels(ls.Copy())}
		l.series[k] = ts
		l.order = append(l.order, k)
	}
	return ts
}

func (l *localAppender) GetRef(ls labels.Labels, _ uint64) (storage.SeriesRef, labels.Labels) {
	return 0, ls
}
func (l *localAppender) SetOptions(*storage.AppendOptions) {}
func (l *localAppender) Append(_ storage.SeriesRef, ls labels.Labels, t int64, v float64) (storage.SeriesRef, error) {
	if l.a.outcome == Conflict {
		return 0, storage.ErrOutOfOrderSample
	}
	ts := l.get(ls)
	ts.Samples = append(ts.Samples, prompb.Sample{Timestamp: t, Value: v})
	return 1, nil
}
func (l *localAppender) AppendExemplar(_ storage.SeriesRef, ls labels.Labels, e exemplar.Exemplar) (storage.SeriesRef, error) {
	ts := l.get(ls)
	ts.Exemplars = append(ts.Exemplars, prompb.Exemplar{Labels: labelpb.ZLabelsFromPromLabels(e.Labels.Copy()), Value: e.Value, Timestamp: e.Ts})
	return 1, nil
}
func (l *localAppender) AppendHistogram(_ storage.SeriesRef, ls labels.Labels, t int64, h *histogram.Histogram, fh *histogram.FloatHistogram) (storage.SeriesRef, error) {
	if l.a.outcome == Conflict {
		return 0, storage.ErrOutOfOrderSample
	}
	ts := l.get(ls)
	if h != nil {
		ts.Histograms = append(ts.Histograms, prompb.HistogramToHistogramProto(t, h))
	} else {
		ts.Histograms = append(ts.Histograms, prompb.FloatHistogramToHistogramProto(t, fh))
	}
	return 1, nil
}
func (l *localAppender) AppendHistogramSTZeroSample(storage.SeriesRef, labels.Labels, int64, int64, *histogram.Histogram, *histogram.FloatHistogram) (storage.SeriesRef, error) {
	return 0, nil
}
func (l *localAppender) AppendSTZeroSample(storage.SeriesRef, labels.Labels, int64, int64) (storage.SeriesRef, error) {
	return 0, nil
}
func (l *localAppender) UpdateMetadata(storage.SeriesRef, labels.Labels, metadata.Metadata) (storage.SeriesRef, error) {
	return 0, nil
}
func (l *localAppender) Rollback() error { return nil }
func (l *localAppender) Commit() error {
	if l.a.outcome == Other {
		return errors.New("local: commit failed")
	}
	if l.a.outcome == OK {
		for _, k := range l.order {
			l.a.s.r.record(l.a.s.node, -1, l.a.tenant, *l.series[k])
		}
	}
	return nil
}

// ---- driving one request ----

// Request is one remote-write request sent to the handler under test.
type Request struct {
	GRPC    bool                // true: Handler.RemoteWrite (the entry used by peers); false: HTTP receive endpoint
	Rep     int                 // replica header / WriteRequest.Replica (0: not yet replicated)
	Series  []prompb.TimeSeries // v1 payload
	Tenant  string              // tenant named by the request ("" = Tenant)
	RawBody []byte              // HTTP only: uncompressed protobuf body sent instead of Series
	Headers map[string]string   // HTTP only: extra headers
}

// Response is what the client of the handler observes.
type Response struct {
	Returned bool   // the handler call returned (false: still blocked after every reply was delivered)
	Status   int    // HTTP status; for gRPC 200 on nil error, otherwise 1000+gRPC code
	Body     string // HTTP body / gRPC error text
	Panic    string // non-empty: request handling panicked
	Header   http.Header
}

func (resp Response) Acked() bool {
	return resp.Returned && resp.Panic == "" && resp.Status >= 200 && resp.Status < 300
}

// exec performs the request on the calling goroutine and recovers a panic of request handling.
func (r *Rig) exec(rq Request) (resp Response) {
	defer func() {
		if p := recover(); p != nil {
			resp.Panic = fmt.Sprint(p)
		}
		resp.Returned = true
	}()
	tenant := rq.Tenant
	if tenant == "" {
		tenant = Tenant
	}
	if rq.GRPC {
		in := &storepb.WriteRequest{Replica: int64(rq.Rep), TimeseriesTenantData: []storepb.TimeSeriesTenantTuple{{Tenant: tenant, Timeseries: rq.Series}}}
		_, err := r.H.RemoteWrite(context.Background(), in)
		resp.Status = 200
		if err != nil {
			resp.Status = 1000 + int(status.Code(err))
			resp.Body = err.Error()
		}
		return resp
	}
	body := rq.RawBody
	if body == nil {
		b, err := proto.Marshal(&prompb.WriteRequest{Timeseries: rq.Series})
		if err != nil {
			panic(err)
		}
		body = b
	}
	hr := httptest.NewRequest(http.MethodPost, "/api/v1/receive", bytes.NewReader(s2.EncodeSnappy(nil, body)))
	hr.Header.Set("THANOS-TENANT", tenant)
	if rq.Rep != 0 {
		hr.Header.Set(receive.DefaultReplicaHeader, strconv.Itoa(rq.Rep))
	}
	for k, v := range rq.Headers {
		hr.Header.Set(k, v)
	}
	rec := httptest.NewRecorder()
	r.H.VerifReceiveHTTP(rec, hr)
	resp.Status = rec.Code
	resp.Header = rec.Header()
	b, _ := io.ReadAll(rec.Body)
	resp.Body = string(b)
	return resp
}

// Do performs the request synchronously (auto mode: the stubs answer at once).
func (r *Rig) Do(rq Request) Response { return r.exec(rq) }

// Start launches the request on its own goroutine; the returned func reports the response if the handler has returned.
func (r *Rig) Start(rq Request) (poll func() (Response, bool)) {
	done := make(chan Response, 1)
	go func() { done <- r.exec(rq) }()
	var got *Response
	return func() (Response, bool) {
		if got != nil {
			return *got, true
		}
		select {
		case x := <-done:
			got = &x
			return x, true
		default:
			return Response{}, false
		}
	}
}

// SeriesAt returns series number idx, labelled so that the hashmod ring of n nodes places its replica 0 on node home.
func SeriesAt(n, idx, home int) prompb.TimeSeries { return seriesFor(Tenant, n, idx, home) }

// seriesFor is SeriesAt for a given tenant (the tenant is part of the placement hash).
func seriesFor(tenant string, n, idx, home int) prompb.TimeSeries {
	seriesMu.Lock()
	defer seriesMu.Unlock()
	k := seriesKey{tenant, n, idx, home}
	if v, ok := seriesCache[k]; ok {
		return mkSeries(idx, v)
	}
	hr, err := receive.NewMultiHashring(receive.AlgorithmHashmod, 1, []receive.HashringConfig{{Hashring: "verif", Endpoints: endpoints(n)}}, nil)
	if err != nil {
		panic(err)
	}
	want := endpoints(n)[home].Address
	for j := 0; ; j++ {
		v := fmt.Sprintf("%d-%d", idx, j)
		ts := mkSeries(idx, v)
		ep, err := hr.GetN(tenant, &ts, 0)
		if err != nil {
			panic(err)
		}
		if ep.Address == want {
			seriesCache[k] = v
			return ts
		}
	}
}

type seriesKey struct {
	tenant       string
	n, idx, home int
}

var (
	seriesMu    sync.Mutex
	seriesCache = map[seriesKey]string{}
)

// withSplitLabel returns the series with the label SplitLabel=value added (labels stay sorted: "__name__" < "tenant_id" < "v").
func withSplitLabel(ts prompb.TimeSeries, value string) prompb.TimeSeries {
	out := ts
	out.Labels = make([]labelpb.ZLabel, 0, len(ts.Labels)+1)
	done := false
	for _, l := range ts.Labels {
		if !done && l.Name > SplitLabel {
			out.Labels = append(out.Labels, labelpb.ZLabel{Name: SplitLabel, Value: value})
			done = true
		}
		out.Labels = append(out.Labels, l)
	}
	if !done {
		out.Labels = append(out.Labels, labelpb.ZLabel{Name: SplitLabel, Value: value})
	}
	return out
}

func mkSeries(idx int, v string) prompb.TimeSeries {
	return prompb.TimeSeries{
		Labels:  []labelpb.ZLabel{{Name: "__name__", Value: "m" + strconv.Itoa(idx)}, {Name: "v", Value: v}},
		Samples: []prompb.Sample{{Timestamp: 1000 + int64(idx), Value: float64(idx) + 0.5}},
	}
}

// SeriesIndex recovers idx from a stored series made by SeriesAt (-1 if it is something else).
func SeriesIndex(ts prompb.TimeSeries) int {
	for _, l := range ts.Labels {
		if l.Name == "__name__" && len(l.Value) > 1 && l.Value[0] == 'm' {
			if i, err := strconv.Atoi(l.Value[1:]); err == nil {
				return i
			}
		}
	}
	return -1
}

// ---- the enumerated experiment of C22/C23 ----

// Dest is one (node, replica) destination and the series it carries.
type Dest struct {
	Node    int   `json:"node"`
	Replica int   `json:"replica"`
	Series  []int `json:"series"`
}

// Plan is one fully determined experiment (plain data; this is what the checks enumerate).
type Plan struct {
	Top      Topology `json:"top"`
	Homes    []int    `json:"homes"`    // per series: node of its replica 0
	Rep      int      `json:"rep"`      // 0 = fresh request, k>0 = already replicated as replica k
	GRPC     bool     `json:"grpc"`     // entry point
	Outcomes []int    `json:"outcomes"` // per destination (canonical order of Dests)
	Order    []int    `json:"order"`    // release order: indices into Dests (Backoff destinations are not listed)
	// history / configuration dimension (all zero: one request on a fresh handler without split-tenant label)
	Split     bool  `json:"split,omitempty"`      // the split-tenant label name is configured (SplitLabel)
	LastLabel bool  `json:"last_label,omitempty"` // needs Split: the observed request names tenant HeaderOther and its series carry SplitLabel=Tenant
	Pre       []int `json:"pre,omitempty"`        // kinds (Pre*) of the requests the same handler handled before the observed one, oldest first
}

// PreTrace is the observation of one predecessor request.
type PreTrace struct {
	Kind      int
	Resp      Response
	Contacted int     // destinations that reached a stub while it was handled
	Stored    [][]int // per series of the predecessor: distinct nodes that recorded it by the end of the experiment
}

// Dests computes the canonical destination list of a plan from the hashmod placement (series i replica r lives
// on node (home_i + r) mod Nodes): first-seen order over (series, replica).
func Dests(top Topology, homes []int, rep int) []Dest {
	var out []Dest
	find := func(n, r int) int {
		for i := range out {
			if out[i].Node == n && out[i].Replica == r {
				return i
			}
		}
		out = append(out, Dest{Node: n, Replica: r})
		return len(out) - 1
	}
	lo, hi := 0, top.RF
	if rep > top.RF {
		return nil // refused by the handler before any placement
	}
	if rep > 0 {
		lo, hi = rep-1, rep
	}
	for s, h := range homes {
		for r := lo; r < hi; r++ {
			i := find((h+r)%top.Nodes, r)
			out[i].Series = append(out[i].Series, s)
		}
	}
	return out
}

// Trace is the observation of one experiment.
type Trace struct {
	Dests         []Dest
	Resp          Response
	ReturnedAfter int     // number of released replies after which the handler had returned (0 = before any release)
	StoredAtRet   [][]int // per series: nodes (among the series' replicas) holding it when the handler returned
	StoredFinal   [][]int // same after every reply was delivered
	NotContacted  []int   // destinations that never reached their stub although not in back-off
	Quorum        int
	HarnessErr    string
	Pre           []PreTrace
	Unexpected    int // stub calls for a (node, replica) holding no series of the request being handled (answered ok at once; 0 on a correct tree)
	Repeated      int // further calls of one request to a destination that had already been called (0 on a correct tree)
}

// storedAnywhere lists the distinct nodes that recorded a series with index idx (any tenant, any replica number).
func (r *Rig) storedAnywhere(idx int) []int {
	var out []int
	for _, st := range r.Stores() {
		if SeriesIndex(st.TS) != idx {
			continue
		}
		dup := false
		for _, n := range out {
			dup = dup || n == st.Node
		}
		if !dup {
			out = append(out, st.Node)
		}
	}
	return out
}

func (r *Rig) storedNodes(series []prompb.TimeSeries, rf int) [][]int {
	out := make([][]int, len(series))
	for _, st := range r.Stores() {
		i := SeriesIndex(st.TS)
		if i < 0 || i >= len(series) || st.Tenant != Tenant {
			continue
		}
		// only a store on one of the series' own replicas counts
		mine := false
		for rep := 0; rep < rf; rep++ {
			if r.ReplicaNode(&series[i], rep) == st.Node {
				mine = true
			}
		}
		dup := false
		for _, n := range out[i] {
			if n == st.Node {
				dup = true
			}
		}
		if mine && !dup {
			out[i] = append(out[i], st.Node)
		}
	}
	return out
}

// Run executes the plan inside a synctest bubble.
func Run(t *testing.T, p Plan) Trace {
	var tr Trace
	synctest.Test(t, func(t *testing.T) {
		tr = run(p)
	})
	return tr
}

// preRequest builds predecessor number j of the plan: the request and the destinations it will reach.
func (r *Rig) preRequest(p Plan, j, kind int) (rq Request, dests []Dest, idx []int, err string) {
	base := 100 * (j + 1)
	switch kind {
	case PreOK, PreConflict:
		for i, h := range p.Homes {
			rq.Series = append(rq.Series, SeriesAt(p.Top.Nodes, base+i, h))
			idx = append(idx, base+i)
		}
		rq.GRPC, rq.Rep = p.GRPC, p.Rep
		return rq, Dests(p.Top, p.Homes, p.Rep), idx, ""
	case PreBadLabel:
		if !p.Split {
			return rq, nil, nil, "predecessor bad-split-label needs the split-tenant label to be configured"
		}
		for i, h := range p.Homes {
			rq.Series = append(rq.Series, SeriesAt(p.Top.Nodes, base+i, h))
			idx = append(idx, base+i)
		}
		rq.Series = append(rq.Series, withSplitLabel(mkSeries(base+99, "x"), BadTenant))
		idx = append(idx, base+99)
		return rq, nil, idx, ""
	case PreGetN:
		n := SmallRingNodes(p.Top)
		if n < 1 {
			return rq, nil, nil, "predecessor getn-error needs a replication factor >= 2"
		}
		ts := seriesFor(SmallTenant, n, base, p.Homes[0]%n)
		// the construction must be what it claims: replicas 0..RF-2 are placed, replica RF-1 is refused by the hashring
		for rep := 0; rep < p.Top.RF; rep++ {
			_, e := r.HR.GetN(SmallTenant, &ts, uint64(rep))
			if (e != nil) != (rep == p.Top.RF-1) {
				return rq, nil, nil, fmt.Sprintf("small hashring: GetN of replica %d gave err=%v", rep, e)
			}
		}
		rq.Series, rq.Tenant = []prompb.TimeSeries{ts}, SmallTenant
		return rq, nil, []int{base}, ""
	}
	return rq, nil, nil, fmt.Sprintf("unknown predecessor kind %d", kind)
}

func run(p Plan) (tr Trace) {
	hasGetN := false
	for _, k := range p.Pre {
		hasGetN = hasGetN || k == PreGetN
	}
	r := NewWith(p.Top, false, Config{Split: p.Split, SmallRing: hasGetN})
	defer func() {
		r.Close()
		synctest.Wait()
	}()
	tr.Quorum = r.H.VerifWriteQuorum()
	series := make([]prompb.TimeSeries, len(p.Homes))
	for i, h := range p.Homes {
		series[i] = SeriesAt(p.Top.Nodes, i, h)
	}
	tr.Dests = Dests(p.Top, p.Homes, p.Rep)
	// cross-check the canonical placement against the real hashring
	for _, d := range tr.Dests {
		for _, s := range d.Series {
			if r.ReplicaNode(&series[s], d.Replica) != d.Node {
				tr.HarnessErr = fmt.Sprintf("placement model disagrees with hashring for series %d replica %d", s, d.Replica)
				return tr
			}
		}
	}
	if len(p.Outcomes) != len(tr.Dests) {
		tr.HarnessErr = "outcome vector does not match destination list"
		return tr
	}
	if p.LastLabel && !p.Split {
		tr.HarnessErr = "last_label needs the split-tenant label to be configured"
		return tr
	}
	// ---- history: the requests this handler handled before the observed one, one at a time, each run to its end
	// (all replies delivered in canonical order, handler returned, clean-up goroutine finished) ----
	var preIdx [][]int
	for j, kind := range p.Pre {
		rq, dests, idx, herr := r.preRequest(p, j, kind)
		if herr != "" {
			tr.HarnessErr = herr
			return tr
		}
		pt := PreTrace{Kind: kind}
		out := OK
		if kind == PreConflict {
			out = Conflict
		}
		r.begin(dests)
		poll := r.Start(rq)
		synctest.Wait()
		for _, d := range dests {
			if r.Release(d.Node, d.Replica, out) {
				pt.Contacted++
				synctest.Wait()
			}
		}
		tr.Unexpected += r.flush()
		resp, ok := poll()
		if !ok {
			time.Sleep(2 * time.Hour) // forward timeout
			synctest.Wait()
			tr.Unexpected += r.flush()
			if resp, ok = poll(); !ok {
				tr.HarnessErr = fmt.Sprintf("predecessor %d (%s) never returned", j, PreNames[kind])
				return tr
			}
		}
		synctest.Wait()
		pt.Resp = resp
		tr.Pre = append(tr.Pre, pt)
		preIdx = append(preIdx, idx)
	}
	// ---- the observed request ----
	for i, d := range tr.Dests {
		if p.Outcomes[i] == Backoff {
			r.H.VerifMarkPeerUnavailable(r.Eps[d.Node])
		}
	}
	rq := Request{GRPC: p.GRPC, Rep: p.Rep, Series: series}
	if p.LastLabel {
		rq.Tenant = HeaderOther
		rq.Series = make([]prompb.TimeSeries, len(series))
		for i := range series {
			rq.Series[i] = withSplitLabel(series[i], Tenant)
		}
	}
	r.begin(tr.Dests)
	poll := r.Start(rq)
	synctest.Wait()
	tr.ReturnedAfter = -1
	check := func(step int) {
		if tr.ReturnedAfter >= 0 {
			return
		}
		if resp, ok := poll(); ok {
			tr.Resp = resp
			tr.ReturnedAfter = step
			tr.StoredAtRet = r.storedNodes(series, p.Top.RF)
		}
	}
	check(0)
	for step, di := range p.Order {
		d := tr.Dests[di]
		if !r.Release(d.Node, d.Replica, p.Outcomes[di]) {
			tr.NotContacted = append(tr.NotContacted, di)
			continue
		}
		synctest.Wait()
		check(step + 1)
	}
	if r.Arrived() != 0 {
		tr.HarnessErr = "calls still blocked after the whole order was released (order does not cover all destinations)"
		// release them so that the bubble can end
		r.flush()
	}
	if tr.ReturnedAfter < 0 {
		// every reply delivered but the handler is still blocked: let virtual time run to the forward timeout
		time.Sleep(2 * time.Hour)
		synctest.Wait()
		if resp, ok := poll(); ok {
			tr.Resp = resp
		}
		tr.Resp.Returned = false
		tr.StoredAtRet = r.storedNodes(series, p.Top.RF)
	}
	tr.StoredFinal = r.storedNodes(series, p.Top.RF)
	for j := range tr.Pre {
		for _, idx := range preIdx[j] {
			tr.Pre[j].Stored = append(tr.Pre[j].Stored, r.storedAnywhere(idx))
		}
	}
	r.mu.Lock()
	tr.Unexpected += r.unexpected
	tr.Repeated = r.repeated
	r.mu.Unlock()
	return tr
}
