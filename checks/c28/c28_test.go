// C28: a block is visible in object storage only when all its files are.
//
// Engine E2 (crash-point enumeration). The real procedures block.Upload, Shipper.Sync, the replication
// scheme (newReplicationScheme(..).execute through a thin in-package adapter), block.MarkForDeletion,
// block.MarkForNoCompact and block.Delete run on tiny real TSDB blocks with 1..3 chunk segment files
// against a vcrash.Bucket. After every applied mutating bucket operation (= the state a crash right there
// leaves behind) the two invariants of the statement are evaluated on the bucket contents. In addition
// the process is killed at every mutating operation k, restarted on the death snapshot (either resuming the
// interrupted procedure or cleaning the partial block up with block.Delete), optionally killed a second
// time at every operation k2 of the follow-up, and resumed to the end; the invariants are evaluated at
// every state of those runs as well.
//
// Second family (transient failures, fault_test.go): instead of a crash, ONE bucket operation - the k-th of
// the chain, counted over target and origin bucket, of any kind - fails with an error (not applied |
// applied but reported failed | listing/stream broken at the end) and the process CONTINUES: the procedure
// handles the error as it sees fit and returns, then the failed step is retried (or the block is cleaned up)
// and the chain runs to its end. Same invariants on every state.
package c28

import (
	"bytes"
	"context"
	"errors"
	"fmt"
	"io"
	"iter"
	"os"
	"path/filepath"
	"sort"
	"strings"
	"sync"
	"testing"
	"time"

	"github.com/go-kit/log"
	"github.com/oklog/ulid/v2"
	"github.com/prometheus/client_golang/prometheus"
	"github.com/prometheus/prometheus/model/labels"
	"github.com/thanos-io/objstore"

	"github.com/thanos-io/thanos/pkg/block"
	"github.com/thanos-io/thanos/pkg/block/metadata"
	"github.com/thanos-io/thanos/pkg/compact"
	"github.com/thanos-io/thanos/pkg/replicate"
	"github.com/thanos-io/thanos/pkg/shipper"

	"verif/vcrash"
	"verif/vlib"
)

type Case struct {
	Scn    int `json:"scn"`     // index into scenarios
	Segs   int `json:"segs"`    // chunk segment files of the block: 1..3
	Conc   int `json:"conc"`    // upload concurrency (block.Upload / shipper)
	DieAt  int `json:"die_at"`  // first crash at this mutating op (1-based), 0 = no crash
	Follow int `json:"follow"`  // after the first crash: 0 = resume the interrupted step and the rest, 1 = clean up every block with block.Delete, 2 = clean up, then run the whole chain again
	DieAt2 int `json:"die_at2"` // second crash at this mutating op of the follow-up, 0 = none; then resume
	// transient-failure family (DieAt == 0): the FailAt-th bucket operation of the chain (1-based, any kind, target and
	// origin bucket counted together) fails in mode FailMode (see fault_test.go) and the process continues; the step
	// that returned the error is then handled according to Follow (0 = run it again and go on, 1/2 as above).
	FailAt   int `json:"fail_at,omitempty"`
	FailMode int `json:"fail_mode,omitempty"`
	// block-origin dimension (derived_test.go), "upload" chains only: where the uploaded block directory comes from
	// (0 fresh | 1 downloaded, unchanged | 2 downloaded and rewritten | 3 downloaded and downsampled), the hash function
	// the SOURCE block was uploaded with (recorded in the downloaded meta.json), the hash function of this upload
	// (0 none | 1 SHA256), and whether block.UploadPromBlock is used instead of block.Upload.
	Origin  int  `json:"origin,omitempty"`
	SrcHash int  `json:"src_hash,omitempty"`
	Hash    int  `json:"hash,omitempty"`
	Prom    bool `json:"prom,omitempty"`
}

type scenario struct {
	name  string
	pre   string // "" | "stale": target already holds the complete block with a different meta.json
	steps []string
	conc  bool // upload concurrency is a dimension
}

var scenarios = []scenario{
	{"upload-mark-delete", "", []string{"upload", "mark", "delete"}, true},
	{"upload-nocompact-mark-delete", "", []string{"upload", "nocompact", "mark", "delete"}, false},
	{"upload-delete-unmarked", "", []string{"upload", "delete"}, false},
	{"ship-mark-delete", "", []string{"ship", "mark", "delete"}, true},
	{"ship-two-blocks-mark-delete", "", []string{"ship2", "mark", "delete"}, false},
	{"replicate-mark-delete", "", []string{"replicate", "mark", "delete"}, false},
	{"replicate-over-stale-meta-mark-delete", "stale", []string{"replicate", "mark", "delete"}, false},
	// only in the transient-failure family (without a failure it equals ship-two-blocks): the shipper option that
	// makes Sync carry on with the next block after a failed upload.
	{"ship-two-blocks-out-of-order-allowed-mark-delete", "", []string{"ship2ooo", "mark", "delete"}, false},
}

const firstFaultOnlyScn = 7 // scenarios from this index on are enumerated in the transient-failure family only

type templates struct {
	base  string
	dir   [4]string    // dir[segs] holds exactly one block
	id    [4]ulid.ULID // its id
	dirB  string       // a second, later single-segment block (for ship2)
	idB   ulid.ULID
	der   [nOrigins][4][2]*derivedBlock // der[origin][segs of the source][hash func of the source upload], origin >= 1
	side  []string                      // side observations made while deriving blocks
	tmpMu sync.Mutex
	tmpN  int
}

var extLset = labels.FromStrings("replica", "a")

func buildTemplates(t *testing.T) *templates {
	tp := &templates{base: t.TempDir()}
	var wg sync.WaitGroup
	var errs [5]error
	var derrs [nOrigins][4][2]error
	var sideMu sync.Mutex
	// non-fresh blocks (started as soon as their source template exists): every origin x hash function of the source upload
	derive := func(segs int) {
		src := filepath.Join(tp.dir[segs], tp.id[segs].String())
		for origin := originDownloaded; origin < nOrigins; origin++ {
			for sh := 0; sh < 2; sh++ {
				wg.Add(1)
				go func() {
					defer wg.Done()
					work := filepath.Join(tp.base, fmt.Sprintf("der-o%d-s%d-h%d", origin, segs, sh))
					tp.der[origin][segs][sh], derrs[origin][segs][sh] = buildDerived(work, src, tp.id[segs], origin, hashFuncs[sh], false)
				}()
			}
		}
		if segs != 3 {
			return
		}
		// side observation (not judged): the same derivations from a source that carries thanos.segment_files
		for origin := originRewritten; origin < nOrigins; origin++ {
			wg.Add(1)
			go func() {
				defer wg.Done()
				work := filepath.Join(tp.base, fmt.Sprintf("side-o%d", origin))
				d, err := buildDerived(work, src, tp.id[segs], origin, metadata.NoneFunc, true)
				if err != nil {
					derrs[origin][0][0] = err
					return
				}
				stale, err := staleSegmentFiles(d.dir)
				if err != nil {
					derrs[origin][0][0] = err
					return
				}
				if len(stale) > 0 {
					sideMu.Lock()
					tp.side = append(tp.side, fmt.Sprintf("a %s block derived from a 3-segment source that carries thanos.segment_files keeps the source's list in its local meta.json: %v are not in the block directory", originNames[origin], stale))
					sideMu.Unlock()
				}
			}()
		}
	}
	for segs := 1; segs <= 3; segs++ {
		wg.Add(1)
		go func() {
			defer wg.Done()
			d := filepath.Join(tp.base, fmt.Sprintf("tpl%d", segs))
			tp.id[segs], errs[segs] = buildBlock(d, filepath.Join(tp.base, fmt.Sprintf("scratch%d", segs)), segs, 0, 1000, extLset)
			tp.dir[segs] = d
			if errs[segs] == nil {
				derive(segs)
			}
		}()
	}
	wg.Add(1)
	go func() {
		defer wg.Done()
		tp.dirB = filepath.Join(tp.base, "tplB")
		tp.idB, errs[4] = buildBlock(tp.dirB, "", 1, 1000, 2000, extLset)
	}()
	wg.Wait()
	for i, err := range errs {
		if err != nil {
			t.Fatalf("HARNESS-ERROR building template block %d: %v", i, err)
		}
	}
	for origin := range derrs {
		for segs := range derrs[origin] {
			for sh, err := range derrs[origin][segs] {
				if err != nil {
					t.Fatalf("HARNESS-ERROR deriving the %s block (source: %d segment files, hash func %d): %v", originNames[origin], segs, sh, err)
				}
			}
		}
	}
	sort.Strings(tp.side)
	return tp
}

func (tp *templates) tmp() string {
	tp.tmpMu.Lock()
	tp.tmpN++
	n := tp.tmpN
	tp.tmpMu.Unlock()
	return filepath.Join(tp.base, fmt.Sprintf("w%d", n))
}

// world is one execution of a case.
type world struct {
	r      *vlib.R
	c      Case
	report bool
	tp     *templates
	scn    scenario
	id     ulid.ULID
	bdir   string // directory of the block that the "upload" step publishes

	tgt    *vcrash.Bucket
	origin *objstore.InMemBucket
	local  string
	plan   *faultPlan                  // transient-failure injection shared by both buckets
	bkt    objstore.Bucket             // tgt behind the fault injector: what the procedures get
	from   objstore.InstrumentedBucket // origin behind the fault injector

	mu         sync.Mutex
	step       string
	delStarted map[string]bool
	nI1, nI2   int64
	nHash      int64 // listed files whose recorded hash was compared
	harness    []string
	mutsFirst  int      // mutating ops attempted on the first bucket
	mutsSecond int      // ... on the bucket after the first restart / after the step that failed transiently
	opsTotal   int      // bucket operations of any kind issued by the procedures (both buckets)
	opKinds    []string // their kinds, in issue order
	opsStep1   int      // how many of them the first step of the chain (the publishing procedure) issued
	nFaultRuns int64    // runs in which the injected failure made a step return an error
	nFaultSwal int64    // ... in which the step that saw the failure returned nil
}

var errPanicked = errors.New("c28: code under test panicked")

var logger = log.NewNopLogger()

func (w *world) newTarget(objs map[string][]byte, dieAt int) {
	if objs == nil {
		w.tgt = vcrash.New()
	} else {
		w.tgt = vcrash.FromObjects(objs)
	}
	w.tgt.DieAtMut = dieAt
	w.bkt = &faultBucket{p: w.plan, side: "target", b: w.tgt}
	b := w.tgt
	b.AfterMut = func(op vcrash.Op) {
		if w.report {
			w.r.AddTransitions(1)
		}
		w.check(b.Objects())
	}
}

func (w *world) violation(sig, desc string) {
	if w.report {
		w.r.Violation(sig, desc, w.c)
	}
}

// check evaluates the statement on one bucket state.
func (w *world) check(objs map[string][]byte) {
	w.mu.Lock()
	defer w.mu.Unlock()
	if w.report {
		w.r.AddStates(1)
	}
	byBlock := map[string]map[string][]byte{}
	for name, content := range objs {
		i := strings.IndexByte(name, '/')
		if i < 0 {
			continue
		}
		if _, err := ulid.Parse(name[:i]); err != nil {
			continue
		}
		if byBlock[name[:i]] == nil {
			byBlock[name[:i]] = map[string][]byte{}
		}
		byBlock[name[:i]][name[i+1:]] = content
	}
	for id := range w.delStarted {
		if len(byBlock[id]) == 0 {
			delete(w.delStarted, id) // nothing left: this deletion is finished
		}
	}
	for id, files := range byBlock {
		// (1) meta.json present => every index/chunk file it lists is present with the recorded size.
		if mb, ok := files[block.MetaFilename]; ok {
			m, err := metadata.Read(io.NopCloser(bytes.NewReader(mb)))
			if err != nil {
				w.violation("meta-json-in-bucket-unreadable-during-"+w.step, fmt.Sprintf("block %s: %v", id, err))
				continue
			}
			listed := 0
			for _, f := range m.Thanos.Files {
				if f.RelPath == block.MetaFilename {
					continue
				}
				listed++
				got, ok := files[f.RelPath]
				if !ok {
					w.violation("meta-present-listed-file-missing-during-"+w.step,
						fmt.Sprintf("block %s has meta.json but %s (listed, %d bytes) is absent; objects: %v", id, f.RelPath, f.SizeBytes, names(files)))
				} else if int64(len(got)) != f.SizeBytes {
					w.violation("meta-present-listed-file-size-differs-during-"+w.step,
						fmt.Sprintf("block %s: %s has %d bytes, meta.json records %d", id, f.RelPath, len(got), f.SizeBytes))
				} else if f.Hash != nil && f.Hash.Func == metadata.SHA256Func {
					// where meta.json also records a content hash of the file, the object with the recorded size is that file
					w.nHash++
					if h := sha256Hex(got); h != f.Hash.Value {
						w.violation("meta-present-listed-file-hash-differs-during-"+w.step,
							fmt.Sprintf("block %s: %s (%d bytes) has SHA256 %s, meta.json records %s", id, f.RelPath, len(got), h, f.Hash.Value))
					}
				}
			}
			for _, s := range m.Thanos.SegmentFiles {
				if _, ok := files[block.ChunksDirname+"/"+s]; !ok {
					w.violation("meta-present-listed-file-missing-during-"+w.step,
						fmt.Sprintf("block %s has meta.json but segment file %s is absent; objects: %v", id, s, names(files)))
				}
			}
			if listed < 2 {
				w.harness = append(w.harness, fmt.Sprintf("meta.json of %s lists %d files: invariant would be vacuous", id, listed))
			}
			w.nI1++
		}
		// (2) deletion started on a marked block => the mark stays while any other object of the block exists.
		if w.delStarted[id] {
			_, marked := files[metadata.DeletionMarkFilename]
			others := len(files)
			if marked {
				others--
			}
			if others > 0 {
				w.nI2++
				if !marked {
					w.violation("deletion-mark-gone-before-other-files-during-"+w.step,
						fmt.Sprintf("block %s: deletion was started on a marked block, the mark is gone but these objects remain: %v", id, names(files)))
				}
			}
		}
		// non-triviality: distinct strictly intermediate states of a block.
		if w.report {
			_, hasMeta := files[block.MetaFilename]
			if !hasMeta || w.step == "delete" || w.step == "cleanup" {
				w.r.Nontrivial(fmt.Sprintf("%d/%d/%s/%v", w.c.Scn, w.c.Segs, w.step, names(files)))
			}
		}
	}
}

func names(files map[string][]byte) []string {
	out := make([]string, 0, len(files))
	for n := range files {
		out = append(out, n)
	}
	sort.Strings(out)
	return out
}

func (w *world) setStep(s string) { w.mu.Lock(); w.step = s; w.mu.Unlock() }

// noteDeleteStart records that deletion of id starts now; the second invariant binds when the block is marked.
func (w *world) noteDeleteStart(id string) {
	objs := w.tgt.Objects()
	w.mu.Lock()
	if _, ok := objs[id+"/"+metadata.DeletionMarkFilename]; ok {
		w.delStarted[id] = true
	}
	w.mu.Unlock()
}

func (w *world) exec(step string) (err error) {
	ctx := context.Background()
	w.setStep(step)
	defer func() {
		if p := recover(); p != nil {
			w.violation("panic-during-"+step, fmt.Sprintf("the procedure panicked: %v (injected failure: %q)", p, w.plan.fired1()))
			err = errPanicked
		}
	}()
	switch step {
	case "upload":
		if w.c.Prom {
			return block.UploadPromBlock(ctx, logger, w.bkt, w.bdir, hashFuncs[w.c.Hash], objstore.WithUploadConcurrency(w.c.Conc))
		}
		return block.Upload(ctx, logger, w.bkt, w.bdir, hashFuncs[w.c.Hash], objstore.WithUploadConcurrency(w.c.Conc))
	case "ship", "ship2", "ship2ooo":
		if w.local == "" {
			w.local = w.tp.tmp()
			if err := copyDir(w.tp.dir[w.c.Segs], w.local); err != nil {
				return err
			}
			if step != "ship" {
				if err := copyDir(w.tp.dirB, w.local); err != nil {
					return err
				}
			}
		}
		root, err := os.OpenRoot(w.local)
		if err != nil {
			return err
		}
		s := shipper.New(w.bkt, root,
			shipper.WithLogger(logger),
			shipper.WithLabels(func() labels.Labels { return extLset }),
			shipper.WithSource(metadata.SidecarSource),
			shipper.WithUploadConcurrency(w.c.Conc),
			shipper.WithAllowOutOfOrderUploads(step == "ship2ooo"))
		defer s.Close()
		_, err = s.Sync(ctx)
		return err
	case "replicate":
		return replicate.VerifReplicateOnce(ctx, logger, w.from, w.bkt,
			labels.Selector{}, []compact.ResolutionLevel{compact.ResolutionLevelRaw}, []int{1}, nil)
	case "nocompact":
		return block.MarkForNoCompact(ctx, logger, w.bkt, w.id, metadata.ManualNoCompactReason, "verif", prometheus.NewCounter(prometheus.CounterOpts{}))
	case "mark":
		return block.MarkForDeletion(ctx, logger, w.bkt, w.id, "verif", prometheus.NewCounter(prometheus.CounterOpts{}))
	case "delete":
		w.noteDeleteStart(w.id.String())
		return block.Delete(ctx, logger, w.bkt, w.id)
	case "cleanup":
		// what BestEffortCleanAbortedPartialUploads / the blocks cleaner do with a block: block.Delete.
		ids := map[string]bool{}
		for n := range w.tgt.Objects() {
			if i := strings.IndexByte(n, '/'); i > 0 {
				if _, err := ulid.Parse(n[:i]); err == nil {
					ids[n[:i]] = true
				}
			}
		}
		var sorted []string
		for id := range ids {
			sorted = append(sorted, id)
		}
		sort.Strings(sorted)
		for _, id := range sorted {
			w.noteDeleteStart(id)
			if err := block.Delete(ctx, logger, w.bkt, ulid.MustParse(id)); err != nil {
				return err
			}
		}
		return nil
	}
	return fmt.Errorf("unknown step %s", step)
}

// noteSuccessDespiteFailure: a step saw the injected failure and still returned nil. That is legitimate where the
// code deliberately ignores an error (directory-marker deletes). The statement does not say what a procedure must
// return, so this is NOT a violation; for the publishing steps it is recorded when the block is then not visible.
func (w *world) noteSuccessDespiteFailure(step string) {
	if !w.report {
		return
	}
	switch step {
	case "upload", "ship", "ship2", "ship2ooo", "replicate":
	default:
		return
	}
	if _, ok := w.tgt.Objects()[w.id.String()+"/"+block.MetaFilename]; !ok {
		w.r.Add("publishing_step_returned_nil_after_failure_but_block_not_visible", 1)
		w.r.Note("case %+v: %s returned nil although %s failed, and the block has no meta.json in the target (not part of the statement)", w.c, step, w.plan.fired1())
	}
}

// run executes the case. With report=false nothing is recorded (used by the generator to count operations).
func run(r *vlib.R, tp *templates, c Case, report bool) *world {
	w := &world{r: r, c: c, report: report, tp: tp, scn: scenarios[c.Scn], id: tp.id[c.Segs], delStarted: map[string]bool{},
		plan: &faultPlan{failAt: c.FailAt, mode: c.FailMode}}
	w.bdir = filepath.Join(tp.dir[c.Segs], w.id.String())
	if c.Origin != originFresh {
		d := tp.der[c.Origin][c.Segs][c.SrcHash]
		w.id, w.bdir = d.id, d.dir
	}
	defer func() {
		if w.local != "" {
			os.RemoveAll(w.local)
		}
		w.opsTotal = w.plan.opCount()
		w.opKinds = w.plan.kinds
	}()
	ctx := context.Background()
	hasReplicate := false
	for _, s := range w.scn.steps {
		if s == "replicate" {
			hasReplicate = true
		}
	}
	var pre map[string][]byte
	if hasReplicate {
		w.origin = objstore.NewInMemBucket()
		if err := block.Upload(ctx, logger, w.origin, filepath.Join(tp.dir[c.Segs], w.id.String()), metadata.NoneFunc); err != nil {
			w.harness = append(w.harness, "origin upload: "+err.Error())
			return w
		}
		w.from = &faultBucket{p: w.plan, side: "origin", b: w.origin}
		if w.scn.pre == "stale" {
			pre = w.origin.Objects()
			mn := w.id.String() + "/" + block.MetaFilename
			m, err := metadata.Read(io.NopCloser(bytes.NewReader(pre[mn])))
			if err != nil {
				w.harness = append(w.harness, "stale meta: "+err.Error())
				return w
			}
			m.Thanos.UploadTime = m.Thanos.UploadTime.Add(-time.Hour)
			var buf bytes.Buffer
			if err := m.Write(&buf); err != nil {
				w.harness = append(w.harness, "stale meta: "+err.Error())
				return w
			}
			if bytes.Equal(buf.Bytes(), pre[mn]) {
				w.harness = append(w.harness, "stale meta equals origin meta")
			}
			pre[mn] = buf.Bytes()
		}
	}
	steps := w.scn.steps
	events := 0     // crashes and transiently failed steps so far
	secondBase := 0 // value of the target's mutation counter when the follow-up of the first event started
	noteEvent := func() {
		if events == 0 {
			w.mutsFirst = w.tgt.MutCount()
		} else if events == 1 {
			w.mutsSecond = w.tgt.MutCount() - secondBase
		}
		events++
	}
	cleanedAll := false // the follow-up was "clean every block up" (else the second block of ship2 legitimately stays)
	follow := func(i int) int {
		if events == 1 && c.Follow == 1 {
			steps, i = []string{"cleanup"}, 0
			cleanedAll = true
		}
		if events == 1 && c.Follow == 2 {
			steps, i = append([]string{"cleanup"}, w.scn.steps...), 0
		}
		return i
	}
	w.newTarget(pre, c.DieAt)
	w.setStep("initial")
	w.check(w.tgt.Objects())
	for i := 0; i < len(steps); {
		firedBefore := w.plan.firedCount()
		err := w.exec(steps[i])
		if errors.Is(err, errPanicked) {
			return w
		}
		if w.tgt.Dead() {
			snap := w.tgt.DeathSnapshot()
			noteEvent()
			next := 0
			if events == 1 {
				next = c.DieAt2
			}
			secondBase = 0
			w.newTarget(snap, next)
			w.setStep("restart")
			w.check(w.tgt.Objects())
			i = follow(i)
			continue // resume: re-run the interrupted step
		}
		firedHere := w.plan.firedCount() > firedBefore
		if err != nil && firedHere {
			// the injected transient failure made this run of the step fail; the process is alive, the bucket is whatever
			// the procedure left behind. Next: run the step again (the next iteration of every Thanos loop) or clean up.
			w.nFaultRuns++
			noteEvent()
			if events == 1 {
				secondBase = w.tgt.MutCount()
				if c.DieAt2 > 0 {
					w.tgt.DieAtMut = secondBase + c.DieAt2
				}
			}
			w.setStep("after-failed-" + steps[i])
			w.check(w.tgt.Objects())
			i = follow(i)
			continue
		}
		if err != nil {
			w.harness = append(w.harness, fmt.Sprintf("step %s failed without an injected crash or failure: %v", steps[i], err))
			return w
		}
		if firedHere {
			w.nFaultSwal++
			w.noteSuccessDespiteFailure(steps[i])
		}
		if i == 0 && events == 0 {
			w.opsStep1 = w.plan.opCount()
		}
		i++
	}
	if events == 0 {
		w.mutsFirst = w.tgt.MutCount()
	} else if events == 1 {
		w.mutsSecond = w.tgt.MutCount() - secondBase
	}
	if report {
		if n := len(w.tgt.Objects()); n != 0 && !(strings.HasPrefix(w.scn.steps[0], "ship2") && !cleanedAll) {
			r.Note("case %+v: %d objects remain after the final delete: %v", c, n, names(w.tgt.Objects()))
			r.Add("final_state_not_empty", 1)
		}
	}
	return w
}

func gen(r *vlib.R, tp *templates) iter.Seq[Case] {
	return func(yield func(Case) bool) {
		type combo struct {
			base  Case
			muts  int
			kinds []string
			step1 int
		}
		var combos, dcombos []combo
		for scn := range scenarios {
			for segs := 1; segs <= 3; segs++ {
				concs := []int{1}
				if scenarios[scn].conc {
					concs = []int{1, 3}
				}
				if r.Thorough() && scenarios[scn].pre == "" && scenarios[scn].steps[0] != "replicate" {
					concs = []int{1, 2, 3}
				}
				for _, conc := range concs {
					base := Case{Scn: scn, Segs: segs, Conc: conc}
					if !yield(base) {
						return
					}
					w := run(r, tp, base, false) // dry run: counts the operations of the undisturbed chain
					combos = append(combos, combo{base, w.mutsFirst, w.opKinds, w.opsStep1})
				}
			}
		}
		// block-origin dimension: the "upload, mark, delete" chain with a block directory that is not a fresh one, with
		// both hash functions on either side and both upload entry points. Every such chain is run undisturbed (invariants
		// after every mutating op = every crash point of the upload); the crash/restart and transient-failure families
		// run on all of them in the thorough tier, on a covering subset in the quick tier.
		for origin := originFresh; origin < nOrigins; origin++ {
			for segs := 1; segs <= 3; segs++ {
				for srcHash := 0; srcHash < 2; srcHash++ {
					for hash := 0; hash < 2; hash++ {
						for _, prom := range []bool{false, true} {
							if origin == originFresh && (srcHash != 0 || (hash == 0 && !prom)) {
								continue // a fresh block has no source upload; (none, block.Upload) is the chain above
							}
							concs := []int{1}
							if r.Thorough() {
								concs = []int{1, 3}
							}
							for _, conc := range concs {
								base := Case{Scn: 0, Segs: segs, Conc: conc, Origin: origin, SrcHash: srcHash, Hash: hash, Prom: prom}
								if !yield(base) {
									return
								}
								// quick: families for four derived blocks whose downloaded meta.json records sizes AND hashes, chosen so that
								// every pair of (rewritten | downsampled) x (1 | 3 source segment files) x (upload hash none | SHA256) occurs
								// thorough: families for every non-fresh origin x 1..3 segment files x upload hash function, with the
								// downloaded meta.json that records sizes and hashes, block.Upload, concurrency 1
								fam := origin >= originDownloaded && srcHash == 1 && !prom && conc == 1
								if !r.Thorough() {
									fam = fam && origin >= originRewritten && segs != 2 && (hash == 1) == ((origin == originRewritten) == (segs == 1))
								}
								if !fam {
									continue
								}
								w := run(r, tp, base, false)
								dcombos = append(dcombos, combo{base, w.mutsFirst, w.opKinds, w.opsStep1})
							}
						}
					}
				}
			}
		}
		follows := vlib.Pick(r, 1, 2)
		// the families of the non-fresh blocks come last: a deadline on an overloaded machine cuts them first
		for _, combos := range [][]combo{combos, dcombos} {
			// transient failure of the k-th bucket operation (any kind, either bucket), process continues
			for _, cb := range combos {
				first := scenarios[cb.base.Scn].steps[0]
				if !r.Thorough() {
					// quick-tier economy (the shipper cases are fsync bound): the shipper hands the block to the same block.upload
					// as the "upload" chains, which keep the concurrency dimension; the two-block chains (what is new there is
					// the second block, and the out-of-order option) with one segment file, ship-one-block keeps 1..3.
					if (first == "ship" && cb.base.Conc > 1) || (strings.HasPrefix(first, "ship2") && cb.base.Segs > 1) {
						continue
					}
				}
				for k, kind := range cb.kinds {
					modes := 1
					if mode1Applies(kind) {
						modes = 2
					}
					for mode := 0; mode < modes; mode++ {
						for follow := 0; follow <= follows; follow++ {
							if follow > 0 && !r.Thorough() && k >= cb.step1 {
								// quick: "clean the block up instead of retrying" only after a failed publishing step (a failed
								// mark/delete step followed by block.Delete is nearly the retry)
								continue
							}
							c := cb.base
							c.FailAt, c.FailMode, c.Follow = k+1, mode, follow
							if !yield(c) { // thorough: its evaluation also crashes the follow-up at every op k2 (see TestCheck)
								return
							}
						}
					}
				}
			}
			// crash at the k-th mutating operation, restart
			for _, cb := range combos {
				if cb.base.Scn >= firstFaultOnlyScn {
					continue
				}
				for k := 1; k <= cb.muts; k++ {
					for follow := 0; follow <= follows; follow++ {
						c := cb.base
						c.DieAt, c.Follow = k, follow
						if !yield(c) { // its evaluation also runs every second-level crash k2 (see TestCheck)
							return
						}
					}
				}
			}
		}
	}
}

func TestCheck(t *testing.T) {
	r := vlib.New(t, "C28")
	defer r.Finish()
	const ruleChains = ("7 procedure chains (block.Upload | Shipper.Sync with 1 or 2 local blocks | replication into an empty target or over a stale meta.json; " +
		"then [no-compact mark,] deletion mark, block.Delete; also block.Delete of an unmarked block) x blocks with 1..3 chunk segment files x upload concurrency {1,3}; " +
		"both invariants evaluated after every applied mutating bucket op; plus: crash at every mutating op k, restart on the death snapshot " +
		"(resume | clean up with block.Delete), second crash at every op k2 of the follow-up, resume to the end; " +
		"plus (same chains and the shipper with out-of-order uploads allowed): transient failure of the k-th bucket operation of ANY kind on the target or the origin bucket " +
		"(upload/delete/get/exists/attributes/iter; not applied | applied but reported failed / listing or stream broken at its end), the process continues, " +
		"the failed step is run again or the block is cleaned up, chain runs to its end (thorough: plus a crash at every op k2 of that follow-up). " +
		"non-trivial = distinct strictly intermediate bucket states of a block (objects present, but meta.json absent or deletion running)")
	r.Assume("object PUT and DELETE are atomic (vcrash model); listing order is that of the in-memory bucket (files before directories); " +
		"with upload concurrency 3 the interleaving of chunk uploads is whatever the Go scheduler produced (the oracle is order independent)")
	r.Rule(ruleChains + " PLUS block-origin dimension of the upload chain: the uploaded block directory is fresh (no thanos.files in its meta.json) | fetched with block.Download and uploaded again | " +
		"fetched and rewritten as `tools bucket rewrite` does (compactv2 deletion, one segment file, downloaded meta.json re-used under a new ULID) | fetched and downsampled by downsample.Downsample; " +
		"x source block with 1..3 segment files x hash function of the source upload {none,SHA256} x hash function of this upload {none,SHA256} x block.Upload | block.UploadPromBlock; " +
		"non-trivial there = the local meta.json of the derived block lists files with sizes/hashes that disagree with the directory (stale sizes, dropped segment files); " +
		"a listed file is also compared with its SHA256 where meta.json records one")
	tp := buildTemplates(t)
	var staleDirs, staleSizes, staleMissing, staleHashes int64
	for origin := originDownloaded; origin < nOrigins; origin++ {
		for segs := 1; segs <= 3; segs++ {
			for sh := 0; sh < 2; sh++ {
				d := tp.der[origin][segs][sh]
				stale := d.staleSize + d.staleMissing + d.staleHash
				switch {
				case d.listed < 2:
					t.Errorf("HARNESS-ERROR the %s block (%d source segments, source hash %d) has %d listed files in its local meta.json", originNames[origin], segs, sh, d.listed)
				case origin == originDownloaded && stale != 0:
					t.Errorf("HARNESS-ERROR the block fetched by block.Download disagrees with its own meta.json: %+v", *d)
				case origin >= originRewritten && (d.staleSize == 0 || (segs > 1 && d.staleMissing == 0) || (sh == 1 && d.staleHash == 0)):
					t.Errorf("HARNESS-ERROR the %s block (%d source segments, source hash %d) does not differ from what its copied meta.json says: %+v (dimension vacuous)", originNames[origin], segs, sh, *d)
				}
				if stale > 0 {
					staleDirs++
					r.Nontrivial(fmt.Sprintf("origin %d/%d/%d: local meta.json stale in %d sizes, %d missing files, %d hashes", origin, segs, sh, d.staleSize, d.staleMissing, d.staleHash))
				}
				staleSizes += int64(d.staleSize)
				staleMissing += int64(d.staleMissing)
				staleHashes += int64(d.staleHash)
			}
		}
	}
	r.Set("derived_block_dirs_whose_local_meta_lists_stale_file_stats", staleDirs)
	r.Set("stale_sizes_in_local_meta_of_derived_blocks", staleSizes)
	r.Set("files_listed_in_local_meta_of_derived_blocks_but_not_on_disk", staleMissing)
	r.Set("stale_hashes_in_local_meta_of_derived_blocks", staleHashes)
	for _, s := range tp.side {
		r.Note("side observation (input of the upload, not judged): %s", s)
	}
	r.Set("side_derived_block_keeps_stale_segment_files_list", int64(len(tp.side)))
	var harness sync.Map
	var nI1, nI2, nHash, nFaultRuns, nFaultSwal int64
	var mu sync.Mutex
	forEach(r, gen(r, tp), func(c Case) {
		if c.Scn < 0 || c.Scn >= len(scenarios) || c.Segs < 1 || c.Segs > 3 || c.FailAt < 0 ||
			c.Origin < 0 || c.Origin >= nOrigins || c.SrcHash < 0 || c.SrcHash > 1 || c.Hash < 0 || c.Hash > 1 ||
			(c.Origin != originFresh && scenarios[c.Scn].steps[0] != "upload") {
			t.Errorf("HARNESS-ERROR bad case %+v", c)
			return
		}
		if c.Conc < 1 {
			c.Conc = 1
		}
		ws := []*world{run(r, tp, c, true)}
		r.Sample(c)
		if c.FailMode < 0 || c.FailMode > 1 {
			c.FailMode = 0
		}
		if (c.DieAt > 0 || (c.FailAt > 0 && r.Thorough())) && c.DieAt2 == 0 && !r.Replaying() && (c.Origin == originFresh || r.Thorough()) {
			// second level: kill the follow-up at each of its mutating operations (count known from the run above);
			// quick tier: for the fresh-block chains only
			for k2 := 1; k2 <= ws[0].mutsSecond; k2++ {
				if r.Expired("second-level crash enumeration stopped early") {
					break
				}
				c2 := c
				c2.DieAt2 = k2
				ws = append(ws, run(r, tp, c2, true))
				r.Eval(1)
				r.Sample(c2)
			}
		}
		for _, w := range ws {
			for _, h := range w.harness {
				harness.Store(h, w.c)
			}
			mu.Lock()
			nI1 += w.nI1
			nI2 += w.nI2
			nHash += w.nHash
			nFaultRuns += w.nFaultRuns
			nFaultSwal += w.nFaultSwal
			mu.Unlock()
		}
	})
	r.Set("states_with_meta_checked", nI1)
	r.Set("states_in_marked_deletion_checked", nI2)
	r.Set("listed_files_compared_with_their_recorded_hash", nHash)
	r.Set("runs_with_a_step_failed_by_the_injected_transient_failure", nFaultRuns)
	r.Set("runs_where_the_step_ignored_the_injected_failure", nFaultSwal)
	harness.Range(func(k, v any) bool {
		t.Errorf("HARNESS-ERROR %v (case %+v)", k, v)
		return true
	})
	if !r.Replaying() && (nI1 == 0 || nI2 == 0 || nFaultRuns == 0) {
		t.Errorf("HARNESS-ERROR vacuous: states with meta %d, states in marked deletion %d, transiently failed steps %d", nI1, nI2, nFaultRuns)
	}
}
