package c28

import (
	"context"
	"errors"
	"fmt"
	"io"
	"sync"

	"github.com/thanos-io/objstore"
)

// Transient-failure dimension: ONE bucket operation of a chain - the k-th one, counted over the target AND
// the origin bucket in issue order, of any kind (upload, delete, get, getrange, exists, attributes, iter) -
// fails with a plain error while the process lives on: the procedure sees the error, may run more bucket
// operations (clean-up, the next block, the rest of the loop) and returns; later runs start from whatever
// it left behind. This differs from a crash (vcrash.DieAtMut), where nothing at all happens after point k.
//
// failure modes (the alphabet of how a single object-store request can fail):
//
//	0  the request fails and has no effect (all kinds)
//	1  upload/delete: the request is APPLIED but the caller gets an error (lost response, timeout);
//	   iter: every entry is listed, then the listing ends with an error (failed next-page request);
//	   get/getrange: the reader delivers the first half of the object, then fails (broken stream).
var errTransient = errors.New("c28: injected transient bucket failure")

type faultPlan struct {
	mu      sync.Mutex
	n       int // operations seen so far
	failAt  int // 1-based index of the operation that fails, 0 = none
	mode    int
	fired   int    // 0 or 1
	firedOp string // for messages
	kinds   []string
}

// mode1Applies says whether failure mode 1 is a distinct behaviour for this kind of operation.
func mode1Applies(kind string) bool {
	switch kind {
	case "upload", "delete", "iter", "get", "getrange":
		return true
	}
	return false
}

// next registers one operation and says whether it has to fail and, if so, in which mode.
func (p *faultPlan) next(side, kind, name string) (fail bool, mode int) {
	p.mu.Lock()
	defer p.mu.Unlock()
	p.n++
	p.kinds = append(p.kinds, kind)
	if p.failAt > 0 && p.n == p.failAt {
		p.fired++
		m := p.mode
		if !mode1Applies(kind) {
			m = 0
		}
		p.firedOp = fmt.Sprintf("%s %s(%s) mode %d", side, kind, name, m)
		return true, m
	}
	return false, 0
}

func (p *faultPlan) firedCount() int { p.mu.Lock(); defer p.mu.Unlock(); return p.fired }
func (p *faultPlan) opCount() int    { p.mu.Lock(); defer p.mu.Unlock(); return p.n }
func (p *faultPlan) fired1() string  { p.mu.Lock(); defer p.mu.Unlock(); return p.firedOp }

// faultBucket applies a faultPlan to a bucket. It wraps the vcrash target bucket from the outside, so an
// "applied, but reported as failed" mutation still goes through vcrash (logged, invariant hook evaluated).
type faultBucket struct {
	p    *faultPlan
	side string // "target" | "origin"
	b    objstore.Bucket
}

func (f *faultBucket) Provider() objstore.ObjProvider { return f.b.Provider() }
func (f *faultBucket) Name() string                   { return f.b.Name() }
func (f *faultBucket) Close() error                   { return f.b.Close() }

func (f *faultBucket) Upload(ctx context.Context, name string, r io.Reader, opts ...objstore.ObjectUploadOption) error {
	if fail, mode := f.p.next(f.side, "upload", name); fail {
		if mode == 1 {
			_ = f.b.Upload(ctx, name, r, opts...)
		}
		return errTransient
	}
	return f.b.Upload(ctx, name, r, opts...)
}

func (f *faultBucket) Delete(ctx context.Context, name string) error {
	if fail, mode := f.p.next(f.side, "delete", name); fail {
		if mode == 1 {
			_ = f.b.Delete(ctx, name)
		}
		return errTransient
	}
	return f.b.Delete(ctx, name)
}

// iterKind: the bucket-root listing of the origin bucket is issued by block.ConcurrentLister inside the meta fetcher.
// When that listing fails AFTER entries were delivered, the lister returns without stopping its workers and one of
// them panics in its own goroutine with "send on closed channel" (known side finding 1 of C33, proposed repair
// fixes/C33-side-concurrent-lister-panic-on-listing-error.diff). That kills the process (not recoverable from here)
// and is not about block visibility, so failure mode 1 is not enumerated for that one listing.
func (f *faultBucket) iterKind(dir string) string {
	if f.side == "origin" && dir == "" {
		return "iter-origin-root"
	}
	return "iter"
}

func (f *faultBucket) Iter(ctx context.Context, dir string, fn func(string) error, o ...objstore.IterOption) error {
	if fail, mode := f.p.next(f.side, f.iterKind(dir), dir); fail {
		if mode == 1 {
			if err := f.b.Iter(ctx, dir, fn, o...); err != nil {
				return err
			}
		}
		return errTransient
	}
	return f.b.Iter(ctx, dir, fn, o...)
}

func (f *faultBucket) IterWithAttributes(ctx context.Context, dir string, fn func(objstore.IterObjectAttributes) error, o ...objstore.IterOption) error {
	if fail, mode := f.p.next(f.side, f.iterKind(dir), dir); fail {
		if mode == 1 {
			if err := f.b.IterWithAttributes(ctx, dir, fn, o...); err != nil {
				return err
			}
		}
		return errTransient
	}
	return f.b.IterWithAttributes(ctx, dir, fn, o...)
}

func (f *faultBucket) SupportedIterOptions() []objstore.IterOptionType {
	return f.b.SupportedIterOptions()
}

// halfReader delivers the first half of the object and then fails.
type halfReader struct {
	data []byte
	i    int
}

func (h *halfReader) Read(p []byte) (int, error) {
	if h.i >= len(h.data) {
		return 0, errTransient
	}
	n := copy(p, h.data[h.i:])
	h.i += n
	return n, nil
}
func (h *halfReader) Close() error { return nil }

func brokenStream(rc io.ReadCloser, err error) (io.ReadCloser, error) {
	if err != nil {
		return nil, errTransient
	}
	defer rc.Close()
	all, err := io.ReadAll(rc)
	if err != nil {
		return nil, errTransient
	}
	return &halfReader{data: all[:len(all)/2]}, nil
}

func (f *faultBucket) Get(ctx context.Context, name string) (io.ReadCloser, error) {
	if fail, mode := f.p.next(f.side, "get", name); fail {
		if mode == 1 {
			return brokenStream(f.b.Get(ctx, name))
		}
		return nil, errTransient
	}
	return f.b.Get(ctx, name)
}

func (f *faultBucket) GetRange(ctx context.Context, name string, off, length int64) (io.ReadCloser, error) {
	if fail, mode := f.p.next(f.side, "getrange", name); fail {
		if mode == 1 {
			return brokenStream(f.b.GetRange(ctx, name, off, length))
		}
		return nil, errTransient
	}
	return f.b.GetRange(ctx, name, off, length)
}

func (f *faultBucket) Exists(ctx context.Context, name string) (bool, error) {
	if fail, _ := f.p.next(f.side, "exists", name); fail {
		return false, errTransient
	}
	return f.b.Exists(ctx, name)
}

func (f *faultBucket) Attributes(ctx context.Context, name string) (objstore.ObjectAttributes, error) {
	if fail, _ := f.p.next(f.side, "attributes", name); fail {
		return objstore.ObjectAttributes{}, errTransient
	}
	return f.b.Attributes(ctx, name)
}

func (f *faultBucket) IsObjNotFoundErr(err error) bool  { return f.b.IsObjNotFoundErr(err) }
func (f *faultBucket) IsAccessDeniedErr(err error) bool { return f.b.IsAccessDeniedErr(err) }

func (f *faultBucket) WithExpectedErrs(objstore.IsOpFailureExpectedFunc) objstore.Bucket { return f }
func (f *faultBucket) ReaderWithExpectedErrs(objstore.IsOpFailureExpectedFunc) objstore.BucketReader {
	return f
}

var _ objstore.InstrumentedBucket = (*faultBucket)(nil)
