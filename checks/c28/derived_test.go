package c28

import (
	"context"
	"crypto/rand"
	"crypto/sha256"
	"encoding/hex"
	"fmt"
	"io"
	"os"
	"path/filepath"

	"github.com/oklog/ulid/v2"
	"github.com/prometheus/prometheus/model/labels"
	"github.com/prometheus/prometheus/tsdb"
	"github.com/prometheus/prometheus/tsdb/chunkenc"
	"github.com/thanos-io/objstore"

	"github.com/thanos-io/thanos/pkg/block"
	"github.com/thanos-io/thanos/pkg/block/metadata"
	"github.com/thanos-io/thanos/pkg/compact/downsample"
	"github.com/thanos-io/thanos/pkg/compactv2"
)

// Block-origin dimension (round 3). The block directory handed to block.Upload / block.UploadPromBlock is not
// always a fresh one: every Thanos component that derives a block from a block in the bucket first fetches it with
// block.Download - whose meta.json carries the thanos.files section (sizes, hashes) that the uploader of the source
// wrote - and then builds the new block from a COPY of that meta.json (new ULID, WriteToDir). The statement is about
// the meta.json that becomes visible, so what the local meta.json already says about files is part of the input.
//
//	0  fresh block: local meta.json has no thanos.files section (sidecar, receive, ruler, compactor output)
//	1  downloaded with block.Download, uploaded again unchanged (same ULID; thanos.files present and accurate)
//	2  downloaded and rewritten the way `thanos tools bucket rewrite` does (cmd/thanos/tools_bucket.go: compactv2 with
//	   a deletion modifier into block.NewDiskWriter, downloaded meta re-used with a new ULID, meta.WriteToDir):
//	   other index and chunk content, always ONE segment file (a source with 2 or 3 has its later segment files dropped)
//	3  downloaded and downsampled by the real downsample.Downsample (newMeta := *origMeta; as cmd/thanos/downsample.go):
//	   other index and chunk content, one segment file
//
// hash functions: the one the source block was uploaded with (what the downloaded section records) and the one the
// derived block is uploaded with, each none | SHA256.
const (
	originFresh = iota
	originDownloaded
	originRewritten
	originDownsampled
	nOrigins
)

var originNames = [nOrigins]string{"fresh", "downloaded-unchanged", "downloaded-rewritten", "downloaded-downsampled"}

var hashFuncs = [2]metadata.HashFunc{metadata.NoneFunc, metadata.SHA256Func}

// derivedBlock is one non-fresh block directory, ready to be uploaded (block.upload only reads it: shared by all cases).
type derivedBlock struct {
	dir string // block directory (ends with the ULID)
	id  ulid.ULID
	// what the local meta.json claims about files before the upload, compared with the directory:
	listed       int // thanos.files entries other than meta.json
	staleSize    int // ... whose recorded size differs from the file on disk
	staleMissing int // ... that are not on disk at all
	staleHash    int // ... whose recorded hash differs from the file on disk
}

// buildDerived produces the block of the given origin from the fresh template block srcDir (segs segment files),
// going through a real upload (hash function srcHF) into an in-memory bucket and a real block.Download.
func buildDerived(work, srcDir string, srcID ulid.ULID, origin int, srcHF metadata.HashFunc, withSegmentFiles bool) (*derivedBlock, error) {
	ctx := context.Background()
	if err := os.MkdirAll(work, 0o755); err != nil {
		return nil, err
	}
	mem := objstore.NewInMemBucket()
	upDir := srcDir
	if withSegmentFiles {
		// a source block as the shipper / compactor publish it: thanos.segment_files filled in.
		upDir = filepath.Join(work, "src", srcID.String())
		if err := copyDir(srcDir, upDir); err != nil {
			return nil, err
		}
		m, err := metadata.ReadFromDir(upDir)
		if err != nil {
			return nil, err
		}
		m.Thanos.SegmentFiles = block.GetSegmentFiles(upDir)
		if err := m.WriteToDir(logger, upDir); err != nil {
			return nil, err
		}
	}
	if err := block.Upload(ctx, logger, mem, upDir, srcHF); err != nil {
		return nil, fmt.Errorf("upload of the source block: %w", err)
	}
	dl := filepath.Join(work, srcID.String())
	if err := block.Download(ctx, logger, mem, srcID, dl); err != nil {
		return nil, fmt.Errorf("download of the source block: %w", err)
	}
	meta, err := metadata.ReadFromDir(dl)
	if err != nil {
		return nil, err
	}
	if len(meta.Thanos.Files) < 3 {
		return nil, fmt.Errorf("downloaded meta.json lists %d files, expected a thanos.files section", len(meta.Thanos.Files))
	}
	d := &derivedBlock{dir: dl, id: srcID}
	switch origin {
	case originDownloaded:
	case originRewritten:
		chunkPool := chunkenc.NewPool()
		b, err := tsdb.OpenBlock(nil, dl, chunkPool, nil)
		if err != nil {
			return nil, err
		}
		defer b.Close()
		newID := ulid.MustNew(ulid.Now(), rand.Reader)
		del := metadata.DeletionRequest{Matchers: metadata.Matchers{labels.MustNewMatcher(labels.MatchRegexp, "i", "[1-4]")}}
		meta.ULID = newID
		meta.Thanos.Rewrites = append(meta.Thanos.Rewrites, metadata.Rewrite{Sources: meta.Compaction.Sources, DeletionsApplied: []metadata.DeletionRequest{del}})
		meta.Compaction.Sources = []ulid.ULID{newID}
		meta.Thanos.Source = metadata.BucketRewriteSource
		newDir := filepath.Join(work, newID.String())
		if err := os.MkdirAll(newDir, os.ModePerm); err != nil {
			return nil, err
		}
		dw, err := block.NewDiskWriter(ctx, logger, newDir)
		if err != nil {
			return nil, err
		}
		comp := compactv2.New(work, logger, compactv2.NewChangeLog(io.Discard), chunkPool)
		p := compactv2.NewProgressLogger(logger, int(b.Meta().Stats.NumSeries))
		if err := comp.WriteSeries(ctx, []block.Reader{b}, dw, p, compactv2.WithDeletionModifier(del)); err != nil {
			return nil, fmt.Errorf("rewrite: %w", err)
		}
		if meta.Stats, err = dw.Flush(); err != nil {
			return nil, fmt.Errorf("rewrite flush: %w", err)
		}
		if err := meta.WriteToDir(logger, newDir); err != nil {
			return nil, err
		}
		d.dir, d.id = newDir, newID
	case originDownsampled:
		b, err := tsdb.OpenBlock(nil, dl, chunkenc.NewPool(), nil)
		if err != nil {
			return nil, err
		}
		defer b.Close()
		newID, err := downsample.Downsample(ctx, logger, meta, b, work, downsample.ResLevel1)
		if err != nil {
			return nil, fmt.Errorf("downsample: %w", err)
		}
		d.dir, d.id = filepath.Join(work, newID.String()), newID
	default:
		return nil, fmt.Errorf("unknown origin %d", origin)
	}
	// what does the local meta.json of the block to upload say about its files?
	lm, err := metadata.ReadFromDir(d.dir)
	if err != nil {
		return nil, err
	}
	for _, f := range lm.Thanos.Files {
		if f.RelPath == block.MetaFilename {
			continue
		}
		d.listed++
		content, err := os.ReadFile(filepath.Join(d.dir, f.RelPath))
		if err != nil {
			d.staleMissing++
			continue
		}
		if int64(len(content)) != f.SizeBytes {
			d.staleSize++
		}
		if f.Hash != nil && f.Hash.Func == metadata.SHA256Func && f.Hash.Value != sha256Hex(content) {
			d.staleHash++
		}
	}
	return d, nil
}

func sha256Hex(b []byte) string {
	s := sha256.Sum256(b)
	return hex.EncodeToString(s[:])
}

// staleSegmentFiles returns the thanos.segment_files entries of the local meta.json of bdir that are not on disk.
func staleSegmentFiles(bdir string) ([]string, error) {
	m, err := metadata.ReadFromDir(bdir)
	if err != nil {
		return nil, err
	}
	var out []string
	for _, s := range m.Thanos.SegmentFiles {
		if _, err := os.Stat(filepath.Join(bdir, block.ChunksDirname, s)); err != nil {
			out = append(out, s)
		}
	}
	return out, nil
}
