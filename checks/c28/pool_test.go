package c28

import (
	"iter"
	"runtime"
	"sync"

	"verif/vlib"
)

// forEach is vlib.ForEach with batch size 1 and 4x GOMAXPROCS workers: the cases of this check spend most
// of their time waiting for fsync (the shipper and the meta writers sync files and directories), so
// more workers than cores and no 64-case batches keep the wall time down. Same contract: replay mode
// evaluates only the artefact, shards partition by index, the deadline stops the producer and marks the
// run non-exhaustive.
func forEach[C any](r *vlib.R, gen iter.Seq[C], eval func(c C)) {
	var rc C
	if r.ReplayCase(&rc) {
		r.Eval(1)
		eval(rc)
		return
	}
	workers := 4 * runtime.GOMAXPROCS(0)
	ch := make(chan C, workers)
	var wg sync.WaitGroup
	for w := 0; w < workers; w++ {
		wg.Add(1)
		go func() {
			defer wg.Done()
			for c := range ch {
				eval(c)
				r.Eval(1)
			}
		}()
	}
	si, sn := r.Shard()
	var idx int64
	for c := range gen {
		idx++
		if sn > 1 && int((idx-1)%int64(sn)) != si {
			continue
		}
		if idx%16 == 0 && r.Expired("case enumeration stopped early") {
			break
		}
		ch <- c
	}
	close(ch)
	wg.Wait()
}
