// C17 part 2: concurrent Get/Put on the bucketed pool under the controlled scheduler.
package c17s

import (
	"encoding/json"
	"fmt"
	"strings"
	"testing"

	"github.com/thanos-io/thanos/pkg/pool"

	"verif/vexplore"
	"verif/vlib"
	"verif/vsync"
)

type Params struct {
	MaxTotal uint64  `json:"max_total"`
	Threads  [][]int `json:"threads"` // per thread: sizes to Get; each buffer is Put back right after the next Get (or at the end)
}

func (p Params) name() string { b, _ := json.Marshal(p); return string(b) }

func scenario(p Params) *vexplore.Scenario {
	return &vexplore.Scenario{
		Name:     p.name(),
		MaxSteps: 5000,
		New: func() (func(e *vsync.Exec), func(), func(e *vsync.Exec) (string, string, string)) {
			bp := pool.MustNewBucketedPool[byte](2, 8, 2, p.MaxTotal)
			out := map[*[]byte]bool{}
			gots := make([][]string, len(p.Threads))
			var finalUsed uint64
			over := ""
			budget := func() string {
				var real uint64
				for b := range out {
					real += uint64(cap(*b))
				}
				if p.MaxTotal > 0 && real > p.MaxTotal {
					return fmt.Sprintf("%d bytes checked out, budget %d", real, p.MaxTotal)
				}
				return ""
			}
			setup := func(e *vsync.Exec) {
				e.Invariant = budget
			}
			body := func() {
				var hs []vsync.Handle
				for i, prog := range p.Threads {
					i, prog := i, prog
					hs = append(hs, vsync.Spawn(fmt.Sprintf("user%d", i), func() {
						var held []*[]byte
						for _, sz := range prog {
							b, err := bp.Get(sz)
							if err != nil {
								gots[i] = append(gots[i], "exhausted")
							} else {
								gots[i] = append(gots[i], fmt.Sprint(cap(*b)))
								out[b] = true
								// evaluated the moment a buffer is handed out (threads run one at a time), not only
								// at the next scheduling point
								if m := budget(); m != "" && over == "" {
									over = m
								}
								held = append(held, b)
							}
							if len(held) > 1 {
								delete(out, held[0])
								bp.Put(held[0])
								held = held[1:]
							}
						}
						for _, b := range held {
							delete(out, b)
							bp.Put(b)
						}
					}))
				}
				for _, h := range hs {
					vsync.Join(h)
				}
				finalUsed = bp.UsedBytes()
			}
			check := func(e *vsync.Exec) (string, string, string) {
				outcome := fmt.Sprintf("%s gots=%v", e.Outcome(), gots)
				switch {
				case len(e.Panics) > 0:
					return "panic", strings.Join(e.Panics, "; "), outcome
				case e.Deadlock:
					return "deadlock", e.DeadlockMsg, outcome
				case e.Horizon:
					return "step-horizon-exceeded", "", outcome
				case len(e.InvariantViolations) > 0:
					return "checked-out-bytes-exceed-budget", e.InvariantViolations[0], outcome
				case over != "":
					return "checked-out-bytes-exceed-budget", over, outcome
				case finalUsed != 0:
					return "usage-not-zero-after-all-returned", fmt.Sprintf("UsedBytes()=%d after every buffer was returned", finalUsed), outcome
				}
				return "", "", outcome
			}
			return setup, body, check
		},
	}
}

func TestCheck(t *testing.T) {
	r := vlib.New(t, "C17")
	defer r.Finish()
	r.Rule("2-3 threads with Get/Put programs (sizes around the bucket boundaries) on one BucketedPool[byte](2,8,x2) with a budget; every interleaving; " +
		"distinct_nontrivial = distinct (scenario, per-Get result vector) observations")
	ps := []Params{
		{MaxTotal: 8, Threads: [][]int{{3, 5}, {5, 2}}},
		{MaxTotal: 10, Threads: [][]int{{3, 3}, {5}, {2}}},
		{MaxTotal: 16, Threads: [][]int{{8, 8}, {7, 1}}},
	}
	if r.Thorough() {
		ps = append(ps,
			Params{MaxTotal: 12, Threads: [][]int{{3, 5, 2}, {5, 3, 9}}},
			Params{MaxTotal: 0, Threads: [][]int{{3, 5}, {9, 2}, {1}}},
		)
	}
	var named []vexplore.Named
	for _, p := range ps {
		named = append(named, vexplore.Named{S: scenario(p), Params: p})
	}
	vexplore.Drive(r, named, vlib.Pick(r, 3, -1), func(c vexplore.Case) *vexplore.Scenario {
		var p Params
		if err := json.Unmarshal(c.Params, &p); err != nil {
			return nil
		}
		return scenario(p)
	})
}
