// C15: blocks selected by bucketBlockSet.getFor never exceed the maximum resolution, never repeat a block, all overlap the
// query range and cover every instant of the range that some block of an allowed resolution covers.
// Engine E4, two families on the real bucketBlockSet:
//   - layouts: every sequence of up to 3 add() calls (thorough: also every multiset of 4, ascending and descending) of blocks
//     whose bounds lie on a 6-point grid scaled by 2 (0,2,..,10) at resolutions {raw,5m,1h};
//   - histories: every sequence of add() and remove() calls with at least one remove (bounded number of adds and removes, a
//     remove names any block added before it, present or already removed) over the 4-point grid (0,2,4,6; thorough 0,..,8) x
//     {raw,5m,1h}.
//
// After the last operation getFor is called for every query range with integer bounds one below .. one above the grid (so
// that bounds fall before, on, strictly inside and after blocks) x every maximum resolution around the two comparison
// boundaries of the code (0, 5m-1, 5m, 1h-1, 1h, MaxInt64). Every prefix of a history is itself an enumerated history, so
// every intermediate state is queried. The oracle is the statement applied to the blocks that are in the set at that moment.
package c15

import (
	"fmt"
	"iter"
	"math"
	"strings"
	"testing"

	"github.com/thanos-io/thanos/pkg/store"

	"verif/vlib"
)

type B struct {
	Min int64 `json:"min"`
	Max int64 `json:"max"`
	Res int   `json:"res"` // 0 raw, 1 5m, 2 1h
}

// Op is one step of a history: "add" puts Blocks[Block] into the set, "remove" calls remove with its ULID.
type Op struct {
	Op    string `json:"op"`
	Block int    `json:"block"`
}

// Case is the list of blocks that are ever added (in the order they are added) and the history of operations; an empty
// history means "add every block, in order". All queries with bounds -1..QHi are evaluated after the last operation.
type Case struct {
	Blocks []B  `json:"blocks"`
	Ops    []Op `json:"ops,omitempty"`
	QHi    int  `json:"qhi,omitempty"` // 0 = 11 (the layout family)
}

var resMillis = []int64{0, 300000, 3600000}
var maxResAlphabet = []int64{0, 299999, 300000, 3599999, 3600000, math.MaxInt64}

const (
	gridPoints = 6 // layout family; the history family uses the first 4 (thorough 5) points
	scale      = 2
	qLo        = -1
)

func qHiFor(points int) int { return (points-1)*scale + 1 }

func blockTypes(points, resolutions int) []B {
	var out []B
	for res := 0; res < resolutions; res++ {
		for a := 0; a < points; a++ {
			for b := a + 1; b < points; b++ {
				out = append(out, B{Min: int64(a * scale), Max: int64(b * scale), Res: res})
			}
		}
	}
	return out
}

// skeletons lists every operation sequence with exactly nAdds adds (block numbers 0..nAdds-1 in order) and 1..maxRm
// removes, where a remove names any block added before it (also one that was removed already), shortest first.
func skeletons(nAdds, maxRm int) [][]Op {
	var out [][]Op
	for rm := 1; rm <= maxRm; rm++ {
		var rec func(cur []Op, added, removed int)
		rec = func(cur []Op, added, removed int) {
			if added == nAdds && removed == rm {
				out = append(out, append([]Op(nil), cur...))
				return
			}
			if added < nAdds {
				rec(append(cur, Op{Op: "add", Block: added}), added+1, removed)
			}
			if removed < rm {
				for k := 0; k < added; k++ {
					rec(append(cur, Op{Op: "remove", Block: k}), added, removed+1)
				}
			}
		}
		rec(nil, 0, 0)
	}
	return out
}

func genLayouts(r *vlib.R, n int, yield func(Case) bool) bool {
	types := blockTypes(gridPoints, 3)
	for ms := range vlib.Multisets(n, len(types)) {
		emit := func(order []int) bool {
			c := Case{Blocks: make([]B, n)}
			for i, o := range order {
				c.Blocks[i] = types[ms[o]]
			}
			return yield(c)
		}
		if n <= 3 {
			seen := map[[3]int]struct{}{}
			for p := range vlib.Perms(n) {
				k := [3]int{-1, -1, -1}
				for i, o := range p {
					k[i] = ms[o]
				}
				if _, dup := seen[k]; dup { // identical block types: same insertion sequence
					continue
				}
				seen[k] = struct{}{}
				if !emit(p) {
					return false
				}
			}
			continue
		}
		asc := make([]int, n)
		desc := make([]int, n)
		for i := range asc {
			asc[i], desc[i] = i, n-1-i
		}
		if !emit(asc) || !emit(desc) {
			return false
		}
	}
	return true
}

// genHistories yields skeleton x every assignment of block types to the nAdds added blocks.
func genHistories(points, nAdds, maxRm int, yield func(Case) bool) bool {
	types := blockTypes(points, 3)
	for _, sk := range skeletons(nAdds, maxRm) {
		for tu := range vlib.Tuples(nAdds, len(types)) {
			c := Case{Blocks: make([]B, nAdds), Ops: sk, QHi: qHiFor(points)}
			for i, ty := range tu {
				c.Blocks[i] = types[ty]
			}
			if !yield(c) {
				return false
			}
		}
	}
	return true
}

type bounds struct {
	maxBlocks          int // layout family
	histPoints         int // history family: grid points
	histAdds, histRm   int // history family: <= histAdds adds with <= histRm removes
	histAdds2, histRm2 int // history family: fewer adds, more removes
	deepPoints         int // history family, exactly deepAdds adds (0 = off) with <= deepRm removes on a smaller grid
	deepAdds, deepRm   int
}

func gen(r *vlib.R, bd bounds) iter.Seq[Case] {
	return func(yield func(Case) bool) {
		top := max(bd.maxBlocks, bd.histAdds, bd.histAdds2, bd.deepAdds)
		for n := 0; n <= top; n++ { // simplest first: by number of blocks ever added
			if n <= bd.maxBlocks && !genLayouts(r, n, yield) {
				return
			}
			if n == 0 {
				continue
			}
			rm := 0
			if n <= bd.histAdds {
				rm = bd.histRm
			}
			if n <= bd.histAdds2 {
				rm = max(rm, bd.histRm2)
			}
			if rm > 0 {
				if !genHistories(bd.histPoints, n, rm, yield) {
					return
				}
			} else if n == bd.deepAdds {
				if !genHistories(bd.deepPoints, n, bd.deepRm, yield) {
					return
				}
			}
		}
	}
}

func (c Case) history() ([]Op, error) {
	ops := c.Ops
	if len(ops) == 0 {
		ops = make([]Op, len(c.Blocks))
		for i := range ops {
			ops[i] = Op{Op: "add", Block: i}
		}
	}
	added := make([]bool, len(c.Blocks))
	for _, o := range ops {
		if o.Block < 0 || o.Block >= len(c.Blocks) {
			return nil, fmt.Errorf("operation %+v names no block", o)
		}
		switch o.Op {
		case "add":
			if added[o.Block] {
				return nil, fmt.Errorf("block %d added twice", o.Block)
			}
			added[o.Block] = true
		case "remove":
			if !added[o.Block] {
				return nil, fmt.Errorf("block %d removed before it was added", o.Block)
			}
		default:
			return nil, fmt.Errorf("unknown operation %q", o.Op)
		}
	}
	for _, b := range c.Blocks {
		if b.Res < 0 || b.Res >= len(resMillis) {
			return nil, fmt.Errorf("unknown resolution class %d", b.Res)
		}
	}
	return ops, nil
}

func describe(c Case, ops []Op) string {
	var sb strings.Builder
	for i, o := range ops {
		if i > 0 {
			sb.WriteString("; ")
		}
		b := c.Blocks[o.Block]
		fmt.Fprintf(&sb, "%s #%d [%d,%d) res=%d", o.Op, o.Block, b.Min, b.Max, resMillis[b.Res])
	}
	return sb.String()
}

// sortsAfter is the order add() documents: by min time, then max time.
func sortsAfter(a, b B) bool {
	if a.Min == b.Min {
		return a.Max > b.Max
	}
	return a.Min > b.Min
}

// judge applies the statement to one answer: got are the numbers of the returned blocks, live says which blocks of c are in
// the set. Each broken clause is passed to emit once. seen is scratch of len(c.Blocks). It returns the resolutions seen (bit set).
func judge(c Case, live []bool, got []int, mint, maxt, maxRes int64, seen []int, emit func(sig, msg string)) (resSeen int) {
	clear(seen)
	for _, g := range got {
		if g < 0 || g >= len(c.Blocks) {
			emit("unknown-block-selected", "a returned entry is nil or a block that was never added")
			continue
		}
		b := c.Blocks[g]
		seen[g]++
		resSeen |= 1 << uint(b.Res)
		if !live[g] {
			emit("removed-block-selected", fmt.Sprintf("block #%d is not in the set any more", g))
		}
		if resMillis[b.Res] > maxRes {
			emit("block-above-max-resolution", fmt.Sprintf("block #%d has resolution %d", g, resMillis[b.Res]))
		}
		if !(b.Min <= maxt && b.Max > mint) {
			emit("block-outside-query-range", fmt.Sprintf("block #%d [%d,%d) does not overlap the range", g, b.Min, b.Max))
		}
	}
	for g, n := range seen {
		if n > 1 {
			emit("block-returned-twice:lower-resolution-block-spans-several-gaps", fmt.Sprintf("block #%d is returned %d times", g, n))
		}
	}
	for ti := mint; ti <= maxt; ti++ {
		avail, covered := -1, false
		for i, b := range c.Blocks {
			if b.Min <= ti && ti < b.Max {
				if live[i] && resMillis[b.Res] <= maxRes {
					avail = i
				}
				if seen[i] > 0 {
					covered = true
				}
			}
		}
		if avail >= 0 && !covered {
			emit("covered-instant-not-selected", fmt.Sprintf("instant %d is covered by block #%d (in the set, allowed resolution) but by no returned block", ti, avail))
			break
		}
	}
	return resSeen
}

// controlFails tells, for a counter-example found after a history with removes, whether the same clause is also broken when
// the surviving blocks are simply added (in the order they were added) to a fresh set. It only chooses the signature:
// ":after-remove" is appended when the plain layout answers the query correctly, i.e. the history is what matters.
func controlFails(c Case, ops []Op, live []bool, mint, maxt, maxRes int64, sig string) (fails bool) {
	defer func() {
		if recover() != nil {
			fails = true
		}
	}()
	set := store.VerifC15Empty()
	for _, o := range ops {
		if o.Op == "add" && live[o.Block] {
			b := c.Blocks[o.Block]
			if err := set.Add(o.Block, store.VerifC15Block{Min: b.Min, Max: b.Max, Res: resMillis[b.Res]}); err != nil {
				return true
			}
		}
	}
	judge(c, live, set.GetFor(mint, maxt, maxRes), mint, maxt, maxRes, make([]int, len(c.Blocks)), func(s, _ string) {
		if s == sig {
			fails = true
		}
	})
	return fails
}

func evalCase(r *vlib.R, t *testing.T, c Case) {
	r.Sample(c)
	ops, err := c.history()
	if err != nil {
		t.Errorf("HARNESS-ERROR malformed case %+v: %v", c, err)
		return
	}
	qHi := c.QHi
	if qHi == 0 {
		qHi = qHiFor(gridPoints)
	}
	isHist := false
	for _, o := range ops {
		isHist = isHist || o.Op == "remove"
	}
	hist := describe(c, ops)

	// A panic of the code under test is a counter-example, not a crash of the check.
	doing, doingSig := "", ""
	var mint, maxt, maxRes int64
	query := func() string { return fmt.Sprintf("getFor(mint=%d, maxt=%d, maxResolution=%d)", mint, maxt, maxRes) }
	defer func() {
		if p := recover(); p != nil {
			if doing == "" {
				doing, doingSig = query(), "getFor"
				if isHist {
					doingSig += ":after-remove"
				}
			}
			r.Violation("panic-in-"+doingSig, fmt.Sprintf("history {%s}: %s panicked: %v", hist, doing, p), c)
		}
	}()

	set := store.VerifC15Empty()
	live := make([]bool, len(c.Blocks))
	var shifted, absent int64
	for _, o := range ops {
		b := c.Blocks[o.Block]
		if o.Op == "add" {
			doing, doingSig = fmt.Sprintf("add(#%d)", o.Block), "add"
			if err := set.Add(o.Block, store.VerifC15Block{Min: b.Min, Max: b.Max, Res: resMillis[b.Res]}); err != nil {
				t.Errorf("HARNESS-ERROR add failed for %+v: %v", c, err)
				return
			}
			live[o.Block] = true
			continue
		}
		if !live[o.Block] {
			absent++
		} else {
			for i, x := range c.Blocks {
				if live[i] && i != o.Block && x.Res == b.Res && sortsAfter(x, b) {
					shifted++ // a later block of the same resolution has to move up
					break
				}
			}
		}
		doing, doingSig = fmt.Sprintf("remove(#%d)", o.Block), "remove"
		set.Remove(o.Block)
		live[o.Block] = false
	}

	doing = ""
	var calls, filled, nonEmpty int64
	multi := false
	reported := map[string]bool{}
	seen := make([]int, len(c.Blocks))
	var got []int
	emit := func(sig, msg string) {
		if reported[sig] { // one counter-example per clause and case is enough
			return
		}
		reported[sig] = true
		if isHist && !controlFails(c, ops, live, mint, maxt, maxRes, sig) {
			sig += ":after-remove"
		}
		r.Violation(sig, fmt.Sprintf("history {%s}: %s returned blocks %v: %s", hist, query(), got, msg), c)
	}
	for mint = int64(qLo); mint <= int64(qHi); mint++ {
		for maxt = mint; maxt <= int64(qHi); maxt++ {
			for _, maxRes = range maxResAlphabet {
				got = set.GetFor(mint, maxt, maxRes)
				calls++
				resSeen := judge(c, live, got, mint, maxt, maxRes, seen, emit)
				if len(got) > 0 {
					nonEmpty++
				}
				if resSeen&(resSeen-1) != 0 {
					multi = true
					filled++
				}
			}
		}
	}
	r.Add("getfor_calls", calls)
	r.Add("getfor_calls_with_gap_filling", filled)
	if isHist {
		r.Add("history_cases", 1)
		r.Add("history_removes_that_shift_later_blocks", shifted)
		r.Add("history_removes_of_absent_block", absent)
		if shifted > 0 && nonEmpty > 0 {
			r.Add("history_cases_nontrivial", 1)
			r.Nontrivial(fmt.Sprint(c.Blocks, c.Ops))
		}
	} else if multi {
		r.Add("layout_cases_nontrivial", 1)
		r.Nontrivial(fmt.Sprint(c.Blocks))
	}
}

func TestCheck(t *testing.T) {
	r := vlib.New(t, "C15")
	defer r.Finish()
	bd := bounds{
		maxBlocks:  vlib.Pick(r, 3, 4),
		histPoints: vlib.Pick(r, 4, 5),
		histAdds:   3, histRm: vlib.Pick(r, 1, 2),
		histAdds2: 2, histRm2: 2,
		deepPoints: 4, deepAdds: vlib.Pick(r, 0, 4), deepRm: 1,
	}
	hp := bd.histPoints
	r.Rule(fmt.Sprintf("layouts = sequences of <= 3 add() of blocks over 15 intervals [2a,2b) (0<=a<b<=5) x {raw,5m,1h} (4 blocks: every multiset, ascending and descending); "+
		"histories = every sequence of add()/remove() with >= 1 remove, a remove naming any earlier added block (present or already removed), over the %d intervals "+
		"[2a,2b) (0<=a<b<=%d) x {raw,5m,1h}: <= %d adds with <= %d removes and <= %d adds with <= %d removes; exactly %d adds (0 = off) with %d remove over the 6 intervals "+
		"with 0<=a<b<=3; after the last operation all query ranges with integer bounds -1..11 (histories: -1..one above their grid) x 6 maximum resolutions; non-trivial "+
		"layout = some query returned blocks of at least two resolutions (gap filling happened); non-trivial history = some remove took out a block with a later block of "+
		"its resolution behind it and some query afterwards returned blocks; extra: getFor calls, calls with gap filling, history counters",
		hp*(hp-1)/2, hp-1, bd.histAdds, bd.histRm, bd.histAdds2, bd.histRm2, bd.deepAdds, bd.deepRm))
	r.Assume("No block-level matchers (hints) are passed; all blocks carry the set's (empty) external labels.",
		"Instants are integer milliseconds; block intervals are half-open [min,max), query ranges closed [mint,maxt] as in the code's comments.",
		"Operations on one set are sequential (add/remove/getFor are serialised by the set's mutex); every block has its own ULID.")

	vlib.ForEach(r, gen(r, bd), func(c Case) { evalCase(r, t, c) })
}
