// C15: blocks selected by bucketBlockSet.getFor never exceed the maximum resolution, never repeat a block, all overlap the
// query range and cover every instant of the range that some block of an allowed resolution covers.
// Engine E4: every layout of up to N blocks (multisets, every insertion order for <= 3 blocks) whose bounds lie on a
// 6-point grid scaled by 2 (0,2,..,10) at resolutions {raw,5m,1h}; for each layout every query range with integer bounds
// -1..11 (so that bounds fall before, on, strictly inside and after blocks) x every maximum resolution around the two
// comparison boundaries of the code (0, 5m-1, 5m, 1h-1, 1h, MaxInt64).
package c15

import (
	"fmt"
	"iter"
	"math"
	"testing"

	"github.com/thanos-io/thanos/pkg/store"

	"verif/vlib"
)

type B struct {
	Min int64 `json:"min"`
	Max int64 `json:"max"`
	Res int   `json:"res"` // 0 raw, 1 5m, 2 1h
}

// Case is one layout, in insertion order; all queries are evaluated on it.
type Case struct {
	Blocks []B `json:"blocks"`
}

var resMillis = []int64{0, 300000, 3600000}
var maxResAlphabet = []int64{0, 299999, 300000, 3599999, 3600000, math.MaxInt64}

const (
	gridPoints = 6
	scale      = 2
	qLo, qHi   = -1, (gridPoints-1)*scale + 1
)

func blockTypes() []B {
	var out []B
	for res := 0; res < 3; res++ {
		for a := 0; a < gridPoints; a++ {
			for b := a + 1; b < gridPoints; b++ {
				out = append(out, B{Min: int64(a * scale), Max: int64(b * scale), Res: res})
			}
		}
	}
	return out
}

func gen(r *vlib.R) iter.Seq[Case] {
	types := blockTypes()
	maxBlocks := vlib.Pick(r, 3, 4)
	return func(yield func(Case) bool) {
		for n := 0; n <= maxBlocks; n++ {
			for ms := range vlib.Multisets(n, len(types)) {
				emit := func(order []int) bool {
					c := Case{Blocks: make([]B, n)}
					for i, o := range order {
						c.Blocks[i] = types[ms[o]]
					}
					return yield(c)
				}
				if n <= 3 {
					seen := map[string]struct{}{}
					for p := range vlib.Perms(n) {
						k := ""
						for _, o := range p {
							k += fmt.Sprint(ms[o], ",")
						}
						if _, dup := seen[k]; dup { // identical block types: same insertion sequence
							continue
						}
						seen[k] = struct{}{}
						if !emit(p) {
							return
						}
					}
					continue
				}
				asc := make([]int, n)
				desc := make([]int, n)
				for i := range asc {
					asc[i], desc[i] = i, n-1-i
				}
				if !emit(asc) || !emit(desc) {
					return
				}
			}
		}
	}
}

func TestCheck(t *testing.T) {
	r := vlib.New(t, "C15")
	defer r.Finish()
	r.Rule("layouts = multisets of <= N blocks over 15 intervals [2a,2b) (0<=a<b<=5) x {raw,5m,1h}, all distinct insertion orders for <= 3 blocks (ascending and " +
		"descending for 4); per layout all 91 query ranges with integer bounds -1..11 x 6 maximum resolutions; non-trivial = distinct layout for which some query " +
		"returned blocks of at least two resolutions (gap filling happened); extra: getFor calls, calls with gap filling")
	r.Assume("No block-level matchers (hints) are passed; all blocks carry the set's (empty) external labels.",
		"Instants are integer milliseconds; block intervals are half-open [min,max), query ranges closed [mint,maxt] as in the code's comments.")

	vlib.ForEach(r, gen(r), func(c Case) {
		r.Sample(c)
		in := make([]store.VerifC15Block, len(c.Blocks))
		for i, b := range c.Blocks {
			in[i] = store.VerifC15Block{Min: b.Min, Max: b.Max, Res: resMillis[b.Res]}
		}
		set, err := store.VerifC15NewSet(in)
		if err != nil {
			t.Errorf("HARNESS-ERROR add failed for %+v: %v", c, err)
			return
		}
		var calls, filled int64
		multi := false
		reported := map[string]bool{}
		seen := make([]int, len(c.Blocks))
		for mint := int64(qLo); mint <= qHi; mint++ {
			for maxt := mint; maxt <= qHi; maxt++ {
				for _, maxRes := range maxResAlphabet {
					got := set.GetFor(mint, maxt, maxRes)
					calls++
					viol := func(sig, format string, a ...any) {
						if reported[sig] { // one counter-example per signature and layout is enough
							return
						}
						reported[sig] = true
						r.Violation(sig, fmt.Sprintf("getFor(mint=%d, maxt=%d, maxResolution=%d) returned blocks %v of %+v: ", mint, maxt, maxRes, got, c.Blocks)+fmt.Sprintf(format, a...), c)
					}
					clear(seen)
					resSeen := 0
					for _, g := range got {
						b := c.Blocks[g]
						seen[g]++
						resSeen |= 1 << uint(b.Res)
						if resMillis[b.Res] > maxRes {
							viol("block-above-max-resolution", "block %d has resolution %d", g, resMillis[b.Res])
						}
						if !(b.Min <= maxt && b.Max > mint) {
							viol("block-outside-query-range", "block %d [%d,%d) does not overlap the range", g, b.Min, b.Max)
						}
					}
					if resSeen&(resSeen-1) != 0 {
						multi = true
						filled++
					}
					for g, n := range seen {
						if n > 1 {
							viol("block-returned-twice:lower-resolution-block-spans-several-gaps", "block %d is returned %d times", g, n)
						}
					}
					for ti := mint; ti <= maxt; ti++ {
						avail, covered := -1, false
						for i, b := range c.Blocks {
							if b.Min <= ti && ti < b.Max {
								if resMillis[b.Res] <= maxRes {
									avail = i
								}
								if seen[i] > 0 {
									covered = true
								}
							}
						}
						if avail >= 0 && !covered {
							viol("covered-instant-not-selected", "instant %d is covered by block %d (allowed resolution) but by no returned block", ti, avail)
							break
						}
					}
				}
			}
		}
		r.Add("getfor_calls", calls)
		r.Add("getfor_calls_with_gap_filling", filled)
		if multi {
			r.Nontrivial(fmt.Sprint(c.Blocks))
		}
	})
}
