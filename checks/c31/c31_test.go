// C31: the duplicate-block filter hides only blocks fully covered by a kept block of the same group.
//
// Engine E4. Every sequence of up to N block metas, each with a non-empty subset of a small source
// alphabet as Compaction.Sources and one of a few compaction groups (labels / resolution), is fed
//   - to the real DefaultDeduplicateFilter.Filter with concurrency 1, 2, 3 and 4 (exported API), first on a fresh filter and
//     then, on the SAME filter instance (components keep one filter and call it once per sync), for the listing without
//     its newest block and for the full listing again, and
//   - group by group, in EVERY permutation, to the unexported filterGroup (the seam where the listing
//     order - Go map iteration order inside Filter - enters).
//
// Position in the sequence = ULID rank of the block, so every relation between ULID order and source
// sets is covered (the filter breaks ties by ULID).
package c31

import (
	"context"
	"fmt"
	"iter"
	"strings"
	"testing"

	"github.com/oklog/ulid/v2"
	"github.com/prometheus/client_golang/prometheus"

	"github.com/thanos-io/thanos/pkg/block"
	"github.com/thanos-io/thanos/pkg/block/metadata"

	"verif/vlib"
)

// M is one block: S = bitmask over the source alphabet (non-zero), G = compaction group index.
type M struct {
	S int `json:"s"`
	G int `json:"g"`
}

type Case struct {
	NSrc  int `json:"nsrc"`  // size of the source alphabet
	NGrp  int `json:"ngrp"`  // number of groups used by the space (informative)
	Metas []M `json:"metas"` // index = ULID rank
}

// groups: 0 and 1 differ by external labels, 0 and 2 by resolution only.
var groupLabels = []map[string]string{{"tenant": "a"}, {"tenant": "b"}, {"tenant": "a"}}
var groupRes = []int64{0, 0, 300000}

func mkID(kind byte, i int) ulid.ULID {
	var id ulid.ULID
	id[0], id[1] = 0x01, 0x8f
	id[5] = kind
	id[15] = byte(i)
	return id
}

func build(c Case) []*metadata.Meta {
	out := make([]*metadata.Meta, len(c.Metas))
	for i, m := range c.Metas {
		mt := &metadata.Meta{}
		mt.ULID = mkID(2, i+1) // block ids sort after source ids and by position
		mt.Version = 1
		mt.MinTime, mt.MaxTime = 0, 7200000
		for b := 0; b < c.NSrc; b++ {
			if m.S&(1<<uint(b)) != 0 {
				mt.Compaction.Sources = append(mt.Compaction.Sources, mkID(1, b+1))
			}
		}
		mt.Compaction.Level = len(mt.Compaction.Sources)
		mt.Thanos.Version = 1
		mt.Thanos.Labels = groupLabels[m.G]
		mt.Thanos.Downsample.Resolution = groupRes[m.G]
		out[i] = mt
	}
	return out
}

var gauge = prometheus.NewGaugeVec(prometheus.GaugeOpts{Name: "verif_c31"}, []string{"state"})

type outcome struct {
	hidden []bool // by position: removed from the map or reported by DuplicateIDs
	note   string
}

func (o outcome) key() string {
	var sb strings.Builder
	for _, h := range o.hidden {
		if h {
			sb.WriteByte('1')
		} else {
			sb.WriteByte('0')
		}
	}
	return sb.String()
}

func gen(r *vlib.R) iter.Seq[Case] {
	type sp struct{ nsrc, ngrp, maxN int }
	sps := vlib.Pick(r, []sp{{3, 3, 4}, {2, 2, 5}}, []sp{{3, 3, 5}, {4, 2, 4}, {2, 2, 6}})
	return func(yield func(Case) bool) {
		for _, s := range sps {
			nsub := (1 << uint(s.nsrc)) - 1
			for t := range vlib.TuplesUpTo(1, s.maxN, nsub*s.ngrp) {
				c := Case{NSrc: s.nsrc, NGrp: s.ngrp, Metas: make([]M, len(t))}
				for i, x := range t {
					c.Metas[i] = M{S: x%nsub + 1, G: x / nsub}
				}
				if !yield(c) {
					return
				}
			}
		}
	}
}

func TestCheck(t *testing.T) {
	r := vlib.New(t, "C31")
	defer r.Finish()
	r.Rule("all sequences of <=N metas (position = ULID rank) x Sources = every non-empty subset of the source alphabet x compaction group (labels / resolution); " +
		"each through Filter with concurrency 1,2,3,4 on a fresh filter, then on the same instance for the listing without its newest block and for the full listing again, and every permutation of every group's slice through filterGroup; " +
		"non-trivial = distinct cases in which at least one block is hidden and the hidden block's group holds >=2 blocks with different source sets")
	r.Assume(
		"Sources lists are duplicate-free and non-empty (what the compactor and the shipper write)",
		"inside Filter the listing order is Go's map iteration order, which cannot be enumerated; the order-sensitive step (filterGroup on the group slice) is driven directly with every permutation instead",
		"goroutine interleavings of Filter's workers are explored by the scheduler-controlled part of C31, not here; here every Filter call runs free, once",
		"history of one filter instance: the listing, the listing without its newest (highest ULID) block, the listing again; the calls of one instance do not overlap (the type is documented as not goroutine safe)",
	)
	ctx := context.Background()
	vlib.ForEach(r, gen(r), func(c Case) {
		r.Sample(c)
		n := len(c.Metas)
		pos := map[ulid.ULID]int{}
		proto := build(c)
		for i, m := range proto {
			pos[m.ULID] = i
		}
		covers := func(k, h int) bool { return c.Metas[k].S&c.Metas[h].S == c.Metas[h].S }

		// judge applies the statement to one outcome on the listing made of the first m blocks of the case.
		judgeN := func(o outcome, m int, how string) bool {
			for h := 0; h < m; h++ {
				if !o.hidden[h] {
					continue
				}
				same, other := false, false
				for k := 0; k < m; k++ {
					if k == h || o.hidden[k] || !covers(k, h) {
						continue
					}
					if c.Metas[k].G == c.Metas[h].G {
						same = true
					} else {
						other = true
					}
				}
				if !same {
					sig := "hidden-block-not-covered-by-any-kept-block"
					if other {
						sig = "hidden-block-covered-only-by-block-of-another-group"
					}
					r.Violation(sig, fmt.Sprintf("%s: block %d %+v hidden (hidden=%s) but no kept block of its group has all its sources", how, h, c.Metas[h], o.key()), c)
					return false
				}
			}
			for g := 0; g < len(groupRes); g++ {
				all, kept := 0, 0
				for i, mm := range c.Metas[:m] {
					if mm.G != g {
						continue
					}
					all |= mm.S
					if !o.hidden[i] {
						kept |= mm.S
					}
				}
				if all != kept {
					r.Violation("kept-blocks-do-not-cover-all-sources", fmt.Sprintf("%s: group %d sources %b, kept blocks cover only %b (hidden=%s)", how, g, all, kept, o.key()), c)
					return false
				}
			}
			return true
		}
		judge := func(o outcome, how string) bool { return judgeN(o, n, how) }

		// filter runs one Filter call of f on a fresh listing of the first m blocks of the case (every sync lists the
		// bucket again) and observes which of them are hidden afterwards.
		filter := func(f *block.DefaultDeduplicateFilter, m int, how string) (o outcome, ok bool) {
			defer func() {
				if x := recover(); x != nil {
					r.Violation("filter-panic", fmt.Sprintf("%s: %v", how, x), c)
					ok = false
				}
			}()
			metas := map[ulid.ULID]*metadata.Meta{}
			for _, mt := range build(c)[:m] {
				metas[mt.ULID] = mt
			}
			if err := f.Filter(ctx, metas, gauge, gauge); err != nil {
				r.Violation("filter-error", how+": "+err.Error(), c)
				return o, false
			}
			o = outcome{hidden: make([]bool, n)}
			for id := range metas {
				if i, ok := pos[id]; !ok || i >= m {
					r.Violation("filter-invented-a-block", how+": "+id.String(), c)
					return o, false
				}
			}
			removed := 0
			for id, i := range pos {
				if _, ok := metas[id]; !ok && i < m {
					o.hidden[i] = true
					removed++
				}
			}
			dups := f.DuplicateIDs()
			seen := map[ulid.ULID]bool{}
			for _, id := range dups {
				i, ok := pos[id]
				if !ok || i >= m {
					r.Violation("duplicate-ids-name-unknown-block", fmt.Sprintf("%s: DuplicateIDs lists %s, which is not in the listing just filtered", how, id), c)
					return o, false
				}
				if !o.hidden[i] || seen[id] {
					r.Note("DuplicateIDs differs from the set of removed metas (%s): case %+v dups %v", how, c, dups)
				}
				seen[id] = true
				o.hidden[i] = true
			}
			if len(seen) != removed {
				r.Note("DuplicateIDs has %d ids, %d metas were removed (%s): case %+v", len(seen), removed, how, c)
			}
			return o, judgeN(o, m, how)
		}

		// sequential reference for the listing without its newest block (fresh filter, concurrency 1)
		refPrefix, ok := filter(block.NewDeduplicateFilter(1), n-1, "Filter(concurrency=1) on the listing without its newest block")
		if !ok {
			return
		}
		var ref outcome
		for conc := 1; conc <= 4; conc++ {
			f := block.NewDeduplicateFilter(conc)
			o, ok := filter(f, n, fmt.Sprintf("Filter(concurrency=%d)", conc))
			if !ok {
				return
			}
			if conc == 1 {
				ref = o
			} else if o.key() != ref.key() {
				r.Violation("outcome-depends-on-concurrency", fmt.Sprintf("hidden=%s with concurrency 1, %s with concurrency %d", ref.key(), o.key(), conc), c)
				return
			}
			// the same instance is used for the following syncs: the newest block has gone, then it is back
			for k, m := range []int{n - 1, n} {
				how := fmt.Sprintf("Filter call %d on one instance (concurrency=%d; listings: all %d blocks, first %d, all %d)", k+2, conc, n, n-1, n)
				o, ok := filter(f, m, how)
				if !ok {
					return
				}
				want := ref
				if m < n {
					want = refPrefix
				}
				if o.key() != want.key() {
					r.Violation("outcome-depends-on-earlier-filter-call", fmt.Sprintf("%s hides %s, a fresh filter with concurrency 1 hides %s", how, o.key(), want.key()), c)
					return
				}
			}
		}

		// every listing order of every group through the seam
		f := block.NewDeduplicateFilter(1)
		nontrivial := false
		for g := 0; g < len(groupRes); g++ {
			var members []int
			for i, m := range c.Metas {
				if m.G == g {
					members = append(members, i)
				}
			}
			if len(members) == 0 {
				continue
			}
			distinct := map[int]bool{}
			anyHidden := false
			for _, i := range members {
				distinct[c.Metas[i].S] = true
				anyHidden = anyHidden || ref.hidden[i]
			}
			if anyHidden && len(distinct) >= 2 {
				nontrivial = true
			}
			for perm := range vlib.Perms(len(members)) {
				slice := make([]*metadata.Meta, len(members))
				for k, p := range perm {
					slice[k] = proto[members[p]]
				}
				got := block.VerifC31FilterGroup(f, slice)
				o := outcome{hidden: make([]bool, n)}
				for i := range o.hidden {
					// other groups as in the reference
					o.hidden[i] = ref.hidden[i] && c.Metas[i].G != g
				}
				for _, id := range got {
					i, ok := pos[id]
					if !ok || c.Metas[i].G != g {
						r.Violation("filter-group-reports-foreign-block", id.String(), c)
						return
					}
					o.hidden[i] = true
				}
				how := fmt.Sprintf("filterGroup(group %d listed in order %v of members %v)", g, perm, members)
				if !judge(o, how) {
					return
				}
				if o.key() != ref.key() {
					r.Violation("outcome-depends-on-listing-order", fmt.Sprintf("%s hides %s, Filter hid %s", how, o.key(), ref.key()), c)
					return
				}
			}
		}
		if nontrivial {
			var sb strings.Builder
			fmt.Fprintf(&sb, "%d:", c.NSrc)
			for _, m := range c.Metas {
				fmt.Fprintf(&sb, "%d.%d,", m.S, m.G)
			}
			r.Nontrivial(sb.String())
		}
		r.Outcome(fmt.Sprintf("n=%d hidden=%d", n, strings.Count(ref.key(), "1")))
	})
}
