//go:build verif

// Span-layout dimension of C26: native histograms whose bucket span lists have every small shape (several spans,
// zero-length spans in leading / middle / trailing position with offset 0 and > 0, negative first offset), on the
// positive and on the negative side, integer and float, exponential and custom-bucket schemas, sent as a
// remote-write 2.0 request (and as a 1.0 request, the format a 2.0 request is translated into), ingested by a
// remote peer or by the handler's own Writer. The ingested histogram must have the described buckets: the same
// value at the same ABSOLUTE bucket index (a span offset is relative to the end of the previous span, so a
// zero-length span with a non-zero offset still moves every later bucket).
package c26

import (
	"fmt"
	"math"
	"strings"
	"sync/atomic"
	"testing"

	"github.com/prometheus/prometheus/model/histogram"

	"github.com/thanos-io/thanos/pkg/store/storepb/prompb"
	writev2 "github.com/thanos-io/thanos/pkg/store/storepb/prompb/io/prometheus/write/v2"

	"verif/checks/c22/rig"
	"verif/vlib"
)

// Span is (offset, length) of one bucket span.
type Span [2]int32

type HistC struct {
	Proto  int    `json:"proto"`  // 2: remote-write 2.0 request; 1: remote-write 1.0 request
	Float  bool   `json:"float"`  // float histogram (absolute counts) instead of integer histogram (deltas)
	Custom bool   `json:"custom"` // custom-bucket schema (-53): positive side only, spans index the custom bounds
	Local  bool   `json:"local"`  // true: the handler is the ring member that ingests (real Writer -> appender); false: a remote peer
	Second bool   `json:"second"` // the series carries a second histogram with the two span lists swapped
	Pos    []Span `json:"pos"`
	Neg    []Span `json:"neg"`
}

// spanLayouts yields every span list of 0..maxSpans spans, fewest spans first.
func spanLayouts(maxSpans int, firstOff, laterOff []int32, lens []int32) [][]Span {
	out := [][]Span{nil}
	prev := [][]Span{nil}
	for n := 1; n <= maxSpans; n++ {
		offs := laterOff
		if n == 1 {
			offs = firstOff
		}
		var cur [][]Span
		for _, p := range prev {
			for _, o := range offs {
				for _, l := range lens {
					x := append(append([]Span(nil), p...), Span{o, l})
					cur = append(cur, x)
				}
			}
		}
		out = append(out, cur...)
		prev = cur
	}
	return out
}

var (
	histFirstOff = []int32{0, 2, -1}
	histLaterOff = []int32{0, 2} // a negative offset after the first span is not a valid histogram
	histLens     = []int32{1, 0, 2}
	// fixed other sides, both with a zero-length span that shifts later buckets
	fixedNeg = []Span{{2, 0}, {1, 1}}         // bucket 3
	fixedPos = []Span{{0, 2}, {3, 0}, {1, 2}} // buckets 0 1 6 7
)

func genHist(r *vlib.R, yield func(Case) bool) bool {
	th := r.Thorough()
	all := spanLayouts(vlib.Pick(r, 3, 4), histFirstOff, histLaterOff, histLens)
	short := spanLayouts(vlib.Pick(r, 1, 2), histFirstOff, histLaterOff, histLens)
	bools := []bool{false, true}
	emit := func(h HistC) bool { return yield(Case{NSym: len(symbolPool), Nodes: 1, Hist: &h}) }
	// H1: every layout on one side, the other side empty or fixed.
	for _, l := range all {
		for _, sides := range [][2][]Span{{l, nil}, {l, fixedNeg}, {nil, l}, {fixedPos, l}} {
			for _, proto := range []int{2, 1} {
				for _, fl := range bools {
					for _, local := range bools {
						if !emit(HistC{Proto: proto, Float: fl, Local: local, Pos: sides[0], Neg: sides[1]}) {
							return false
						}
					}
				}
			}
		}
	}
	// H2: every pair of short layouts.
	for _, p := range short {
		for _, n := range short {
			for _, proto := range []int{2, 1} {
				for _, fl := range bools {
					for _, local := range bools {
						if local && !th {
							continue
						}
						if !emit(HistC{Proto: proto, Float: fl, Local: local, Pos: p, Neg: n}) {
							return false
						}
					}
				}
			}
		}
	}
	// H3: two histograms in one series: (l, next layout) then the two lists swapped.
	for i, l := range all {
		for _, fl := range bools {
			for _, local := range bools {
				if !emit(HistC{Proto: 2, Float: fl, Local: local, Second: true, Pos: l, Neg: all[(i+1)%len(all)]}) {
					return false
				}
			}
		}
	}
	// H4: custom-bucket histograms (first offset >= 0: the spans index the list of custom bounds).
	for _, l := range all {
		if len(l) > 0 && l[0][0] < 0 {
			continue
		}
		for _, proto := range []int{2, 1} {
			for _, fl := range bools {
				for _, local := range bools {
					if !emit(HistC{Proto: proto, Float: fl, Custom: true, Local: local, Pos: l}) {
						return false
					}
				}
			}
		}
	}
	return true
}

func v2Spans(l []Span) []writev2.BucketSpan {
	var out []writev2.BucketSpan
	for _, s := range l {
		out = append(out, writev2.BucketSpan{Offset: s[0], Length: uint32(s[1])})
	}
	return out
}

func nBuckets(l []Span) int {
	n := 0
	for _, s := range l {
		n += int(s[1])
	}
	return n
}

var customBounds = func() []float64 {
	out := make([]float64, 24)
	for i := range out {
		out[i] = 0.5 + float64(i)
	}
	return out
}()

// buildHist makes a VALID native histogram with the given span lists: bucket k of the positive side holds
// 1+2+..+(k+1) observations (deltas 1,2,3,..), bucket k of the negative side 2(k+1) (deltas 2,2,..); the float
// variant holds the same numbers + 0.5. Every bucket value of a side is distinct, so a moved bucket is visible.
func buildHist(h HistC, pos, neg []Span, ts int64) writev2.Histogram {
	out := writev2.Histogram{Sum: 2.5, Schema: 1, ZeroThreshold: 0.001, Timestamp: ts,
		PositiveSpans: v2Spans(pos), NegativeSpans: v2Spans(neg), ResetHint: writev2.Histogram_ResetHint(2)}
	zero := uint64(3)
	if h.Custom {
		out.Schema, out.ZeroThreshold, zero = -53, 0, 0
		out.CustomValues = customBounds
	}
	var total uint64
	var pc, nc []uint64
	for k := 0; k < nBuckets(pos); k++ {
		pc = append(pc, uint64((k+1)*(k+2)/2))
		total += pc[k]
	}
	for k := 0; k < nBuckets(neg); k++ {
		nc = append(nc, uint64(2*(k+1)))
		total += nc[k]
	}
	total += zero
	if h.Float {
		for _, c := range pc {
			out.PositiveCounts = append(out.PositiveCounts, float64(c)+0.5)
		}
		for _, c := range nc {
			out.NegativeCounts = append(out.NegativeCounts, float64(c)+0.5)
		}
		out.Count = &writev2.Histogram_CountFloat{CountFloat: float64(total) + 0.5*float64(len(pc)+len(nc))}
		out.ZeroCount = &writev2.Histogram_ZeroCountFloat{ZeroCountFloat: float64(zero)}
		return out
	}
	for k := range pc {
		out.PositiveDeltas = append(out.PositiveDeltas, int64(k+1))
	}
	for range nc {
		out.NegativeDeltas = append(out.NegativeDeltas, 2)
	}
	out.Count = &writev2.Histogram_CountInt{CountInt: total}
	out.ZeroCount = &writev2.Histogram_ZeroCountInt{ZeroCountInt: zero}
	return out
}

// histSeries is the v2 series of a histogram case: labels {__name__="a"} through symbols 1, 2.
func histSeries(h HistC) writev2.TimeSeries {
	ts := writev2.TimeSeries{LabelsRefs: []uint32{1, 2}}
	ts.Histograms = append(ts.Histograms, buildHist(h, h.Pos, h.Neg, 1000))
	if h.Second {
		ts.Histograms = append(ts.Histograms, buildHist(h, h.Neg, h.Pos, 1001))
	}
	return ts
}

// validHist: the described histogram passes the validation of the Prometheus histogram package (self-check of the
// generator: the oracle demands that a request with such a histogram is accepted). Converted by the check itself,
// not by code of the tree under test.
func validHist(p writev2.Histogram) error {
	sp := func(l []writev2.BucketSpan) []histogram.Span {
		var out []histogram.Span
		for _, s := range l {
			out = append(out, histogram.Span{Offset: s.Offset, Length: s.Length})
		}
		return out
	}
	if c, ok := p.Count.(*writev2.Histogram_CountFloat); ok {
		return (&histogram.FloatHistogram{Schema: p.Schema, ZeroThreshold: p.ZeroThreshold, ZeroCount: p.GetZeroCountFloat(), Count: c.CountFloat, Sum: p.Sum,
			PositiveSpans: sp(p.PositiveSpans), PositiveBuckets: p.PositiveCounts, NegativeSpans: sp(p.NegativeSpans), NegativeBuckets: p.NegativeCounts,
			CustomValues: p.CustomValues}).Validate()
	}
	return (&histogram.Histogram{Schema: p.Schema, ZeroThreshold: p.ZeroThreshold, ZeroCount: p.GetZeroCountInt(), Count: p.GetCountInt(), Sum: p.Sum,
		PositiveSpans: sp(p.PositiveSpans), PositiveBuckets: p.PositiveDeltas, NegativeSpans: sp(p.NegativeSpans), NegativeBuckets: p.NegativeDeltas,
		CustomValues: p.CustomValues}).Validate()
}

// ---- the histogram a span list + value list describes: value per absolute bucket index ----

// sideIndexes returns the absolute bucket index of every bucket the spans describe; ok=false when the span list is
// not a well-formed description of n buckets (then the side is compared literally).
func sideIndexes(spans []prompb.BucketSpan, n int) (idx []int64, ok bool) {
	var total uint64
	for i, s := range spans {
		if i > 0 && s.Offset < 0 {
			return nil, false
		}
		total += uint64(s.Length)
	}
	if total != uint64(n) {
		return nil, false
	}
	var cur int64
	for _, s := range spans {
		cur += int64(s.Offset)
		for j := uint32(0); j < s.Length; j++ {
			idx = append(idx, cur)
			cur++
		}
		if cur > math.MaxInt32 || cur < math.MinInt32 {
			return nil, false
		}
	}
	return idx, true
}

// canonSpans is the one span list with maximal runs and no zero-length span that describes the given indexes.
func canonSpans(idx []int64) []prompb.BucketSpan {
	var out []prompb.BucketSpan
	for i, x := range idx {
		switch {
		case i == 0:
			out = append(out, prompb.BucketSpan{Offset: int32(x), Length: 1})
		case x == idx[i-1]+1:
			out[len(out)-1].Length++
		default:
			out = append(out, prompb.BucketSpan{Offset: int32(x - idx[i-1] - 1), Length: 1})
		}
	}
	return out
}

// normHist rewrites the span lists of a histogram into their canonical form (same buckets at the same absolute
// indexes). Two histograms describe the same buckets iff their normal forms are equal. Nothing else is touched.
func normHist(h prompb.Histogram) prompb.Histogram {
	np, nn := len(h.PositiveDeltas), len(h.NegativeDeltas)
	if h.IsFloatHistogram() {
		np, nn = len(h.PositiveCounts), len(h.NegativeCounts)
	}
	if idx, ok := sideIndexes(h.PositiveSpans, np); ok {
		h.PositiveSpans = canonSpans(idx)
	}
	if idx, ok := sideIndexes(h.NegativeSpans, nn); ok {
		h.NegativeSpans = canonSpans(idx)
	}
	return h
}

func normSeries(ss []prompb.TimeSeries) []prompb.TimeSeries {
	out := make([]prompb.TimeSeries, len(ss))
	for i, s := range ss {
		out[i] = s
		out[i].Histograms = nil
		for _, h := range s.Histograms {
			out[i].Histograms = append(out[i].Histograms, normHist(h))
		}
	}
	return out
}

func describeSide(spans []prompb.BucketSpan, deltas []int64, counts []float64, float bool) string {
	n := len(deltas)
	if float {
		n = len(counts)
	}
	idx, ok := sideIndexes(spans, n)
	if !ok {
		return fmt.Sprintf("malformed(spans=%v deltas=%v counts=%v)", spans, deltas, counts)
	}
	var b strings.Builder
	b.WriteString("{")
	var cur int64
	for i, x := range idx {
		if i > 0 {
			b.WriteString(" ")
		}
		if float {
			fmt.Fprintf(&b, "%d:%v", x, counts[i])
		} else {
			cur += deltas[i]
			fmt.Fprintf(&b, "%d:%d", x, cur)
		}
	}
	b.WriteString("}")
	return b.String()
}

// describeHists prints the buckets (absolute index:value) of the histograms of the series.
func describeHists(ss []prompb.TimeSeries) string {
	var b strings.Builder
	for i, s := range ss {
		for j, h := range s.Histograms {
			fl := h.IsFloatHistogram()
			fmt.Fprintf(&b, "[series %d histogram %d: positive %s negative %s]", i, j,
				describeSide(h.PositiveSpans, h.PositiveDeltas, h.PositiveCounts, fl),
				describeSide(h.NegativeSpans, h.NegativeDeltas, h.NegativeCounts, fl))
		}
	}
	return b.String()
}

// shiftingEmptySpan: a zero-length span with a non-zero offset that is followed by a non-empty span.
func shiftingEmptySpan(l []Span) bool {
	for i, s := range l {
		if s[1] == 0 && s[0] != 0 && nBuckets(l[i+1:]) > 0 {
			return true
		}
	}
	return false
}

func hasEmptySpan(l []Span) bool {
	for _, s := range l {
		if s[1] == 0 {
			return true
		}
	}
	return false
}

// evalHist runs one case of the span-layout family.
func evalHist(r *vlib.R, t *testing.T, c Case) {
	h := *c.Hist
	req := buildRequest(c)
	want := []prompb.TimeSeries{refSeries(req.Timeseries[0], req.Symbols)}
	for _, p := range req.Timeseries[0].Histograms {
		if err := validHist(p); err != nil {
			t.Errorf("HARNESS-ERROR generated histogram of %+v is not valid: %v", h, err)
			return
		}
	}
	top := rig.Topology{RF: 1, Nodes: 1, Local: -1}
	if h.Local {
		top.Local = 0
	}
	g := rig.New(top, true)
	defer g.Close()
	var resp rig.Response
	switch h.Proto {
	case 2:
		body, err := req.Marshal()
		if err != nil {
			t.Errorf("HARNESS-ERROR marshal: %v", err)
			return
		}
		resp = g.Do(rig.Request{RawBody: body, Headers: map[string]string{
			"Content-Type":                      "application/x-protobuf;proto=io.prometheus.write.v2.Request",
			"X-Prometheus-Remote-Write-Version": "2.0.0",
		}})
	case 1:
		// the 1.0 request that describes the same series (own copy: the handler may keep or alter what it is given)
		resp = g.Do(rig.Request{Series: []prompb.TimeSeries{refSeries(req.Timeseries[0], req.Symbols)}})
	default:
		t.Errorf("HARNESS-ERROR unknown proto %d", h.Proto)
		return
	}
	stored := g.Stores()
	empty := hasEmptySpan(h.Pos) || hasEmptySpan(h.Neg)
	shifting := shiftingEmptySpan(h.Pos) || shiftingEmptySpan(h.Neg)
	r.Outcome(fmt.Sprintf("hist proto=%d local=%v emptySpan=%v shifting=%v -> status=%d panic=%v stored=%d", h.Proto, h.Local, empty, shifting, resp.Status, resp.Panic != "", len(stored)))
	if empty {
		r.Nontrivial(fmt.Sprintf("hist %+v", h))
	}
	if shifting {
		histShifting.Add(1)
	}
	tag := fmt.Sprintf("remote-write %d.0, ", h.Proto)
	if resp.Panic != "" {
		r.Violation("panic-on-valid-histogram", tag+resp.Panic, c)
		return
	}
	if resp.Status < 200 || resp.Status >= 300 {
		r.Violation("valid-histogram-request-not-accepted", fmt.Sprintf("%sstatus %d %q", tag, resp.Status, resp.Body), c)
		return
	}
	var got []prompb.TimeSeries
	for _, st := range stored {
		if st.Tenant != rig.Tenant {
			r.Violation("ingested-under-wrong-tenant", st.Tenant, c)
			return
		}
		got = append(got, st.TS)
	}
	if sameSeries(want, got) {
		return
	}
	// Which part differs? Buckets (index or value) or something else.
	sig := "ingested-series-differ-from-described"
	if dw, dg := describeHists(want), describeHists(got); dw != dg {
		sig = "ingested-histogram-buckets-differ-from-described"
	}
	where := "a remote peer"
	if h.Local {
		where = "the local appender"
	}
	r.Violation(sig, fmt.Sprintf("%sreceived by %s; buckets as absolute index:value\ndescribed %s\ningested  %s\ndescribed %+v\ningested  %+v",
		tag, where, describeHists(want), describeHists(got), want, got), c)
}

var histShifting atomic.Int64
