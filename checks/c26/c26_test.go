//go:build verif

// C26: a remote-write 2.0 request is ingested with the series (labels, samples, histograms, exemplars) its
// symbol table describes; a request with a symbol reference outside the table gets a client error (4xx) and does
// not crash request handling.
//
// Engine E4 through the real HTTP entry point (receiveHTTP -> handleV2HTTP -> translateV2ToV1 -> handleV1HTTP ->
// fanoutForward) with the rig of C22 in auto mode: every peer accepts and records what was forwarded to it.
package c26

import (
	"bytes"
	"fmt"
	"iter"
	"math"
	"sort"
	"testing"

	"github.com/thanos-io/thanos/pkg/store/labelpb"
	"github.com/thanos-io/thanos/pkg/store/storepb/prompb"
	writev2 "github.com/thanos-io/thanos/pkg/store/storepb/prompb/io/prometheus/write/v2"

	"verif/checks/c22/rig"
	"verif/vlib"
)

// symbol pool: the table of a case is its first NSym entries (entry 0 is the empty string, as the 2.0 spec requires).
var symbolPool = []string{"", "__name__", "a", "b"}

type ExemplarC struct {
	Refs []uint32 `json:"refs"`
}

type SeriesC struct {
	Refs      []uint32    `json:"refs"`    // LabelsRefs of the series
	Payload   int         `json:"payload"` // index into payloads (samples + histograms)
	Exemplars []ExemplarC `json:"exemplars"`
}

type Case struct {
	NSym   int       `json:"nsym"`
	Nodes  int       `json:"nodes"`
	Series []SeriesC `json:"series"`
	Hist   *HistC    `json:"hist,omitempty"` // span-layout family (hist_test.go): one series {__name__="a"} with 1-2 generated histograms; Series is unused
}

var staleNaN = math.Float64frombits(0x7ff0000000000002)

func v2IntHist(ts int64) writev2.Histogram {
	return writev2.Histogram{
		Count: &writev2.Histogram_CountInt{CountInt: 12}, Sum: 18.4, Schema: 1, ZeroThreshold: 0.001,
		ZeroCount:     &writev2.Histogram_ZeroCountInt{ZeroCountInt: 2},
		NegativeSpans: []writev2.BucketSpan{{Offset: 0, Length: 2}, {Offset: 1, Length: 2}}, NegativeDeltas: []int64{1, 1, -1, 0},
		PositiveSpans: []writev2.BucketSpan{{Offset: -3, Length: 1}}, PositiveDeltas: []int64{math.MinInt64},
		ResetHint: writev2.Histogram_ResetHint(2), Timestamp: ts,
	}
}

func v2FloatHist(ts int64) writev2.Histogram {
	return writev2.Histogram{
		Count: &writev2.Histogram_CountFloat{CountFloat: 3}, Sum: math.Inf(-1), Schema: -53, ZeroThreshold: 0,
		ZeroCount:     &writev2.Histogram_ZeroCountFloat{ZeroCountFloat: staleNaN},
		PositiveSpans: []writev2.BucketSpan{{Offset: 0, Length: 2}}, PositiveCounts: []float64{1, 2}, NegativeCounts: []float64{math.Copysign(0, -1)},
		CustomValues: []float64{0.5, math.Inf(1)}, ResetHint: writev2.Histogram_ResetHint(3), Timestamp: ts,
	}
}

type payload struct {
	samples []writev2.Sample
	hists   []writev2.Histogram
}

var payloads = []payload{
	0: {},
	1: {samples: []writev2.Sample{{Timestamp: 1000, Value: 1.5}}},
	2: {samples: []writev2.Sample{{Timestamp: math.MinInt64, Value: math.NaN()}, {Timestamp: math.MaxInt64, Value: staleNaN}}},
	3: {hists: []writev2.Histogram{v2IntHist(5)}},
	4: {hists: []writev2.Histogram{v2FloatHist(6), {}}}, // float custom-bucket histogram, then a histogram with nothing set
	5: {samples: []writev2.Sample{{Timestamp: 0, Value: math.Copysign(0, -1)}}, hists: []writev2.Histogram{v2IntHist(7), v2FloatHist(8)}},
}

// refVectors yields every ref vector of length lo..hi over the given alphabet.
func refVectors(lo, hi int, alpha []uint32) [][]uint32 {
	var out [][]uint32
	for v := range vlib.TuplesUpTo(lo, hi, len(alpha)) {
		x := make([]uint32, len(v))
		for i, j := range v {
			x[i] = alpha[j]
		}
		out = append(out, x)
	}
	return out
}

func refAlphabet(nsym int, thorough bool) []uint32 {
	var a []uint32
	for i := 0; i <= nsym+1; i++ { // nsym and nsym+1 are outside the table
		a = append(a, uint32(i))
	}
	if thorough {
		a = append(a, math.MaxUint32)
	}
	return a
}

func gen(r *vlib.R) iter.Seq[Case] {
	return func(yield func(Case) bool) {
		th := r.Thorough()
		if !genHist(r, yield) { // span-layout family first: a deadline then cuts the tail of the older families
			return
		}
		for nsym := 0; nsym <= len(symbolPool); nsym++ { // 0: empty table, every reference is out of range
			alpha := refAlphabet(nsym, th)
			all := refVectors(0, 4, alpha)
			short := refVectors(0, 2, alpha)
			valid := [][]uint32{{}}
			if nsym >= 1 {
				valid = append(valid, []uint32{0, 0})
			}
			if nsym >= 3 {
				valid = append(valid, []uint32{1, 2})
			}
			// A: one series, every LabelsRefs vector of length 0..4, one sample.
			for _, v := range all {
				if !yield(Case{NSym: nsym, Nodes: 1, Series: []SeriesC{{Refs: v, Payload: 1}}}) {
					return
				}
			}
			// A2: every payload kind x 0..2 exemplars, every short label vector.
			for _, v := range short {
				for p := range payloads {
					for ne := 0; ne <= 2; ne++ {
						ex := make([]ExemplarC, ne)
						for i := range ex {
							ex[i].Refs = valid[(i+1)%len(valid)]
						}
						if !yield(Case{NSym: nsym, Nodes: 1, Series: []SeriesC{{Refs: v, Payload: p, Exemplars: ex}}}) {
							return
						}
					}
				}
			}
			// B: one series with valid labels, one exemplar with every ref vector of length 0..4;
			// two exemplars: (valid, v) and (v, valid) for every short v.
			for _, lv := range valid {
				for _, v := range all {
					if !yield(Case{NSym: nsym, Nodes: 1, Series: []SeriesC{{Refs: lv, Payload: 1, Exemplars: []ExemplarC{{Refs: v}}}}}) {
						return
					}
				}
				for _, v := range short {
					for _, w := range valid {
						for _, swap := range []bool{false, true} {
							ex := []ExemplarC{{Refs: w}, {Refs: v}}
							if swap {
								ex[0], ex[1] = ex[1], ex[0]
							}
							if !yield(Case{NSym: nsym, Nodes: 1, Series: []SeriesC{{Refs: lv, Payload: 0, Exemplars: ex}}}) {
								return
							}
						}
					}
				}
			}
			// C: two series on a two-node ring: (valid, v) and (v, valid) for every short v; both short (thorough).
			for _, v := range short {
				for _, w := range valid {
					for _, swap := range []bool{false, true} {
						ss := []SeriesC{{Refs: w, Payload: 1}, {Refs: v, Payload: 3}}
						if swap {
							ss[0], ss[1] = ss[1], ss[0]
						}
						if !yield(Case{NSym: nsym, Nodes: 2, Series: ss}) {
							return
						}
					}
				}
			}
			if th {
				for _, v := range short {
					for _, w := range short {
						if !yield(Case{NSym: nsym, Nodes: 2, Series: []SeriesC{{Refs: v, Payload: 2}, {Refs: w, Payload: 5, Exemplars: []ExemplarC{{Refs: v}}}}}) {
							return
						}
					}
				}
			}
			// D: faithful translation of requests with 2-3 valid series of every payload pair.
			for p := range payloads {
				for q := range payloads {
					for _, lv := range valid {
						ss := []SeriesC{
							{Refs: lv, Payload: p, Exemplars: []ExemplarC{{Refs: valid[0]}}},
							{Refs: valid[len(valid)-1], Payload: q},
							{Refs: lv, Payload: q, Exemplars: []ExemplarC{{Refs: lv}, {Refs: valid[len(valid)-1]}}},
						}
						for n := 2; n <= 3; n++ {
							if !yield(Case{NSym: nsym, Nodes: 2, Series: ss[:n]}) {
								return
							}
						}
					}
				}
			}
		}
	}
}

func buildRequest(c Case) writev2.Request {
	req := writev2.Request{Symbols: append([]string(nil), symbolPool[:c.NSym]...)}
	if c.Hist != nil {
		req.Timeseries = append(req.Timeseries, histSeries(*c.Hist))
		return req
	}
	for _, s := range c.Series {
		ts := writev2.TimeSeries{LabelsRefs: s.Refs, Samples: payloads[s.Payload].samples, Histograms: payloads[s.Payload].hists}
		for i, e := range s.Exemplars {
			ts.Exemplars = append(ts.Exemplars, writev2.Exemplar{LabelsRefs: e.Refs, Value: float64(i) + 0.25, Timestamp: 100 + int64(i)})
		}
		req.Timeseries = append(req.Timeseries, ts)
	}
	return req
}

// classification of a ref vector against a table of n symbols
func outOfRange(refs []uint32, n int) bool {
	for _, x := range refs {
		if int64(x) >= int64(n) {
			return true
		}
	}
	return false
}

// outOfRangePaired: an out-of-range ref at a position that forms a (name, value) pair (the trailing ref of an
// odd-length vector is unpaired).
func outOfRangePaired(refs []uint32, n int) bool {
	return outOfRange(refs[:len(refs)-len(refs)%2], n)
}

func refLabels(refs []uint32, syms []string) []labelpb.ZLabel {
	out := make([]labelpb.ZLabel, 0, len(refs)/2)
	for i := 0; i+1 < len(refs); i += 2 {
		out = append(out, labelpb.ZLabel{Name: syms[refs[i]], Value: syms[refs[i+1]]})
	}
	return out
}

func refSpans(s []writev2.BucketSpan) []prompb.BucketSpan {
	var out []prompb.BucketSpan
	for _, x := range s {
		out = append(out, prompb.BucketSpan{Offset: x.Offset, Length: x.Length})
	}
	return out
}

// refSeries is the reference: the v1 series a v2 series describes (only called when every paired ref is in range).
func refSeries(t writev2.TimeSeries, syms []string) prompb.TimeSeries {
	out := prompb.TimeSeries{Labels: refLabels(t.LabelsRefs, syms)}
	for _, s := range t.Samples {
		out.Samples = append(out.Samples, prompb.Sample{Timestamp: s.Timestamp, Value: s.Value})
	}
	for _, e := range t.Exemplars {
		out.Exemplars = append(out.Exemplars, prompb.Exemplar{Labels: refLabels(e.LabelsRefs, syms), Value: e.Value, Timestamp: e.Timestamp})
	}
	for _, h := range t.Histograms {
		o := prompb.Histogram{
			Sum: h.Sum, Schema: h.Schema, ZeroThreshold: h.ZeroThreshold,
			NegativeSpans: refSpans(h.NegativeSpans), NegativeDeltas: h.NegativeDeltas, NegativeCounts: h.NegativeCounts,
			PositiveSpans: refSpans(h.PositiveSpans), PositiveDeltas: h.PositiveDeltas, PositiveCounts: h.PositiveCounts,
			ResetHint: prompb.Histogram_ResetHint(h.ResetHint), Timestamp: h.Timestamp, CustomValues: h.CustomValues,
		}
		switch c := h.Count.(type) {
		case *writev2.Histogram_CountInt:
			o.Count = &prompb.Histogram_CountInt{CountInt: c.CountInt}
		case *writev2.Histogram_CountFloat:
			o.Count = &prompb.Histogram_CountFloat{CountFloat: c.CountFloat}
		}
		switch c := h.ZeroCount.(type) {
		case *writev2.Histogram_ZeroCountInt:
			o.ZeroCount = &prompb.Histogram_ZeroCountInt{ZeroCountInt: c.ZeroCountInt}
		case *writev2.Histogram_ZeroCountFloat:
			o.ZeroCount = &prompb.Histogram_ZeroCountFloat{ZeroCountFloat: c.ZeroCountFloat}
		}
		out.Histograms = append(out.Histograms, o)
	}
	return out
}

// sameSeries: the two multisets of series are equal: labels, samples, exemplars and every histogram field byte for
// byte (protobuf encoding), except that bucket span lists are compared by what they describe (the absolute index of
// every bucket, see normHist), not by how the list is cut into spans.
func sameSeries(want, got []prompb.TimeSeries) bool {
	wb, gb := canon(normSeries(want)), canon(normSeries(got))
	if len(wb) != len(gb) {
		return false
	}
	for i := range wb {
		if !bytes.Equal(wb[i], gb[i]) {
			return false
		}
	}
	return true
}

func canon(ss []prompb.TimeSeries) [][]byte {
	out := make([][]byte, 0, len(ss))
	for i := range ss {
		b, err := ss[i].Marshal()
		if err != nil {
			panic(err)
		}
		out = append(out, b)
	}
	sort.Slice(out, func(i, j int) bool { return bytes.Compare(out[i], out[j]) < 0 })
	return out
}

func TestCheck(t *testing.T) {
	r := vlib.New(t, "C26")
	defer r.Finish()
	r.Rule("v2 requests over symbol tables of 0..4 entries; refs from {0..size+1} (size, size+1 out of range; thorough adds MaxUint32): every series LabelsRefs vector of length 0..4, " +
		"every exemplar LabelsRefs vector of length 0..4 under valid series labels, (valid, any) pairs of exemplars and of series, all payload kinds (0-2 samples, int/float/custom-bucket/unset " +
		"histograms) x 0-2 exemplars, 2-3 valid series on a 2-node ring; sent through the real HTTP handler; non-trivial = distinct case with an out-of-range reference, " +
		"or a valid case with at least one label pair. Span-layout family: valid native histograms whose bucket span lists are every list of 0..3 spans (thorough 0..4) with first offset in {0,2,-1}, " +
		"later offsets in {0,2}, lengths in {1,0,2} (zero-length spans leading / in the middle / trailing, offset 0 and > 0) on the positive side, on the negative side (other side empty or a fixed " +
		"list with a shifting zero-length span), all pairs of short lists, two histograms in one series, custom-bucket schema; integer and float; sent as a 2.0 and as a 1.0 request; ingested by a " +
		"remote peer and by the handler's own Writer; non-trivial there = distinct case with a zero-length span")
	r.Assume("a reference is out of range iff it is >= len(symbols); every such reference counts, also the unpaired last entry of an odd-length vector",
		"for odd-length vectors with all references in range nothing is asserted about the labels beyond: either a 4xx, or the paired prefix is ingested",
		"peers accept and record whatever is forwarded (stubs of checks/c22/rig in auto mode; replication factor 1, handler outside the ring); "+
			"metadata references, start timestamps and relabelling are not enumerated",
		"in production net/http recovers a handler panic by aborting the connection; the check calls the handler function directly and recovers the panic itself",
		"histograms are the same iff every scalar field is equal and each side has the same value at the same absolute bucket index: span lists are compared after rewriting them into the unique "+
			"list of maximal non-empty runs (a translation that merges, splits or drops zero-length spans without moving a bucket is accepted); a side whose span lengths do not add up to its number of values is compared literally",
		"local ingestion = the real receive.Writer on top of a recording storage.Appender (checks/c22/rig), which turns the appended histogram.Histogram back into its protobuf form; no TSDB")
	defer func() { r.Add("hist_cases_with_zero_length_span_that_shifts_later_buckets", histShifting.Load()) }()
	vlib.ForEach(r, gen(r), func(c Case) {
		r.Sample(c)
		if c.Hist != nil {
			evalHist(r, t, c)
			return
		}
		req := buildRequest(c)
		body, err := req.Marshal()
		if err != nil {
			t.Errorf("HARNESS-ERROR marshal: %v", err)
			return
		}
		// classify
		oorSeries, oorEx, oorUnpairedOnly, odd := false, false, false, false
		for _, s := range c.Series {
			if outOfRange(s.Refs, c.NSym) {
				oorSeries = true
				if !outOfRangePaired(s.Refs, c.NSym) {
					oorUnpairedOnly = true
				}
			}
			if len(s.Refs)%2 == 1 {
				odd = true
			}
			for _, e := range s.Exemplars {
				if outOfRange(e.Refs, c.NSym) {
					oorEx = true
					if !outOfRangePaired(e.Refs, c.NSym) {
						oorUnpairedOnly = true
					}
				}
				if len(e.Refs)%2 == 1 {
					odd = true
				}
			}
		}
		pairedOOR := false
		for _, s := range c.Series {
			if outOfRangePaired(s.Refs, c.NSym) {
				pairedOOR = true
			}
			for _, e := range s.Exemplars {
				if outOfRangePaired(e.Refs, c.NSym) {
					pairedOOR = true
				}
			}
		}
		g := rig.New(rig.Topology{RF: 1, Nodes: c.Nodes, Local: -1}, true)
		defer g.Close()
		resp := g.Do(rig.Request{RawBody: body, Headers: map[string]string{
			"Content-Type":                      "application/x-protobuf;proto=io.prometheus.write.v2.Request",
			"X-Prometheus-Remote-Write-Version": "2.0.0",
		}})
		stored := g.Stores()
		r.Outcome(fmt.Sprintf("oorSeries=%v oorExemplar=%v odd=%v -> status=%d panic=%v stored=%d", oorSeries, oorEx, odd, resp.Status, resp.Panic != "", len(stored)))
		if oorSeries || oorEx {
			r.Nontrivial(fmt.Sprint(c))
			where := "series"
			if !oorSeries {
				where = "exemplar"
			}
			switch {
			case resp.Panic != "":
				r.Violation("panic-on-out-of-range-"+where+"-label-ref", fmt.Sprintf("request handling panicked (%s) for a table of %d symbols and request %+v", resp.Panic, c.NSym, c.Series), c)
			case resp.Status >= 400 && resp.Status < 500:
				if len(stored) > 0 {
					r.Add("rejected_request_partially_ingested", 1)
				}
			case !pairedOOR && oorUnpairedOnly:
				r.Violation("unpaired-out-of-range-ref-not-rejected", fmt.Sprintf("status %d for a table of %d symbols and request %+v (the out-of-range reference is the unpaired last entry of an odd-length vector)", resp.Status, c.NSym, c.Series), c)
			default:
				r.Violation("out-of-range-"+where+"-label-ref-not-rejected-with-4xx", fmt.Sprintf("status %d %q for a table of %d symbols and request %+v", resp.Status, resp.Body, c.NSym, c.Series), c)
			}
			return
		}
		// every reference is in range
		if resp.Panic != "" {
			r.Violation("panic-on-valid-references", resp.Panic, c)
			return
		}
		if odd && resp.Status >= 400 && resp.Status < 500 {
			return // rejecting an odd-length vector is acceptable
		}
		if resp.Status < 200 || resp.Status >= 300 {
			r.Violation("valid-request-not-accepted", fmt.Sprintf("status %d %q", resp.Status, resp.Body), c)
			return
		}
		var want []prompb.TimeSeries
		for _, ts := range req.Timeseries {
			want = append(want, refSeries(ts, req.Symbols))
		}
		var got []prompb.TimeSeries
		for _, st := range stored {
			if st.Tenant != rig.Tenant {
				r.Violation("ingested-under-wrong-tenant", st.Tenant, c)
				return
			}
			got = append(got, st.TS)
		}
		for _, w := range want {
			if len(w.Labels) > 0 {
				r.Nontrivial(fmt.Sprint(c))
			}
		}
		if !sameSeries(want, got) {
			r.Violation("ingested-series-differ-from-described", fmt.Sprintf("described %+v\ningested %+v", want, got), c)
		}
	})
}
