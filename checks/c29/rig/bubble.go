package rig

import (
	"strings"
	"testing"
	"testing/synctest"
)

// Bubble runs f in a synctest bubble (virtual clock). The real code leaks goroutines on some error paths
// (block.ConcurrentLister leaves its 64 workers blocked on a channel that is never closed when the listing or
// an Exists call fails); synctest reports goroutines that are still blocked when the bubble ends with a
// panic. That specific panic is absorbed here and reported as leaked=true: by then f has returned and all
// observations have been made.
func Bubble(t *testing.T, f func(t *testing.T)) (leaked bool) {
	defer func() {
		if p := recover(); p != nil {
			if e, ok := p.(error); ok && strings.Contains(e.Error(), "main bubble goroutine has exited but blocked goroutines remain") {
				leaked = true
				return
			}
			panic(p)
		}
	}()
	synctest.Test(t, f)
	return false
}
