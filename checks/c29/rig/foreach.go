package rig

import (
	"iter"
	"runtime"
	"sync"

	"verif/vlib"
)

// ForEach is vlib.ForEach for expensive cases (hundreds of milliseconds each): the same contract (replay mode,
// shards, deadline -> non-exhaustive, evaluation counting) but cases are handed to the workers one by one
// instead of in batches of 64, so that a few hundred cases still use all cores.
func ForEach[C any](r *vlib.R, gen iter.Seq[C], eval func(c C)) {
	var rc C
	if r.ReplayCase(&rc) {
		r.Eval(1)
		eval(rc)
		return
	}
	workers := runtime.GOMAXPROCS(0)
	ch := make(chan C)
	var wg sync.WaitGroup
	for w := 0; w < workers; w++ {
		wg.Add(1)
		go func() {
			defer wg.Done()
			for c := range ch {
				eval(c)
				r.Eval(1)
			}
		}()
	}
	si, sn := r.Shard()
	var idx int64
	for c := range gen {
		idx++
		if sn > 1 && int((idx-1)%int64(sn)) != si {
			continue
		}
		if r.Expired("case enumeration stopped early") {
			break
		}
		ch <- c
	}
	close(ch)
	wg.Wait()
}
