// Package rig is the compactor / store-gateway rig shared by the C29 and C33 checks (engine E2).
//
// It wires the real compactor pieces exactly as cmd/thanos/compact.go:runCompact does and the store-gateway
// side meta fetcher as cmd/thanos/store.go does. cmd/thanos is package main and cannot be imported, so the
// wiring is mirrored here; CheckWiring parses the two source files at start-up and fails with
// "HARNESS-ERROR wiring drift" if one of the mirrored expressions is no longer what the rig assumes. Flag
// defaults (delete-delay, consistency-delay, ignore-deletion-marks-delay, compaction levels) are not
// hard-coded: they are parsed from the sources.
package rig

import (
	"fmt"
	"os"
	"regexp"
	"strconv"
	"strings"
	"sync"
	"time"
	"verif/vlib"

	"github.com/prometheus/common/model"
)

// Wiring holds the values bound from the cmd/thanos sources.
type Wiring struct {
	DeleteDelay           time.Duration // compact --delete-delay default
	CompactConsistency    time.Duration // compact --consistency-delay default
	StoreIgnoreDelay      time.Duration // store --ignore-deletion-marks-delay default
	StoreConsistencyDelay time.Duration // store --consistency-delay default
	Levels                []int64       // compaction ranges in ms
	MetaFetchConcurrency  int
	MaxBlockIndexSize     int64
	// CompactChain / StoreChain: the elements of the []block.MetadataFilter literals of compact.go / store.go in
	// the order written there. The rig instantiates its fetchers in that order (an element it does not know is
	// wiring drift), so a re-ordered chain is exercised as written instead of stopping the check.
	CompactChain []string
	StoreChain   []string
	// CompactIgnoreDelayDiv: the N of `deleteDelay/N` handed to the compactor's deletion-mark filter.
	CompactIgnoreDelayDiv int64
}

// chainLiteral returns the top-level elements of the first `[]block.MetadataFilter{...}` literal after `after`.
func (s src) chainLiteral(what, after string) []string {
	i := strings.Index(s.text, norm(after))
	if i < 0 {
		*s.errs = append(*s.errs, fmt.Sprintf("%s: %s: `%s` not found", s.name, what, norm(after)))
		return nil
	}
	rest := s.text[i:]
	j := strings.Index(rest, "[]block.MetadataFilter{")
	if j < 0 {
		*s.errs = append(*s.errs, fmt.Sprintf("%s: %s: filter chain literal not found", s.name, what))
		return nil
	}
	rest = rest[j+len("[]block.MetadataFilter{"):]
	var out []string
	depth, start := 0, 0
	for k, c := range rest {
		switch c {
		case '(', '{', '[':
			depth++
		case ')', ']':
			depth--
		case ',':
			if depth == 0 {
				if e := strings.TrimSpace(rest[start:k]); e != "" {
					out = append(out, e)
				}
				start = k + 1
			}
		case '}':
			if depth == 0 {
				if e := strings.TrimSpace(rest[start:k]); e != "" {
					out = append(out, e)
				}
				if len(out) == 0 {
					*s.errs = append(*s.errs, fmt.Sprintf("%s: %s: empty filter chain", s.name, what))
				}
				return out
			}
			depth--
		}
	}
	*s.errs = append(*s.errs, fmt.Sprintf("%s: %s: unterminated filter chain literal", s.name, what))
	return nil
}

var (
	wiringOnce sync.Once
	wiring     Wiring
	wiringErr  error
)

func repoDir() string {
	if d := os.Getenv("VERIF_REPO"); d != "" {
		return d
	}
	return "/repo"
}

var wsRe = regexp.MustCompile(`\s+`)

func norm(s string) string { return wsRe.ReplaceAllString(s, " ") }

func stripComments(src string) string {
	var out []string
	for _, l := range strings.Split(src, "\n") {
		if strings.HasPrefix(strings.TrimSpace(l), "//") {
			continue
		}
		out = append(out, l)
	}
	return strings.Join(out, "\n")
}

type src struct {
	name string
	text string // comment-stripped, whitespace-normalised
	errs *[]string
}

func (s src) has(what, frag string) {
	if !strings.Contains(s.text, norm(frag)) {
		*s.errs = append(*s.errs, fmt.Sprintf("%s: %s: expected `%s`", s.name, what, norm(frag)))
	}
}

// ordered requires the fragments to occur in this order (each searched after the previous one).
func (s src) ordered(what string, frags ...string) {
	pos := 0
	for _, f := range frags {
		i := strings.Index(s.text[pos:], norm(f))
		if i < 0 {
			*s.errs = append(*s.errs, fmt.Sprintf("%s: %s: expected `%s` after offset %d", s.name, what, norm(f), pos))
			return
		}
		pos += i + len(norm(f))
	}
}

func (s src) capture(what, re string) string {
	m := regexp.MustCompile(re).FindStringSubmatch(s.text)
	if m == nil {
		*s.errs = append(*s.errs, fmt.Sprintf("%s: %s: pattern %s not found", s.name, what, re))
		return ""
	}
	return m[1]
}

func parseDur(errs *[]string, what, s string) time.Duration {
	if s == "" {
		return 0
	}
	d, err := model.ParseDuration(s)
	if err != nil {
		*errs = append(*errs, fmt.Sprintf("%s: cannot parse duration %q: %v", what, s, err))
		return 0
	}
	return time.Duration(d)
}

func loadWiring() (Wiring, error) {
	var errs []string
	var w Wiring
	read := func(rel string) src {
		b, err := vlib.ReadSource(rel)
		if err != nil {
			errs = append(errs, fmt.Sprintf("cannot read %s: %v", rel, err))
		}
		return src{name: rel, text: norm(stripComments(string(b))), errs: &errs}
	}
	c := read("cmd/thanos/compact.go")
	s := read("cmd/thanos/store.go")
	d := read("cmd/thanos/downsample.go")
	if len(errs) > 0 {
		return w, fmt.Errorf("%s", strings.Join(errs, "; "))
	}

	// --- compact.go: fetcher filters
	if n, err := strconv.ParseInt(c.capture("deletion-mark filter delay", `ignoreDeletionMarkFilter := block\.NewIgnoreDeletionMarkFilter\(logger, insBkt, deleteDelay/(\d+), conf\.blockMetaFetchConcurrency\)`), 10, 64); err == nil && n > 0 {
		w.CompactIgnoreDelayDiv = n
	}
	c.has("deleteDelay binding", `deleteDelay := time.Duration(conf.deleteDelay)`)
	c.has("dedup filter", `duplicateBlocksFilter := block.NewDeduplicateFilter(conf.blockMetaFetchConcurrency)`)
	c.has("no-compact filter", `noCompactMarkerFilter := compact.NewGatherNoCompactionMarkFilter(logger, insBkt, conf.blockMetaFetchConcurrency)`)
	c.has("no-downsample filter", `noDownsampleMarkerFilter := downsample.NewGatherNoDownsampleMarkFilter(logger, insBkt, conf.blockMetaFetchConcurrency)`)
	c.has("label shard filter", `labelShardedMetaFilter := block.NewLabelShardedMetaFilter(relabelConfig, conf.dedupReplicaLabels...)`)
	c.has("consistency filter", `consistencyDelayMetaFilter := block.NewConsistencyDelayMetaFilter(logger, conf.consistencyDelay,`)
	c.has("time partition filter", `timePartitionMetaFilter := block.NewTimePartitionMetaFilter(conf.filterConf.MinTime, conf.filterConf.MaxTime)`)
	w.CompactChain = c.chainLiteral("filter chain", `filters := []block.MetadataFilter{`)
	for _, e := range w.CompactChain {
		switch e {
		case "timePartitionMetaFilter", "labelShardedMetaFilter", "consistencyDelayMetaFilter", "ignoreDeletionMarkFilter",
			"block.NewReplicaLabelRemover(logger, dedupReplicaLabels)", "duplicateBlocksFilter", "noCompactMarkerFilter":
		default:
			errs = append(errs, fmt.Sprintf("compact.go: filter chain element `%s` is unknown to the rig", e))
		}
	}
	c.has("no-downsample filter appended last", `if !conf.disableDownsampling { filters = append(filters, noDownsampleMarkerFilter) }`)
	c.has("listers", `case concurrentDiscovery: blockLister = block.NewConcurrentLister(logger, insBkt) case recursiveDiscovery: blockLister = block.NewRecursiveLister(logger, insBkt)`)
	c.has("base fetcher", `baseMetaFetcher, err := block.NewBaseFetcher(logger, conf.blockMetaFetchConcurrency, insBkt, blockLister, conf.dataDir,`)
	c.has("meta fetcher", `cf := baseMetaFetcher.NewMetaFetcher(`)
	c.has("syncer", `sy, err = compact.NewMetaSyncer( logger, reg, insBkt, cf, duplicateBlocksFilter, ignoreDeletionMarkFilter,`)
	c.has("vertical compaction forced by replica labels", `if len(dedupReplicaLabels) > 0 { enableVerticalCompaction = true`)
	c.has("default merge func", `case "": mergeFunc = storage.NewCompactingChunkSeriesMerger(storage.ChainedSeriesMerge)`)
	c.has("penalty merge func", `case compact.DedupAlgorithmPenalty: mergeFunc = dedup.NewChunkSeriesMerger()`)
	c.has("tsdb compactor", `comp, err := tsdb.NewLeveledCompactor(ctx, reg, logutil.GoKitLogToSlog(logger), levels, downsample.NewPool(), mergeFunc)`)
	c.has("compact dir", `compactDir = path.Join(conf.dataDir, "compact")`)
	c.has("grouper", `grouper := compact.NewDefaultGrouper( logger, insBkt, conf.acceptMalformedIndex, enableVerticalCompaction, reg,`)
	c.has("grouper tail", `metadata.HashFunc(conf.hashFunc), conf.blockFilesConcurrency, conf.compactBlocksFetchConcurrency, )`)
	c.has("planner", `tsdbPlanner := compact.NewPlanner(logger, levels, noCompactMarkerFilter)`)
	c.has("index size planner", `largeIndexFilterPlanner := compact.WithLargeTotalIndexSizeFilter( tsdbPlanner, insBkt, int64(conf.maxBlockIndexSize),`)
	c.has("vertical planner", `if enableVerticalCompaction { planner = compact.WithVerticalCompactionDownsampleFilter(largeIndexFilterPlanner, insBkt,`)
	c.has("non-vertical planner", `} else { planner = largeIndexFilterPlanner }`)
	c.has("blocks cleaner", `blocksCleaner := compact.NewBlocksCleaner(logger, insBkt, ignoreDeletionMarkFilter, deleteDelay,`)
	c.has("bucket compactor", `compactor, err := compact.NewBucketCompactor( logger, sy, grouper, planner, comp, compactDir, insBkt, conf.compactionConcurrency, conf.skipBlockWithOutOfOrderChunks, blocksCleaner, )`)
	c.has("retention map", `retentionByResolution := map[compact.ResolutionLevel]time.Duration{ compact.ResolutionLevelRaw: time.Duration(conf.retentionRaw), compact.ResolutionLevel5m: time.Duration(conf.retentionFiveMin), compact.ResolutionLevel1h: time.Duration(conf.retentionOneHr), }`)
	c.has("cleanPartialMarked", `compact.BestEffortCleanAbortedPartialUploads(ctx, logger, sy.Partial(), insBkt, compactMetrics.partialUploadDeleteAttempts, compactMetrics.blocksCleaned, compactMetrics.blockCleanupFailures, ignoreDeletionMarkFilter.DeletionMarkBlocks())`)
	c.ordered("main loop iteration",
		`compactMainFn := func() error {`,
		`if err := compactor.Compact(ctx); err != nil { return errors.Wrap(err, "compaction") }`,
		`if !conf.disableDownsampling {`,
		`if err := sy.SyncMetas(ctx); err != nil { return errors.Wrap(err, "sync before first pass of downsampling") }`,
		`if err := downsampleBucket(`,
		`if err := sy.SyncMetas(ctx); err != nil { return errors.Wrap(err, "sync before second pass of downsampling") }`,
		`if err := downsampleBucket(`,
		`if err := sy.SyncMetas(ctx); err != nil { return errors.Wrap(err, "sync before retention") }`,
		`if err := compact.ApplyRetentionPolicyByResolution(ctx, logger, insBkt, sy.Metas(), retentionByResolution,`,
		`return cleanPartialMarked() }`,
	)
	c.has("default lister", `Default(string(concurrentDiscovery)).StringVar(&cc.blockListStrategy)`)
	c.has("compaction concurrency 1", `Default("1").IntVar(&cc.compactionConcurrency)`)
	c.has("block files concurrency 1", `Default("1").IntVar(&cc.blockFilesConcurrency)`)
	c.has("blocks fetch concurrency 1", `Default("1").IntVar(&cc.compactBlocksFetchConcurrency)`)
	c.has("vertical compaction default off", `Default("false").BoolVar(&cc.enableVerticalCompaction)`)
	c.has("accept malformed index default off", `Default("false").BoolVar(&cc.acceptMalformedIndex)`)
	c.has("skip OOO chunks default off", `Default("false").BoolVar(&cc.skipBlockWithOutOfOrderChunks)`)
	c.has("hash func default none", `Default("").EnumVar(&cc.hashFunc, "SHA256", "")`)
	c.has("dedup func default empty", `Default("").EnumVar(&cc.dedupFunc, compact.DedupAlgorithmPenalty, "")`)
	c.has("retention default off", `Default("0d").SetValue(&cc.retentionRaw)`)
	c.has("downsampling default on", `Default("false").BoolVar(&cc.disableDownsampling)`)
	c.has("min time default", `Default("0000-01-01T00:00:00Z").SetValue(&cc.filterConf.MinTime)`)
	c.has("max time default", `Default("9999-12-31T23:59:59Z").SetValue(&cc.filterConf.MaxTime)`)
	c.has("max level default", `Default(strconv.Itoa(compactions.maxLevel())).IntVar(&cc.maxCompactionLevel)`)

	w.DeleteDelay = parseDur(&errs, "delete-delay", c.capture("delete-delay default", `Default\("([^"]+)"\)\.SetValue\(&cc\.deleteDelay\)`))
	w.CompactConsistency = parseDur(&errs, "compact consistency-delay", c.capture("consistency-delay default", `Default\("([^"]+)"\)\.DurationVar\(&cc\.consistencyDelay\)`))
	if n, err := strconv.Atoi(c.capture("meta fetch concurrency", `Default\("(\d+)"\)\.IntVar\(&cc\.blockMetaFetchConcurrency\)`)); err == nil {
		w.MetaFetchConcurrency = n
	}
	switch sz := c.capture("max block index size", `Default\("([^"]+)"\)\.BytesVar\(&cc\.maxBlockIndexSize\)`); sz {
	case "64GB":
		w.MaxBlockIndexSize = 64 * 1000 * 1000 * 1000
	default:
		errs = append(errs, "compact.go: max block index size default is "+sz+", rig assumes 64GB")
	}
	lv := c.capture("compaction levels", `compactions = compactionSet\{ ([^}]*)\}`)
	for _, part := range strings.Split(lv, ",") {
		part = strings.TrimSpace(part)
		if part == "" {
			continue
		}
		dur := time.Duration(1)
		for _, f := range strings.Split(part, "*") {
			f = strings.TrimSpace(f)
			switch f {
			case "time.Hour":
				dur *= time.Hour
			default:
				n, err := strconv.Atoi(f)
				if err != nil {
					errs = append(errs, fmt.Sprintf("compact.go: cannot evaluate compaction level %q", part))
					n = 0
				}
				dur *= time.Duration(n)
			}
		}
		w.Levels = append(w.Levels, int64(dur/time.Millisecond))
	}
	if len(w.Levels) < 3 {
		errs = append(errs, fmt.Sprintf("compact.go: parsed only %d compaction levels", len(w.Levels)))
	}

	// --- downsample.go: the rig skips downsampleBucket; that is only right while small raw blocks are skipped.
	d.ordered("downsampleBucket skips short raw blocks",
		`func downsampleBucket(`,
		`case downsample.ResLevel0:`,
		`if m.MaxTime-m.MinTime < downsample.ResLevel1DownsampleRange { continue }`,
	)

	// --- store.go: store-gateway side fetcher
	s.has("store deletion-mark filter", `ignoreDeletionMarkFilter := block.NewIgnoreDeletionMarkFilter(logger, insBkt, time.Duration(conf.ignoreDeletionMarksDelay), conf.blockMetaFetchConcurrency)`)
	w.StoreChain = s.chainLiteral("store filter chain", `block.NewMetaFetcher(`)
	for _, e := range w.StoreChain {
		switch {
		case e == "parquetConvertedBlocksFilter", e == "ignoreDeletionMarkFilter",
			e == "block.NewTimePartitionMetaFilter(conf.filterConf.MinTime, conf.filterConf.MaxTime)",
			e == "block.NewLabelShardedMetaFilter(relabelConfig)",
			strings.HasPrefix(e, "block.NewConsistencyDelayMetaFilter(logger, time.Duration(conf.consistencyDelay),"),
			e == "block.NewDeduplicateFilter(conf.blockMetaFetchConcurrency)":
		default:
			errs = append(errs, fmt.Sprintf("store.go: filter chain element `%s` is unknown to the rig", e))
		}
	}
	s.has("store meta fetcher", `metaFetcher, err := block.NewMetaFetcher(logger, conf.blockMetaFetchConcurrency, insBkt, blockLister, dataDir,`)
	w.StoreIgnoreDelay = parseDur(&errs, "ignore-deletion-marks-delay", s.capture("ignore-deletion-marks-delay default", `Default\("([^"]+)"\)\.SetValue\(&sc\.ignoreDeletionMarksDelay\)`))
	w.StoreConsistencyDelay = parseDur(&errs, "store consistency-delay", s.capture("store consistency-delay default", `Default\("([^"]+)"\)\.SetValue\(&sc\.consistencyDelay\)`))

	if len(errs) > 0 {
		return w, fmt.Errorf("%s", strings.Join(errs, "; "))
	}
	if w.DeleteDelay <= 0 || w.StoreIgnoreDelay <= 0 {
		return w, fmt.Errorf("delete delay %v / store ignore delay %v not positive", w.DeleteDelay, w.StoreIgnoreDelay)
	}
	return w, nil
}

// Fataler is the subset of testing.TB the rig needs.
type Fataler interface {
	Fatalf(format string, args ...any)
	Helper()
}

// CheckWiring parses cmd/thanos/{compact,store,downsample}.go and returns the bound values, or fails the
// test with a HARNESS-ERROR when the mirrored wiring is no longer what the sources say.
func CheckWiring(t Fataler) Wiring {
	t.Helper()
	wiringOnce.Do(func() { wiring, wiringErr = loadWiring() })
	if wiringErr != nil {
		t.Fatalf("HARNESS-ERROR wiring drift: %v", wiringErr)
	}
	return wiring
}
