package rig

import (
	"context"
	"io"
	"strings"
	"sync"

	"github.com/oklog/ulid/v2"
	"github.com/thanos-io/objstore"

	"verif/vcrash"
)

// Bkt extends vcrash.Bucket (which must not be edited) with what the compactor rig needs:
//
//   - every mutating operation and its after-hook run under one lock, so the hook sees a stable bucket even
//     though BlocksCleaner.DeleteMarkedBlocks deletes with 32 goroutines;
//   - concurrent block.Delete calls of different blocks are serialised block by block (a block's deletion
//     ends with the delete of its "<ulid>/" directory marker), which makes "the k-th mutating operation" a
//     deterministic notion (up to which block goes first) and counter-examples replayable;
//   - BeforeMut is called before a mutating operation is attempted (used to snapshot the local disk at the
//     instant of an injected crash).
type Bkt struct {
	*vcrash.Bucket

	mu   sync.Mutex
	cond *sync.Cond
	// block currently being deleted ("" = none)
	delOwner string

	// SerialiseDeletes enables the block-by-block serialisation of deletes.
	SerialiseDeletes bool
	// BeforeMut is called (under the lock) with the 1-based index the operation will get.
	BeforeMut func(idx int, kind, name string)
	// After is called (under the lock) after every successfully applied mutating operation.
	After func(op vcrash.Op)
	// BeforeRead, if set, is called (under the lock) before every read operation (get, getrange, exists, attributes,
	// iter) of a process that is alive. When it returns true the process dies AT that read: the read and every
	// later operation (reads and mutations) fail with vcrash.ErrCrashed, the bucket content stays as it is.
	BeforeRead func(kind, name string) (die bool)
	killed     bool

	readFault    func(kind, name string) string
	faultApplied func(kind, name string)

	// HoldExistsDuringListing makes Exists calls wait until a running top-level listing (Iter of "") has
	// returned. block.ConcurrentLister panics with "send on closed channel" when its listing returns an error
	// while one of its workers is still between Exists and the send of the result (a defect of its own, outside
	// the properties checked with this rig); holding Exists back keeps that race from killing the test binary.
	HoldExistsDuringListing bool
	listMu                  sync.Mutex
	listDone                chan struct{}
}

// NewBkt wraps b.
func NewBkt(b *vcrash.Bucket) *Bkt {
	w := &Bkt{Bucket: b}
	w.cond = sync.NewCond(&w.mu)
	b.AfterMut = func(op vcrash.Op) {
		if w.After != nil {
			w.After(op)
		}
	}
	return w
}

func blockOf(name string) string {
	seg := name
	if i := strings.IndexByte(name, '/'); i >= 0 {
		seg = name[:i]
	}
	if _, err := ulid.Parse(seg); err != nil {
		return ""
	}
	return seg
}

// Dead reports whether the process died (at a mutating operation: vcrash.DieAtMut, or at a read: BeforeRead).
func (w *Bkt) Dead() bool {
	w.mu.Lock()
	defer w.mu.Unlock()
	return w.killed || w.Bucket.Dead()
}

// beforeRead runs the BeforeRead hook; it returns vcrash.ErrCrashed once the process died at a read.
func (w *Bkt) beforeRead(kind, name string) error {
	if w.BeforeRead == nil {
		// set before the process starts and never changed: without it reads take no lock (hooks of other users of
		// this type may read through it while the lock is held)
		return nil
	}
	w.mu.Lock()
	defer w.mu.Unlock()
	if w.killed {
		return vcrash.ErrCrashed
	}
	if !w.Bucket.Dead() && w.BeforeRead(kind, name) {
		w.killed = true
		w.cond.Broadcast()
		return vcrash.ErrCrashed
	}
	return nil
}

func (w *Bkt) Upload(ctx context.Context, name string, r io.Reader, opts ...objstore.ObjectUploadOption) error {
	body, err := io.ReadAll(r)
	if err != nil {
		return err
	}
	w.mu.Lock()
	defer w.mu.Unlock()
	if w.killed {
		return vcrash.ErrCrashed
	}
	if w.BeforeMut != nil {
		w.BeforeMut(w.Bucket.MutCount()+1, "upload", name)
	}
	return w.Bucket.Upload(ctx, name, strings.NewReader(string(body)), opts...)
}

func (w *Bkt) Delete(ctx context.Context, name string) error {
	blk := blockOf(name)
	w.mu.Lock()
	defer w.mu.Unlock()
	if w.SerialiseDeletes && blk != "" {
		for w.delOwner != "" && w.delOwner != blk && !w.Bucket.Dead() && !w.killed {
			w.cond.Wait()
		}
		if !w.killed {
			w.delOwner = blk
		}
	}
	if w.killed {
		return vcrash.ErrCrashed
	}
	if w.BeforeMut != nil {
		w.BeforeMut(w.Bucket.MutCount()+1, "delete", name)
	}
	err := w.Bucket.Delete(ctx, name)
	if w.SerialiseDeletes && blk != "" && (name == blk+"/" || w.Bucket.Dead()) {
		w.delOwner = ""
		w.cond.Broadcast()
	}
	return err
}

func (w *Bkt) WithExpectedErrs(objstore.IsOpFailureExpectedFunc) objstore.Bucket { return w }
func (w *Bkt) ReaderWithExpectedErrs(objstore.IsOpFailureExpectedFunc) objstore.BucketReader {
	return w
}

var _ objstore.InstrumentedBucket = (*Bkt)(nil)

// ---------------------------------------------------------------------------------------------------
// Extra read-fault modes (extension of vcrash's FailRead, which fails the call itself):
//   "body":    Get succeeds but reading the returned body fails;
//   "partial": Iter / IterWithAttributes delivers its first entry and then fails.
// ReadFault is consulted for every get / iter; it returns the mode to apply ("" = none).

// SetReadFault installs the fault chooser; applied is called when the chosen fault really takes effect (a "body"
// fault on an object that does not exist, or a "partial" fault on a listing with fewer than two entries, never does).
func (w *Bkt) SetReadFault(f func(kind, name string) string, applied func(kind, name string)) {
	w.readFault, w.faultApplied = f, applied
}

func (w *Bkt) applied(kind, name string) {
	if w.faultApplied != nil {
		w.faultApplied(kind, name)
	}
}

type failingBody struct{}

func (failingBody) Read([]byte) (int, error) { return 0, vcrash.ErrInjected }
func (failingBody) Close() error             { return nil }

func (w *Bkt) GetRange(ctx context.Context, name string, off, length int64) (io.ReadCloser, error) {
	if err := w.beforeRead("getrange", name); err != nil {
		return nil, err
	}
	return w.Bucket.GetRange(ctx, name, off, length)
}

func (w *Bkt) Attributes(ctx context.Context, name string) (objstore.ObjectAttributes, error) {
	if err := w.beforeRead("attributes", name); err != nil {
		return objstore.ObjectAttributes{}, err
	}
	return w.Bucket.Attributes(ctx, name)
}

func (w *Bkt) Get(ctx context.Context, name string) (io.ReadCloser, error) {
	if err := w.beforeRead("get", name); err != nil {
		return nil, err
	}
	mode := ""
	if w.readFault != nil {
		mode = w.readFault("get", name)
	}
	rc, err := w.Bucket.Get(ctx, name)
	if err != nil || mode != "body" {
		return rc, err
	}
	_ = rc.Close()
	w.applied("get", name)
	return failingBody{}, nil
}

func (w *Bkt) Exists(ctx context.Context, name string) (bool, error) {
	if w.HoldExistsDuringListing {
		w.listMu.Lock()
		ch := w.listDone
		w.listMu.Unlock()
		if ch != nil {
			<-ch
		}
	}
	if err := w.beforeRead("exists", name); err != nil {
		return false, err
	}
	return w.Bucket.Exists(ctx, name)
}

func (w *Bkt) Iter(ctx context.Context, dir string, f func(string) error, o ...objstore.IterOption) error {
	if err := w.beforeRead("iter", dir); err != nil {
		return err
	}
	if w.HoldExistsDuringListing && dir == "" {
		ch := make(chan struct{})
		w.listMu.Lock()
		w.listDone = ch
		w.listMu.Unlock()
		defer func() {
			w.listMu.Lock()
			w.listDone = nil
			w.listMu.Unlock()
			close(ch)
		}()
	}
	mode := ""
	if w.readFault != nil {
		mode = w.readFault("iter", dir)
	}
	if mode != "partial" {
		return w.Bucket.Iter(ctx, dir, f, o...)
	}
	n := 0
	return w.Bucket.Iter(ctx, dir, func(s string) error {
		if n >= 1 {
			w.applied("iter", dir)
			return vcrash.ErrInjected
		}
		n++
		return f(s)
	}, o...)
}

func (w *Bkt) IterWithAttributes(ctx context.Context, dir string, f func(objstore.IterObjectAttributes) error, o ...objstore.IterOption) error {
	if err := w.beforeRead("iter", dir); err != nil {
		return err
	}
	mode := ""
	if w.readFault != nil {
		mode = w.readFault("iter", dir)
	}
	if mode != "partial" {
		return w.Bucket.IterWithAttributes(ctx, dir, f, o...)
	}
	n := 0
	return w.Bucket.IterWithAttributes(ctx, dir, func(a objstore.IterObjectAttributes) error {
		if n >= 1 {
			w.applied("iter", dir)
			return vcrash.ErrInjected
		}
		n++
		return f(a)
	}, o...)
}
