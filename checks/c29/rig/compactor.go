package rig

import (
	"context"
	"fmt"
	"os"
	"path"
	"sync"
	"time"

	"github.com/go-kit/log"
	"github.com/oklog/ulid/v2"
	"github.com/pkg/errors"
	"github.com/prometheus/client_golang/prometheus"
	"github.com/prometheus/common/promslog"
	"github.com/prometheus/prometheus/storage"
	"github.com/prometheus/prometheus/tsdb"
	"github.com/thanos-io/objstore"

	"github.com/thanos-io/thanos/pkg/block"
	"github.com/thanos-io/thanos/pkg/block/metadata"
	"github.com/thanos-io/thanos/pkg/compact"
	"github.com/thanos-io/thanos/pkg/compact/downsample"
	"github.com/thanos-io/thanos/pkg/dedup"
	thanosmodel "github.com/thanos-io/thanos/pkg/model"
)

// Config are the compactor flags the rig varies; everything else is the flag default bound by CheckWiring.
type Config struct {
	Lister        string        `json:"lister"`            // "concurrent" (default) | "recursive"
	Vertical      bool          `json:"vertical"`          // --compact.enable-vertical-compaction
	ReplicaLabels []string      `json:"replica,omitempty"` // --deduplication.replica-label
	DedupFunc     string        `json:"dedup,omitempty"`   // "" | "penalty"
	RetentionRaw  time.Duration `json:"retention_raw,omitempty"`
}

// Compactor is one compactor process: the objects runCompact builds, on a bucket and a data dir.
type Compactor struct {
	W   Wiring
	Cfg Config
	Bkt objstore.InstrumentedBucket

	logger   log.Logger
	dataDir  string
	sy       *compact.Syncer
	bc       *compact.BucketCompactor
	ignDel   *block.IgnoreDeletionMarkFilter
	noDown   *downsample.GatherNoDownsampleMarkFilter
	ret      map[compact.ResolutionLevel]time.Duration
	counters map[string]prometheus.Counter
	cleanMtx sync.Mutex

	// Sync instrumentation (rig only): number of fetcher syncs started, whether one is in progress.
	mu      sync.Mutex
	syncs   int
	inSync  bool
	OnSync  func(n int, start bool, err error)
	lastErr error
}

// syncFetcher wraps the compactor's MetaFetcher to let the rig know when a sync is in progress. It adds no
// behaviour: Fetch is passed through.
type syncFetcher struct {
	c     *Compactor
	inner block.MetadataFetcher
}

func (f *syncFetcher) Fetch(ctx context.Context) (map[ulid.ULID]*metadata.Meta, map[ulid.ULID]error, error) {
	c := f.c
	c.mu.Lock()
	c.syncs++
	n := c.syncs
	c.inSync = true
	cb := c.OnSync
	c.mu.Unlock()
	if cb != nil {
		cb(n, true, nil)
	}
	m, p, err := f.inner.Fetch(ctx)
	c.mu.Lock()
	c.inSync = false
	c.mu.Unlock()
	if cb != nil {
		cb(n, false, err)
	}
	return m, p, err
}

func (f *syncFetcher) UpdateOnChange(l func([]metadata.Meta, error)) { f.inner.UpdateOnChange(l) }

// InSync reports whether a fetcher sync is in progress and its 1-based index.
func (c *Compactor) InSync() (bool, int) {
	c.mu.Lock()
	defer c.mu.Unlock()
	return c.inSync, c.syncs
}

// Syncs is the number of fetcher syncs started so far.
func (c *Compactor) Syncs() int { c.mu.Lock(); defer c.mu.Unlock(); return c.syncs }

func counter(name string) prometheus.Counter {
	return prometheus.NewCounter(prometheus.CounterOpts{Name: name})
}

// NewCompactor mirrors cmd/thanos/compact.go:runCompact up to the construction of compactMainFn.
func NewCompactor(w Wiring, cfg Config, bkt objstore.InstrumentedBucket, dataDir string, logger log.Logger) (*Compactor, error) {
	if logger == nil {
		logger = log.NewNopLogger()
	}
	c := &Compactor{W: w, Cfg: cfg, Bkt: bkt, logger: logger, dataDir: dataDir, counters: map[string]prometheus.Counter{}}
	for _, n := range []string{"marked_deletion", "gc_blocks", "marked_nocompact_ooo", "marked_nocompact_index", "marked_nocompact_vertical", "cleaned", "cleanup_failures", "partial_delete_attempts"} {
		c.counters[n] = counter("rig_" + n)
	}
	reg := prometheus.NewRegistry()
	insBkt := bkt
	deleteDelay := w.DeleteDelay
	conc := w.MetaFetchConcurrency

	var minT, maxT thanosmodel.TimeOrDurationValue
	if err := minT.Set("0000-01-01T00:00:00Z"); err != nil {
		return nil, err
	}
	if err := maxT.Set("9999-12-31T23:59:59Z"); err != nil {
		return nil, err
	}

	ignoreDeletionMarkFilter := block.NewIgnoreDeletionMarkFilter(logger, insBkt, deleteDelay/time.Duration(w.CompactIgnoreDelayDiv), conc)
	duplicateBlocksFilter := block.NewDeduplicateFilter(conc)
	noCompactMarkerFilter := compact.NewGatherNoCompactionMarkFilter(logger, insBkt, conc)
	noDownsampleMarkerFilter := downsample.NewGatherNoDownsampleMarkFilter(logger, insBkt, conc)
	labelShardedMetaFilter := block.NewLabelShardedMetaFilter(nil, cfg.ReplicaLabels...)
	consistencyDelayMetaFilter := block.NewConsistencyDelayMetaFilter(logger, w.CompactConsistency, reg)
	timePartitionMetaFilter := block.NewTimePartitionMetaFilter(minT, maxT)

	var blockLister block.Lister
	switch cfg.Lister {
	case "", "concurrent":
		blockLister = block.NewConcurrentLister(logger, insBkt)
	case "recursive":
		blockLister = block.NewRecursiveLister(logger, insBkt)
	default:
		return nil, errors.Errorf("unknown sync strategy %s", cfg.Lister)
	}
	baseMetaFetcher, err := block.NewBaseFetcher(logger, conc, insBkt, blockLister, dataDir, reg)
	if err != nil {
		return nil, errors.Wrap(err, "create meta fetcher")
	}

	enableVerticalCompaction := cfg.Vertical
	dedupReplicaLabels := cfg.ReplicaLabels
	if len(dedupReplicaLabels) > 0 {
		enableVerticalCompaction = true
	}

	// the chain in the order written in cmd/thanos/compact.go (Wiring.CompactChain)
	var filters []block.MetadataFilter
	for _, e := range w.CompactChain {
		switch e {
		case "timePartitionMetaFilter":
			filters = append(filters, timePartitionMetaFilter)
		case "labelShardedMetaFilter":
			filters = append(filters, labelShardedMetaFilter)
		case "consistencyDelayMetaFilter":
			filters = append(filters, consistencyDelayMetaFilter)
		case "ignoreDeletionMarkFilter":
			filters = append(filters, ignoreDeletionMarkFilter)
		case "block.NewReplicaLabelRemover(logger, dedupReplicaLabels)":
			filters = append(filters, block.NewReplicaLabelRemover(logger, dedupReplicaLabels))
		case "duplicateBlocksFilter":
			filters = append(filters, duplicateBlocksFilter)
		case "noCompactMarkerFilter":
			filters = append(filters, noCompactMarkerFilter)
		default:
			return nil, errors.Errorf("HARNESS-ERROR wiring drift: compact.go filter chain element %q", e)
		}
	}
	// downsampling is enabled by default
	filters = append(filters, noDownsampleMarkerFilter)
	cf := baseMetaFetcher.NewMetaFetcher(reg, filters)

	sy, err := compact.NewMetaSyncer(logger, reg, insBkt, &syncFetcher{c: c, inner: cf}, duplicateBlocksFilter, ignoreDeletionMarkFilter,
		c.counters["marked_deletion"], c.counters["gc_blocks"], 0 /* syncMetasTimeout: waitInterval only bounds a sync, not modelled */)
	if err != nil {
		return nil, errors.Wrap(err, "create syncer")
	}

	levels := w.Levels
	ctx := context.Background()

	var mergeFunc storage.VerticalChunkSeriesMergeFunc
	switch cfg.DedupFunc {
	case compact.DedupAlgorithmPenalty:
		mergeFunc = dedup.NewChunkSeriesMerger()
		if len(dedupReplicaLabels) == 0 {
			return nil, errors.New("penalty based deduplication needs at least one replica label specified")
		}
	case "":
		mergeFunc = storage.NewCompactingChunkSeriesMerger(storage.ChainedSeriesMerge)
	default:
		return nil, errors.Errorf("unsupported deduplication func, got %s", cfg.DedupFunc)
	}

	comp, err := tsdb.NewLeveledCompactor(ctx, reg, promslog.NewNopLogger(), levels, downsample.NewPool(), mergeFunc)
	if err != nil {
		return nil, errors.Wrap(err, "create compactor")
	}

	compactDir := path.Join(dataDir, "compact")
	downsamplingDir := path.Join(dataDir, "downsample")
	if err := os.MkdirAll(compactDir, os.ModePerm); err != nil {
		return nil, err
	}
	if err := os.MkdirAll(downsamplingDir, os.ModePerm); err != nil {
		return nil, err
	}

	grouper := compact.NewDefaultGrouper(
		logger,
		insBkt,
		false, // acceptMalformedIndex
		enableVerticalCompaction,
		reg,
		c.counters["marked_deletion"],
		c.counters["gc_blocks"],
		c.counters["marked_nocompact_ooo"],
		metadata.HashFunc(""),
		1, // blockFilesConcurrency
		1, // compactBlocksFetchConcurrency
	)
	var planner compact.Planner
	tsdbPlanner := compact.NewPlanner(logger, levels, noCompactMarkerFilter)
	largeIndexFilterPlanner := compact.WithLargeTotalIndexSizeFilter(tsdbPlanner, insBkt, w.MaxBlockIndexSize, c.counters["marked_nocompact_index"])
	if enableVerticalCompaction {
		planner = compact.WithVerticalCompactionDownsampleFilter(largeIndexFilterPlanner, insBkt, c.counters["marked_nocompact_vertical"])
	} else {
		planner = largeIndexFilterPlanner
	}
	blocksCleaner := compact.NewBlocksCleaner(logger, insBkt, ignoreDeletionMarkFilter, deleteDelay, c.counters["cleaned"], c.counters["cleanup_failures"])
	compactor, err := compact.NewBucketCompactor(
		logger,
		sy,
		grouper,
		planner,
		comp,
		compactDir,
		insBkt,
		1,     // compactionConcurrency
		false, // skipBlockWithOutOfOrderChunks
		blocksCleaner,
	)
	if err != nil {
		return nil, errors.Wrap(err, "create bucket compactor")
	}

	c.sy, c.bc, c.ignDel, c.noDown = sy, compactor, ignoreDeletionMarkFilter, noDownsampleMarkerFilter
	c.ret = map[compact.ResolutionLevel]time.Duration{
		compact.ResolutionLevelRaw: cfg.RetentionRaw,
		compact.ResolutionLevel5m:  0,
		compact.ResolutionLevel1h:  0,
	}
	return c, nil
}

// CleanPartialMarked mirrors the cleanPartialMarked closure.
func (c *Compactor) CleanPartialMarked(ctx context.Context) error {
	c.cleanMtx.Lock()
	defer c.cleanMtx.Unlock()
	compact.BestEffortCleanAbortedPartialUploads(ctx, c.logger, c.sy.Partial(), c.Bkt, c.counters["partial_delete_attempts"], c.counters["cleaned"], c.counters["cleanup_failures"], c.ignDel.DeletionMarkBlocks())
	return nil
}

// ErrRigLimit is returned when the bucket reaches a state the rig does not model (a block that the real
// downsampleBucket would process).
var ErrRigLimit = errors.New("HARNESS-ERROR rig limit")

// downsampleNoop stands for downsampleBucket: with only raw blocks shorter than ResLevel1DownsampleRange it
// performs no bucket operation at all (checked against the source by CheckWiring); anything else is outside
// the rig.
func (c *Compactor) downsampleNoop() error {
	filtered := c.sy.Metas()
	for id := range c.noDown.NoDownsampleMarkedBlocks() {
		delete(filtered, id)
	}
	for id, m := range filtered {
		if m.Thanos.Downsample.Resolution != downsample.ResLevel0 || m.MaxTime-m.MinTime >= downsample.ResLevel1DownsampleRange {
			return errors.Wrapf(ErrRigLimit, "block %s would be downsampled (res %d, range %dms)", id, m.Thanos.Downsample.Resolution, m.MaxTime-m.MinTime)
		}
	}
	return nil
}

// Iteration mirrors compactMainFn (one iteration of the compactor main loop, downsampling enabled).
func (c *Compactor) Iteration(ctx context.Context) error {
	if err := c.bc.Compact(ctx); err != nil {
		return errors.Wrap(err, "compaction")
	}

	if err := c.sy.SyncMetas(ctx); err != nil {
		return errors.Wrap(err, "sync before first pass of downsampling")
	}
	if err := c.downsampleNoop(); err != nil {
		return errors.Wrap(err, "first pass of downsampling failed")
	}
	if err := c.sy.SyncMetas(ctx); err != nil {
		return errors.Wrap(err, "sync before second pass of downsampling")
	}
	if err := c.downsampleNoop(); err != nil {
		return errors.Wrap(err, "second pass of downsampling failed")
	}

	if err := c.sy.SyncMetas(ctx); err != nil {
		return errors.Wrap(err, "sync before retention")
	}
	if err := compact.ApplyRetentionPolicyByResolution(ctx, c.logger, c.Bkt, c.sy.Metas(), c.ret, c.counters["marked_deletion"]); err != nil {
		return errors.Wrap(err, "retention failed")
	}
	return c.CleanPartialMarked(ctx)
}

// IsHalt / IsRetry expose the error classes of the main loop.
func IsHalt(err error) bool  { return compact.IsHaltError(err) }
func IsRetry(err error) bool { return compact.IsRetryError(err) }

// Describe is used in evidence.
func (w Wiring) Describe() string {
	return fmt.Sprintf("delete-delay=%v compact-consistency-delay=%v compactor-ignore-marks-after=%v store-ignore-marks-after=%v store-consistency-delay=%v levels(ms)=%v",
		w.DeleteDelay, w.CompactConsistency, w.DeleteDelay/2, w.StoreIgnoreDelay, w.StoreConsistencyDelay, w.Levels)
}
