package rig

import (
	"context"
	"crypto/sha1"
	"encoding/hex"
	"encoding/json"
	"fmt"
	"math"
	"os"
	"path"
	"path/filepath"
	"sort"
	"strings"
	"sync"
	"time"

	"github.com/go-kit/log"
	"github.com/oklog/ulid/v2"
	"github.com/pkg/errors"
	"github.com/prometheus/common/promslog"
	"github.com/prometheus/prometheus/model/labels"
	"github.com/prometheus/prometheus/tsdb"
	"github.com/prometheus/prometheus/tsdb/chunkenc"
	"github.com/thanos-io/objstore"

	"github.com/thanos-io/thanos/pkg/block"
	"github.com/thanos-io/thanos/pkg/block/metadata"
	thanosmodel "github.com/thanos-io/thanos/pkg/model"
)

// Sample is one float sample of one series.
type Sample struct {
	T int64   `json:"t"`
	V float64 `json:"v"`
}

// SeriesSpec is a series with explicit samples (timestamps in ms relative to the block set's base time).
type SeriesSpec struct {
	Labels  map[string]string `json:"labels"`
	Samples []Sample          `json:"samples"`
}

// BlockSpec describes one tiny real TSDB block.
type BlockSpec struct {
	Name   string            `json:"name"` // role name used in evidence / canonical op names
	MinT   int64             `json:"mint"` // ms, absolute
	MaxT   int64             `json:"maxt"`
	Ext    map[string]string `json:"ext"`
	Series []SeriesSpec      `json:"series"`
}

// Objects is a bucket content.
type Objects map[string][]byte

// BuildBlock writes the block with a TSDB head + LeveledCompactor.Write (as e2eutil.CreateBlock does), injects
// the Thanos meta section as a sidecar would, uploads it with the real block.Upload into an in-memory
// bucket and returns the uploaded objects. Must be called where time.Now() is the time the block should
// appear to have been created / uploaded at.
func BuildBlock(ctx context.Context, dir string, spec BlockSpec) (ulid.ULID, Objects, error) {
	headOpts := tsdb.DefaultHeadOptions()
	headOpts.ChunkDirRoot = filepath.Join(dir, "head-chunks-"+spec.Name)
	headOpts.ChunkRange = 10000000000
	h, err := tsdb.NewHead(nil, nil, nil, nil, headOpts, nil)
	if err != nil {
		return ulid.ULID{}, nil, errors.Wrap(err, "create head block")
	}
	defer func() {
		_ = h.Close()
		_ = os.RemoveAll(headOpts.ChunkDirRoot)
	}()
	// append in time order across series
	type pt struct {
		l labels.Labels
		s Sample
	}
	var pts []pt
	for _, s := range spec.Series {
		l := labels.FromMap(s.Labels)
		for _, smp := range s.Samples {
			if smp.T < spec.MinT || smp.T >= spec.MaxT {
				return ulid.ULID{}, nil, errors.Errorf("sample %d outside block %s [%d,%d)", smp.T, spec.Name, spec.MinT, spec.MaxT)
			}
			pts = append(pts, pt{l, smp})
		}
	}
	sort.SliceStable(pts, func(i, j int) bool { return pts[i].s.T < pts[j].s.T })
	app := h.Appender(ctx)
	for _, p := range pts {
		if _, err := app.Append(0, p.l, p.s.T, p.s.V); err != nil {
			_ = app.Rollback()
			return ulid.ULID{}, nil, errors.Wrap(err, "add sample")
		}
	}
	if err := app.Commit(); err != nil {
		return ulid.ULID{}, nil, errors.Wrap(err, "commit")
	}
	c, err := tsdb.NewLeveledCompactor(ctx, nil, promslog.NewNopLogger(), []int64{spec.MaxT - spec.MinT}, nil, nil)
	if err != nil {
		return ulid.ULID{}, nil, errors.Wrap(err, "create compactor")
	}
	ids, err := c.Write(dir, h, spec.MinT, spec.MaxT, nil)
	if err != nil {
		return ulid.ULID{}, nil, errors.Wrap(err, "write block")
	}
	if len(ids) != 1 {
		return ulid.ULID{}, nil, errors.Errorf("expected one block, got %d", len(ids))
	}
	id := ids[0]
	bdir := filepath.Join(dir, id.String())
	if _, err := metadata.InjectThanos(log.NewNopLogger(), bdir, metadata.Thanos{
		Labels:     spec.Ext,
		Downsample: metadata.ThanosDownsample{Resolution: 0},
		Source:     metadata.SidecarSource,
	}, nil); err != nil {
		return id, nil, errors.Wrap(err, "finalize block")
	}
	if err := os.Remove(filepath.Join(bdir, "tombstones")); err != nil {
		return id, nil, errors.Wrap(err, "remove tombstones")
	}
	// The TSDB block range is [mint, maxt) of the *data*; make it the nominal range as a Prometheus 2h block has.
	m, err := metadata.ReadFromDir(bdir)
	if err != nil {
		return id, nil, err
	}
	m.MinTime, m.MaxTime = spec.MinT, spec.MaxT
	if err := m.WriteToDir(log.NewNopLogger(), bdir); err != nil {
		return id, nil, err
	}
	mem := objstore.NewInMemBucket()
	if err := block.Upload(ctx, log.NewNopLogger(), mem, bdir, metadata.NoneFunc); err != nil {
		return id, nil, errors.Wrap(err, "upload")
	}
	_ = os.RemoveAll(bdir)
	return id, Objects(mem.Objects()), nil
}

// RewriteMeta applies f to the meta.json of block id inside objs.
func RewriteMeta(objs Objects, id ulid.ULID, f func(m *metadata.Meta)) error {
	k := path.Join(id.String(), block.MetaFilename)
	var m metadata.Meta
	if err := json.Unmarshal(objs[k], &m); err != nil {
		return errors.Wrapf(err, "meta of %s", id)
	}
	f(&m)
	var sb strings.Builder
	if err := m.Write(&sb); err != nil {
		return err
	}
	objs[k] = []byte(sb.String())
	return nil
}

// DeletionMark returns the content of a deletion-mark.json.
func DeletionMark(id ulid.ULID, at time.Time) []byte {
	b, _ := json.Marshal(metadata.DeletionMark{ID: id, DeletionTime: at.Unix(), Version: metadata.DeletionMarkVersion1, Details: "rig"})
	return b
}

// NoCompactMark returns the content of a no-compact-mark.json.
func NoCompactMark(id ulid.ULID, at time.Time) []byte {
	b, _ := json.Marshal(metadata.NoCompactMark{ID: id, NoCompactTime: at.Unix(), Version: metadata.NoCompactMarkVersion1, Reason: metadata.ManualNoCompactReason, Details: "rig"})
	return b
}

// ---------------------------------------------------------------------------------------------------
// Store-gateway side.

// StoreView runs a fresh (cold, no disk cache) store-gateway meta fetcher, wired as cmd/thanos/store.go wires
// it, on bkt and returns the metas it selects.
func StoreView(ctx context.Context, w Wiring, bkt objstore.Bucket, lister string) (map[ulid.ULID]*metadata.Meta, error) {
	insBkt := objstore.WithNoopInstr(bkt)
	logger := log.NewNopLogger()
	var minT, maxT thanosmodel.TimeOrDurationValue
	_ = minT.Set("0000-01-01T00:00:00Z")
	_ = maxT.Set("9999-12-31T23:59:59Z")
	var blockLister block.Lister
	if lister == "recursive" {
		blockLister = block.NewRecursiveLister(logger, insBkt)
	} else {
		blockLister = block.NewConcurrentLister(logger, insBkt)
	}
	ignoreDeletionMarkFilter := block.NewIgnoreDeletionMarkFilter(logger, insBkt, w.StoreIgnoreDelay, w.MetaFetchConcurrency)
	parquetConvertedBlocksFilter, err := block.NewIgnoreParquetConvertedBlocksFilter(logger, nil, w.MetaFetchConcurrency, nil)
	if err != nil {
		return nil, err
	}
	// the chain in the order written in cmd/thanos/store.go (Wiring.StoreChain)
	var storeChain []block.MetadataFilter
	for _, e := range w.StoreChain {
		switch {
		case e == "parquetConvertedBlocksFilter":
			storeChain = append(storeChain, parquetConvertedBlocksFilter)
		case strings.HasPrefix(e, "block.NewTimePartitionMetaFilter("):
			storeChain = append(storeChain, block.NewTimePartitionMetaFilter(minT, maxT))
		case strings.HasPrefix(e, "block.NewLabelShardedMetaFilter("):
			storeChain = append(storeChain, block.NewLabelShardedMetaFilter(nil))
		case strings.HasPrefix(e, "block.NewConsistencyDelayMetaFilter("):
			storeChain = append(storeChain, block.NewConsistencyDelayMetaFilterWithoutMetrics(logger, w.StoreConsistencyDelay))
		case e == "ignoreDeletionMarkFilter":
			storeChain = append(storeChain, ignoreDeletionMarkFilter)
		case strings.HasPrefix(e, "block.NewDeduplicateFilter("):
			storeChain = append(storeChain, block.NewDeduplicateFilter(w.MetaFetchConcurrency))
		default:
			return nil, fmt.Errorf("HARNESS-ERROR wiring drift: store.go filter chain element %q", e)
		}
	}
	metaFetcher, err := block.NewMetaFetcher(logger, w.MetaFetchConcurrency, insBkt, blockLister, "", nil, storeChain)
	if err != nil {
		return nil, err
	}
	metas, _, err := metaFetcher.Fetch(ctx)
	return metas, err
}

// SampleSet counts samples by key "extlabels-without-replica | series labels | t | value bits".
type SampleSet map[string]int

type blockSamples struct {
	keys []string // one per sample (series labels | t | v), without external labels
	err  error
}

// Reader reads (and memoises, by block content) the samples of blocks stored in a bucket.
type Reader struct {
	tmp   string
	mu    sync.Mutex
	cache map[string]*blockSamples
	// Opens counts blocks really opened.
	Opens int
}

// NewReader creates a reader with scratch space under tmp.
func NewReader(tmp string) *Reader { return &Reader{tmp: tmp, cache: map[string]*blockSamples{}} }

func contentKey(objs map[string][]byte, id ulid.ULID) string {
	pre := id.String() + "/"
	var names []string
	for n := range objs {
		if strings.HasPrefix(n, pre) && (n == pre+block.IndexFilename || strings.HasPrefix(n, pre+block.ChunksDirname+"/")) {
			names = append(names, n)
		}
	}
	sort.Strings(names)
	h := sha1.New()
	for _, n := range names {
		fmt.Fprintf(h, "%s:%d:", n, len(objs[n]))
		h.Write(objs[n])
	}
	return id.String() + ":" + hex.EncodeToString(h.Sum(nil))
}

// BlockSamples returns the samples readable from block m as stored in objs: every file listed in the meta
// must be present with the recorded size, and the block must open and iterate with the Prometheus TSDB
// reader. A block that cannot be read yields an error (a store gateway could not serve it).
func (r *Reader) BlockSamples(objs map[string][]byte, m *metadata.Meta) ([]string, error) {
	pre := m.ULID.String() + "/"
	for _, f := range m.Thanos.Files {
		if f.RelPath == block.MetaFilename {
			continue
		}
		b, ok := objs[pre+f.RelPath]
		if !ok {
			return nil, errors.Errorf("block %s: file %s listed in meta.json is missing", m.ULID, f.RelPath)
		}
		if f.SizeBytes > 0 && int64(len(b)) != f.SizeBytes {
			return nil, errors.Errorf("block %s: file %s has %d bytes, meta.json says %d", m.ULID, f.RelPath, len(b), f.SizeBytes)
		}
	}
	if _, ok := objs[pre+block.IndexFilename]; !ok {
		return nil, errors.Errorf("block %s: index missing", m.ULID)
	}
	key := contentKey(objs, m.ULID)
	r.mu.Lock()
	bs, ok := r.cache[key]
	r.mu.Unlock()
	if ok {
		return bs.keys, bs.err
	}
	bs = &blockSamples{}
	bs.keys, bs.err = r.read(objs, m)
	r.mu.Lock()
	r.cache[key] = bs
	r.Opens++
	r.mu.Unlock()
	return bs.keys, bs.err
}

func (r *Reader) read(objs map[string][]byte, m *metadata.Meta) (keys []string, err error) {
	dir, err := os.MkdirTemp(r.tmp, "rd-")
	if err != nil {
		return nil, err
	}
	defer os.RemoveAll(dir)
	bdir := filepath.Join(dir, m.ULID.String())
	pre := m.ULID.String() + "/"
	if err := os.MkdirAll(filepath.Join(bdir, block.ChunksDirname), 0o755); err != nil {
		return nil, err
	}
	for n, b := range objs {
		if !strings.HasPrefix(n, pre) {
			continue
		}
		rel := strings.TrimPrefix(n, pre)
		if rel != block.IndexFilename && rel != block.MetaFilename && !strings.HasPrefix(rel, block.ChunksDirname+"/") {
			continue
		}
		if err := os.WriteFile(filepath.Join(bdir, rel), b, 0o644); err != nil {
			return nil, err
		}
	}
	defer func() {
		if p := recover(); p != nil {
			err = errors.Errorf("block %s: panic while reading: %v", m.ULID, p)
		}
	}()
	b, err := tsdb.OpenBlock(promslog.NewNopLogger(), bdir, nil, nil)
	if err != nil {
		return nil, errors.Wrapf(err, "open block %s", m.ULID)
	}
	defer b.Close()
	q, err := tsdb.NewBlockQuerier(b, math.MinInt64, math.MaxInt64)
	if err != nil {
		return nil, err
	}
	defer q.Close()
	ss := q.Select(context.Background(), true, nil, labels.MustNewMatcher(labels.MatchEqual, "", ""))
	for ss.Next() {
		s := ss.At()
		lb := s.Labels().String()
		it := s.Iterator(nil)
		for vt := it.Next(); vt != chunkenc.ValNone; vt = it.Next() {
			if vt != chunkenc.ValFloat {
				return nil, errors.Errorf("block %s: unexpected sample type %v", m.ULID, vt)
			}
			t, v := it.At()
			keys = append(keys, fmt.Sprintf("%s|%d|%016x", lb, t, math.Float64bits(v)))
		}
		if err := it.Err(); err != nil {
			return nil, errors.Wrapf(err, "block %s: iterate %s", m.ULID, lb)
		}
	}
	if err := ss.Err(); err != nil {
		return nil, errors.Wrapf(err, "block %s: select", m.ULID)
	}
	return keys, nil
}

// ExtKey renders the external labels of m without the replica labels.
func ExtKey(m *metadata.Meta, replica []string) string {
	l := map[string]string{}
	for k, v := range m.Thanos.Labels {
		l[k] = v
	}
	for _, r := range replica {
		delete(l, r)
	}
	return labels.FromMap(l).String()
}

// Served returns the multiset of samples readable through the blocks in metas, plus the blocks that could not
// be read.
func (r *Reader) Served(objs map[string][]byte, metas map[ulid.ULID]*metadata.Meta, replica []string) (SampleSet, map[ulid.ULID]error) {
	out := SampleSet{}
	bad := map[ulid.ULID]error{}
	for id, m := range metas {
		keys, err := r.BlockSamples(objs, m)
		if err != nil {
			bad[id] = err
			continue
		}
		ext := ExtKey(m, replica)
		for _, k := range keys {
			out[ext+"|"+k]++
		}
	}
	return out, bad
}
