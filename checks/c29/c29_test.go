// C29: compaction never loses or invents data, even if the compactor crashes.
//
// Engine E2 (crash-point enumeration) inside testing/synctest. A compactor wired as cmd/thanos/compact.go wires
// it (package rig, wiring checked against the source at start-up) runs full cycles (iteration, 49h, iteration ...
// until an iteration finds nothing to do) on small sets of real TSDB blocks. A fault-free reference cycle gives
// the number M of mutating bucket operations; for every k <= M the process "dies" at operation k (the operation
// and everything after fails, bucket and local disk are snapshotted at that instant), a fresh compactor is
// started on the snapshot after a delay and runs to quiescence (thorough: with a second crash at every
// operation k2 of the restarted run). At every reachable bucket state - after every applied Upload/Delete of
// every process, after every clock advance, at restart - a cold store-gateway meta fetcher wired as
// cmd/thanos/store.go selects blocks and the samples readable from those blocks (real block files, Prometheus
// TSDB reader) must contain every original sample and nothing else; at quiescence every original sample must be
// served exactly once (samples that differ only by a deduplication replica label are the same sample).
package c29

import (
	"context"
	"encoding/json"
	"fmt"
	"os"
	"path/filepath"
	"runtime"
	"sort"
	"strings"
	"sync"
	"testing"
	"time"

	"github.com/go-kit/log"
	"github.com/oklog/ulid/v2"
	"github.com/thanos-io/thanos/pkg/block"
	"github.com/thanos-io/thanos/pkg/block/metadata"

	"verif/checks/c29/rig"
	"verif/vcrash"
	"verif/vlib"
)

type Case struct {
	Set   string `json:"set"`
	K     int    `json:"k"`      // die at the k-th mutating bucket operation of the cycle (0 = no crash)
	Delay int    `json:"delay"`  // minutes between the crash and the restart
	Disk  string `json:"disk"`   // "kept": data dir as it was at the instant of the crash | "wiped"
	K2    int    `json:"k2"`     // second crash at the k2-th mutating operation of the restarted process (0 = none)
	Store string `json:"store"`  // block lister of the store gateway: concurrent | recursive
	Comp  string `json:"lister"` // block lister of the compactor
	// R > 0 (then K = 0): die at the R-th read crash point of the cycle instead of at a mutating operation. A read
	// crash point is a bucket READ (get, iter, exists, attributes) before which the compactor's local work
	// directory <data-dir>/compact differs from what it was at the previous bucket operation (a source block file
	// was written, the compacted block was written, the group directory was removed): the crash states "between
	// two mutating bucket operations" that differ in what is on the local disk.
	R int `json:"r,omitempty"`
	// R2 > 0 (then K2 = 0): second crash at the R2-th read crash point of the restarted process.
	R2 int `json:"r2,omitempty"`
}

const (
	hour    = int64(3600 * 1000)
	minute  = time.Minute
	maxIter = 12
)

// ---------------------------------------------------------------------------------------------------
// Block sets.

type setDef struct {
	name  string
	cfg   rig.Config
	tier  int // 0 quick+thorough, 1 thorough only
	build func(t0 int64) []rig.BlockSpec
}

func series(name string, ts []int64, salt float64) rig.SeriesSpec {
	s := rig.SeriesSpec{Labels: map[string]string{"__name__": "m", "s": name}}
	for _, t := range ts {
		// the value is a function of (series, timestamp) only: replicas / overlapping blocks carry identical samples
		s.Samples = append(s.Samples, rig.Sample{T: t, V: float64(t%100000)/8 + salt})
	}
	return s
}

func blk(name string, t0, fromH, toH int64, ext map[string]string, offsMin ...int64) rig.BlockSpec {
	mint, maxt := t0+fromH*hour, t0+toH*hour
	if len(offsMin) == 0 {
		offsMin = []int64{0, 30, 75}
	}
	var tx, ty []int64
	for _, o := range offsMin {
		tx = append(tx, mint+o*60000)
	}
	for _, o := range offsMin[:len(offsMin)-1] {
		ty = append(ty, mint+o*60000+15000)
	}
	return rig.BlockSpec{Name: name, MinT: mint, MaxT: maxt, Ext: ext, Series: []rig.SeriesSpec{series("x", tx, 1), series("y", ty, 2)}}
}

var extA = map[string]string{"ext": "a"}

var sets = []setDef{
	{name: "2to1", build: func(t0 int64) []rig.BlockSpec {
		return []rig.BlockSpec{blk("A", t0, 0, 2, extA), blk("B", t0, 2, 4, extA), blk("Y", t0, 8, 10, extA), blk("X", t0, 10, 12, extA)}
	}},
	{name: "4to1", build: func(t0 int64) []rig.BlockSpec {
		return []rig.BlockSpec{blk("A", t0, 0, 2, extA), blk("B", t0, 2, 4, extA), blk("C", t0, 4, 6, extA), blk("D", t0, 6, 8, extA),
			blk("Y", t0, 8, 10, extA), blk("X", t0, 10, 12, extA)}
	}},
	{name: "overlap-vertical", cfg: rig.Config{Vertical: true}, build: func(t0 int64) []rig.BlockSpec {
		// same stream uploaded twice with partly different scrapes: samples at +0 and +30min identical, others differ
		return []rig.BlockSpec{blk("O1", t0, 0, 2, extA, 0, 30, 75), blk("O2", t0, 0, 2, extA, 0, 30, 90, 100)}
	}},
	{name: "replicas", cfg: rig.Config{ReplicaLabels: []string{"replica"}}, build: func(t0 int64) []rig.BlockSpec {
		return []rig.BlockSpec{
			blk("R1", t0, 0, 2, map[string]string{"ext": "a", "replica": "1"}, 0, 30, 75),
			blk("R2", t0, 0, 2, map[string]string{"ext": "a", "replica": "2"}, 0, 30, 90, 100),
			blk("S", t0, 2, 4, map[string]string{"ext": "a", "replica": "1"}),
		}
	}},
	{name: "single", build: func(t0 int64) []rig.BlockSpec { return []rig.BlockSpec{blk("A", t0, 0, 2, extA)} }},
	{name: "replicas-penalty", tier: 1, cfg: rig.Config{ReplicaLabels: []string{"replica"}, DedupFunc: "penalty"}, build: func(t0 int64) []rig.BlockSpec {
		// penalty deduplication keeps one replica per stretch: the replicas are identical so that nothing may go
		return []rig.BlockSpec{
			blk("R1", t0, 0, 2, map[string]string{"ext": "a", "replica": "1"}),
			blk("R2", t0, 0, 2, map[string]string{"ext": "a", "replica": "2"}),
		}
	}},
	{name: "two-level", tier: 1, build: func(t0 int64) []rig.BlockSpec {
		return []rig.BlockSpec{blk("A", t0, 0, 2, extA), blk("B", t0, 2, 4, extA), blk("C", t0, 8, 10, extA), blk("D", t0, 10, 12, extA),
			blk("Y", t0, 48, 50, extA), blk("X", t0, 50, 52, extA)}
	}},
	{name: "two-groups", tier: 1, build: func(t0 int64) []rig.BlockSpec {
		b := map[string]string{"ext": "b"}
		return []rig.BlockSpec{blk("A", t0, 0, 2, extA), blk("B", t0, 2, 4, extA), blk("Y", t0, 8, 10, extA), blk("X", t0, 10, 12, extA),
			blk("P", t0, 0, 2, b), blk("Q", t0, 2, 4, b), blk("V", t0, 8, 10, b), blk("W", t0, 10, 12, b)}
	}},
}

type world struct {
	def      setDef
	objs     rig.Objects
	roles    map[string]string
	original map[string]bool // sample keys (external labels without replica | series | t | v)
	nsamples int
}

func buildWorld(t *testing.T, wi rig.Wiring, def setDef, tmp string, rd *rig.Reader) *world {
	w := &world{def: def, objs: rig.Objects{}, roles: map[string]string{}, original: map[string]bool{}}
	rig.Bubble(t, func(t *testing.T) {
		ctx := context.Background()
		t0 := time.Now().UnixMilli() - 11*24*hour
		if t0%(48*hour) != 0 {
			t.Fatalf("HARNESS-ERROR base time %d not aligned to 2d", t0)
		}
		metas := map[ulid.ULID]*metadata.Meta{}
		for _, spec := range def.build(t0) {
			id, objs, err := rig.BuildBlock(ctx, tmp, spec)
			if err != nil {
				t.Fatalf("HARNESS-ERROR build block %s/%s: %v", def.name, spec.Name, err)
			}
			for k, v := range objs {
				w.objs[k] = v
			}
			w.roles[id.String()] = spec.Name
			time.Sleep(time.Millisecond)
		}
		// the original samples, read back from every uploaded block (not through the store view: whether the store
		// gateway serves them initially is already part of the property) with the reader the oracle uses
		for idStr := range w.roles {
			var m metadata.Meta
			if err := json.Unmarshal(w.objs[idStr+"/"+block.MetaFilename], &m); err != nil {
				t.Fatalf("HARNESS-ERROR meta of %s: %v", idStr, err)
			}
			metas[m.ULID] = &m
		}
		served, bad := rd.Served(w.objs, metas, def.cfg.ReplicaLabels)
		if len(bad) > 0 {
			t.Fatalf("HARNESS-ERROR set %s: unreadable initial blocks %v", def.name, bad)
		}
		for k, n := range served {
			w.original[k] = true
			w.nsamples += n
		}
	})
	return w
}

// ---------------------------------------------------------------------------------------------------
// One simulated history.

// snap is the world at the instant a process dies at a mutating operation: the operation is not applied.
type snap struct {
	op      string // canonical "kind object" of the operation the process dies at
	objs    map[string][]byte
	mod     map[string]time.Time
	disk    string        // copy of the compactor's data dir
	at      time.Duration // virtual time since the start of the bubble
	lastMut time.Duration
	roles   map[string]string
	nnew    int
	key     string // crash state key: "<mutating operations applied>|<work dir signature>"
	work    string // short description of the compaction work dir (read crash points)
	partial bool   // some source block of the work dir is complete (has its index) and some block dir is not
}

// workSig is the signature of the compactor's work directory <data-dir>/compact: relative paths and sizes.
func workSig(dataDir string) string {
	var sb strings.Builder
	root := filepath.Join(dataDir, "compact")
	_ = filepath.Walk(root, func(p string, fi os.FileInfo, err error) error {
		if err != nil || p == root {
			return nil
		}
		rel, _ := filepath.Rel(root, p)
		if fi.IsDir() {
			fmt.Fprintf(&sb, "%s/;", rel)
		} else {
			fmt.Fprintf(&sb, "%s:%d;", rel, fi.Size())
		}
		return nil
	})
	return sb.String()
}

// workState describes the block directories of the work dir: which are complete (meta.json, index and a chunk
// segment are there), by role.
func (h *hist) workState(dataDir string) (desc string, partial bool) {
	groups, _ := os.ReadDir(filepath.Join(dataDir, "compact"))
	var full, part []string
	for _, g := range groups {
		ents, _ := os.ReadDir(filepath.Join(dataDir, "compact", g.Name()))
		for _, e := range ents {
			if !e.IsDir() || !blockDir(e.Name()) {
				continue
			}
			bd := filepath.Join(dataDir, "compact", g.Name(), e.Name())
			_, e1 := os.Stat(filepath.Join(bd, block.MetaFilename))
			_, e2 := os.Stat(filepath.Join(bd, block.IndexFilename))
			segs, _ := os.ReadDir(filepath.Join(bd, block.ChunksDirname))
			if e1 == nil && e2 == nil && len(segs) > 0 {
				full = append(full, h.canon(e.Name()))
			} else {
				part = append(part, h.canon(e.Name()))
			}
		}
	}
	sort.Strings(full)
	sort.Strings(part)
	return fmt.Sprintf("complete=%v incomplete=%v", full, part), len(full) > 0 && len(part) > 0
}

type hist struct {
	t     *testing.T
	r     *vlib.R
	c     Case
	wi    rig.Wiring
	w     *world
	rd    *rig.Reader
	tmp   string
	epoch time.Time // start of the bubble

	mu      sync.Mutex
	roles   map[string]string
	nnew    int
	lastMut time.Time
	trace   []string // canonical history, for counter-example descriptions
	states  int
}

func (h *hist) canon(name string) string {
	seg, rest := name, ""
	if i := strings.IndexByte(name, '/'); i >= 0 {
		seg, rest = name[:i], name[i:]
	}
	if _, err := ulid.Parse(seg); err != nil {
		return name
	}
	h.mu.Lock()
	defer h.mu.Unlock()
	role, ok := h.roles[seg]
	if !ok {
		h.nnew++
		role = fmt.Sprintf("NEW%d", h.nnew)
		h.roles[seg] = role
	}
	return role + rest
}

func (h *hist) logf(format string, a ...any) {
	h.mu.Lock()
	h.trace = append(h.trace, fmt.Sprintf(format, a...))
	h.mu.Unlock()
}

func (h *hist) tail(n int) string {
	h.mu.Lock()
	defer h.mu.Unlock()
	tr := h.trace
	if len(tr) > n {
		tr = tr[len(tr)-n:]
	}
	return strings.Join(tr, "; ")
}

// proc is one compactor process.
type proc struct {
	h        *hist
	b        *vcrash.Bucket
	bkt      *rig.Bkt
	comp     *rig.Compactor
	dir      string
	diskSnap string // data dir at the instant of an injected death

	// read crash points (tracked only when asked)
	lastKey string
	rkeys   []string        // state key of every read crash point
	mkeys   map[string]bool // state keys of the crash states before every mutating operation
}

// startOpt says where a process dies and what is recorded.
type startOpt struct {
	dieAtMut  int     // die at this mutating operation (vcrash.DieAtMut)
	dieAtRead int     // die at this read crash point
	record    *[]snap // append the crash state before every mutating operation
	rrecord   *[]snap // append the crash state at every read crash point
	track     bool    // only count the read crash points
}

// readPoints returns the 1-based indices of the read crash points whose state (mutating operations applied, work
// dir) is not also the crash state of a mutating operation.
func (p *proc) readPoints() []int {
	var out []int
	for i, k := range p.rkeys {
		if !p.mkeys[k] {
			out = append(out, i+1)
		}
	}
	return out
}

func copyDir(src, dst string) error {
	return filepath.Walk(src, func(p string, fi os.FileInfo, err error) error {
		if err != nil {
			return err
		}
		rel, _ := filepath.Rel(src, p)
		to := filepath.Join(dst, rel)
		if fi.IsDir() {
			return os.MkdirAll(to, 0o755)
		}
		if !fi.Mode().IsRegular() {
			return nil
		}
		b, err := os.ReadFile(p)
		if err != nil {
			return err
		}
		return os.WriteFile(to, b, 0o644)
	})
}

func modTimes(b *vcrash.Bucket, objs map[string][]byte) map[string]time.Time {
	out := make(map[string]time.Time, len(objs))
	for name := range objs {
		if a, err := b.Inner().Attributes(context.Background(), name); err == nil {
			out[name] = a.LastModified
		}
	}
	return out
}

// takeSnap copies the world as it is now: the state a crash right now leaves.
func (h *hist) takeSnap(b *vcrash.Bucket, dir, op, diskName, key string) snap {
	objs := b.Objects()
	sn := snap{op: op, objs: objs, mod: modTimes(b, objs), at: time.Since(h.epoch),
		disk: filepath.Join(h.tmp, diskName), roles: map[string]string{}, key: key}
	if err := copyDir(dir, sn.disk); err != nil {
		h.t.Errorf("HARNESS-ERROR disk snapshot: %v", err)
	}
	sn.work, sn.partial = h.workState(dir)
	h.mu.Lock()
	for k, v := range h.roles {
		sn.roles[k] = v
	}
	sn.nnew = h.nnew
	sn.lastMut = h.lastMut.Sub(h.epoch)
	h.mu.Unlock()
	return sn
}

// start creates a compactor process on bucket b and data dir dir. With o.dieAtMut > 0 the process dies at that
// mutating operation (vcrash.DieAtMut), with o.dieAtRead > 0 at that read crash point (rig.Bkt.BeforeRead). With
// o.record / o.rrecord a snapshot of the world is appended before every mutating operation / at every read crash
// point (the state a crash at that operation leaves).
func (h *hist) start(b *vcrash.Bucket, dir string, o startOpt) *proc {
	p := &proc{h: h, b: b, dir: dir, mkeys: map[string]bool{}}
	dieAt := o.dieAtMut
	track := o.track || o.rrecord != nil || o.dieAtRead > 0
	b.DieAtMut = dieAt
	p.bkt = rig.NewBkt(b)
	p.bkt.SerialiseDeletes = true
	p.bkt.HoldExistsDuringListing = true
	p.bkt.BeforeMut = func(idx int, kind, name string) {
		cn := h.canon(name)
		key := ""
		if track || o.record != nil {
			key = fmt.Sprintf("%d|%s", idx-1, workSig(dir))
			p.mkeys[key] = true
			p.lastKey = key
		}
		if o.record != nil {
			*o.record = append(*o.record, h.takeSnap(b, dir, kind+" "+cn, fmt.Sprintf("disk-%03d", idx), key))
		}
		if dieAt > 0 && idx == dieAt {
			// the process dies here: keep the local disk exactly as it is now
			p.diskSnap = filepath.Join(h.tmp, fmt.Sprintf("disk-at-second-crash-%d", idx))
			if err := copyDir(dir, p.diskSnap); err != nil {
				h.t.Errorf("HARNESS-ERROR disk snapshot: %v", err)
			}
			h.logf("CRASH at %s %s", kind, cn)
		}
	}
	if track {
		p.bkt.BeforeRead = func(kind, name string) bool {
			key := fmt.Sprintf("%d|%s", b.MutCount(), workSig(dir))
			if os.Getenv("VERIF_C29_READS") != "" {
				fmt.Fprintf(os.Stderr, "READ %s %s new=%v key=%s\n", kind, h.canon(name), key != p.lastKey, key)
			}
			if key == p.lastKey {
				return false
			}
			p.lastKey = key
			p.rkeys = append(p.rkeys, key)
			n := len(p.rkeys)
			cn := h.canon(name)
			if o.rrecord != nil {
				*o.rrecord = append(*o.rrecord, h.takeSnap(b, dir, kind+" "+cn, fmt.Sprintf("disk-r%03d", n), key))
			}
			if o.dieAtRead == n {
				p.diskSnap = filepath.Join(h.tmp, fmt.Sprintf("disk-at-second-crash-r%d", n))
				if err := copyDir(dir, p.diskSnap); err != nil {
					h.t.Errorf("HARNESS-ERROR disk snapshot: %v", err)
				}
				work, _ := h.workState(dir)
				h.logf("CRASH at %s %s (work dir: %s)", kind, cn, work)
				return true
			}
			return false
		}
	}
	p.bkt.After = func(op vcrash.Op) {
		h.mu.Lock()
		h.lastMut = time.Now()
		h.mu.Unlock()
		h.logf("%s %s", op.Kind, h.canon(op.Name))
		h.check(b, "after "+op.Kind+" "+h.canon(op.Name), false)
	}
	var logger log.Logger
	if os.Getenv("VERIF_RIG_LOG") != "" {
		logger = log.NewLogfmtLogger(os.Stderr)
	}
	cfg := h.w.def.cfg
	cfg.Lister = h.c.Comp
	comp, err := rig.NewCompactor(h.wi, cfg, p.bkt, dir, logger)
	if err != nil {
		h.t.Fatalf("HARNESS-ERROR create compactor: %v", err)
	}
	p.comp = comp
	return p
}

func (h *hist) sleep(b *vcrash.Bucket, d time.Duration) {
	// the store view of an unchanged bucket only changes when a deletion mark crosses the store's
	// ignore-deletion-marks-delay: observe after that threshold and at the end
	step := h.wi.StoreIgnoreDelay + time.Hour
	for d > 0 {
		s := step
		if s > d {
			s = d
		}
		time.Sleep(s)
		d -= s
		h.logf("+%v", s)
		h.check(b, fmt.Sprintf("after the clock advanced by %v", s), false)
	}
}

// cycle runs iterations until quiescence or death. It returns whether quiescence was reached.
func (h *hist) cycle(p *proc) bool {
	settle := h.wi.DeleteDelay + time.Hour // longer than delete delay and than PartialUploadThresholdAge (48h)
	for i := 1; i <= maxIter; i++ {
		before := p.b.MutCount()
		h.logf("iteration")
		err := h.iteration(p)
		if p.bkt.Dead() {
			return false
		}
		muts := p.b.MutCount() - before
		if err != nil {
			h.logf("iteration error: %v", short(err))
			if strings.Contains(err.Error(), "HARNESS-ERROR") {
				h.t.Errorf("%v (case %+v)", err, h.c)
				return false
			}
		}
		h.mu.Lock()
		idle := time.Since(h.lastMut)
		h.mu.Unlock()
		if err == nil && muts == 0 && idle >= settle {
			return true
		}
		h.sleep(p.b, settle)
	}
	return false
}

// iteration runs one iteration of the compactor main loop; a panic of the code under test is a violation.
func (h *hist) iteration(p *proc) (err error) {
	defer func() {
		if rec := recover(); rec != nil {
			err = fmt.Errorf("panic: %v", rec)
			h.r.Violation("compactor-iteration-panicked", fmt.Sprintf("the compactor iteration panicked: %v; history: %s", rec, h.tail(14)), h.c)
		}
	}()
	return p.comp.Iteration(context.Background())
}

func short(err error) string {
	s := err.Error()
	if len(s) > 160 {
		s = s[:160] + "..."
	}
	return s
}

// bucketFrom builds the bucket a new process sees: the given objects with their modification times.
func bucketFrom(objs map[string][]byte, mod map[string]time.Time) *vcrash.Bucket {
	nb := vcrash.FromObjects(objs)
	for name, t := range mod {
		_ = nb.SetLastModified(name, t)
	}
	return nb
}

// check is the oracle, evaluated on the current bucket content and the current (virtual) time.
func (h *hist) check(b *vcrash.Bucket, where string, quiescent bool) {
	h.mu.Lock()
	h.states++
	h.mu.Unlock()
	ctx := context.Background()
	metas, err := rig.StoreView(ctx, h.wi, b.Inner(), h.c.Store)
	if err != nil {
		h.t.Errorf("HARNESS-ERROR store view failed %s: %v", where, err)
		return
	}
	objs := b.Objects()
	served, bad := h.rd.Served(objs, metas, h.w.def.cfg.ReplicaLabels)
	var lost, invented, dup []string
	for k := range h.w.original {
		if served[k] == 0 {
			lost = append(lost, k)
		} else if quiescent && served[k] != 1 {
			dup = append(dup, fmt.Sprintf("%s x%d", k, served[k]))
		}
	}
	for k := range served {
		if !h.w.original[k] {
			invented = append(invented, k)
		}
	}
	if len(lost) == 0 && len(invented) == 0 && len(dup) == 0 {
		return
	}
	sort.Strings(lost)
	sort.Strings(invented)
	sort.Strings(dup)
	var view []string
	for id := range metas {
		s := h.canon(id.String())
		if e, ok := bad[id]; ok {
			s += "(unreadable: " + e.Error() + ")"
		}
		view = append(view, s)
	}
	sort.Strings(view)
	var have []string
	for n := range objs {
		if strings.HasSuffix(n, "/"+block.MetaFilename) || strings.HasSuffix(n, "/"+metadata.DeletionMarkFilename) {
			have = append(have, h.canon(n))
		}
	}
	sort.Strings(have)
	phase := "during-compaction-cycle"
	if h.c.K > 0 || h.c.R > 0 {
		phase = "after-crash-restart"
	}
	if quiescent {
		phase = "at-quiescence"
	}
	desc := func(what string, l []string) string {
		return fmt.Sprintf("%s %s: %d samples %s, e.g. %s; store view=%v; bucket metas/marks=%v; history: %s", what, where, len(l), what, l[0], view, have, h.tail(14))
	}
	switch {
	case len(lost) > 0 && len(bad) > 0:
		h.r.Violation("selected-block-unreadable-"+phase, desc("lost", lost), h.c)
	case len(lost) > 0:
		h.r.Violation("samples-not-served-"+phase, desc("lost", lost), h.c)
	case len(invented) > 0:
		h.r.Violation("samples-invented-"+phase, desc("invented", invented), h.c)
	default:
		h.r.Violation("samples-served-more-than-once-"+phase, desc("duplicated", dup), h.c)
	}
}

type result struct {
	muts      int  // mutating operations attempted by the (restarted) process
	quiescent bool // the last process reached quiescence
	died2     bool // the restarted process died at K2
	blocks    int
	states    int
	snaps     []snap // reference run only: crash states before every mutating operation
	rsnaps    []snap // reference run only: crash states at the read crash points (those that are not in snaps)
	rpts      []int  // read crash points of the (restarted) process, when tracked
}

func (h *hist) finish(last *vcrash.Bucket, dead, q bool, res *result) {
	res.quiescent = q
	if q {
		h.check(last, "at quiescence", true)
		objs := last.Objects()
		for name := range objs {
			if strings.HasSuffix(name, "/"+block.MetaFilename) {
				res.blocks++
			}
			if id := strings.SplitN(name, "/", 2)[0]; blockDir(id) {
				if _, ok := objs[id+"/"+block.MetaFilename]; !ok {
					h.r.Outcome(h.c.Set + ": leftover object without meta.json at quiescence")
				}
			}
		}
	} else if !dead {
		h.r.Outcome(h.c.Set + ": no quiescence within " + fmt.Sprint(maxIter) + " iterations")
		h.r.Note("no quiescence: case %+v history tail: %s", h.c, h.tail(10))
	}
	res.states = h.states
}

func blockDir(s string) bool { _, err := ulid.Parse(s); return err == nil }

// runReference executes the fault-free cycle of a set and records the crash snapshots.
func runReference(t *testing.T, r *vlib.R, wi rig.Wiring, w *world, rd *rig.Reader, tmp string, c Case) (res result) {
	base, err := os.MkdirTemp(tmp, "ref-")
	if err != nil {
		t.Fatalf("HARNESS-ERROR %v", err)
	}
	leaked := rig.Bubble(t, func(t *testing.T) {
		h := &hist{t: t, r: r, c: c, wi: wi, w: w, rd: rd, tmp: base, roles: map[string]string{}, epoch: time.Now()}
		for k, v := range w.roles {
			h.roles[k] = v
		}
		// every bubble starts at the same virtual instant, the one at which the blocks were built: step past it
		time.Sleep(time.Minute)
		b := vcrash.FromObjects(w.objs)
		h.lastMut = time.Now()
		h.check(b, "initially", false)
		h.sleep(b, time.Hour) // past the compactor's consistency delay (30m)
		var rs []snap
		p := h.start(b, filepath.Join(base, "data"), startOpt{record: &res.snaps, rrecord: &rs})
		q := h.cycle(p)
		res.muts = b.MutCount()
		for _, i := range p.readPoints() {
			res.rsnaps = append(res.rsnaps, rs[i-1])
		}
		h.finish(b, false, q, &res)
	})
	if leaked {
		r.Add("runs_with_leaked_goroutines", 1)
	}
	return res
}

// runCase restarts a compactor on crash snapshot K of the reference run and runs it to quiescence (with a
// second crash at K2 if asked).
func runCase(t *testing.T, r *vlib.R, wi rig.Wiring, w *world, rd *rig.Reader, tmp string, c Case, s snap, track bool) (res result) {
	leaked := rig.Bubble(t, func(t *testing.T) {
		base, err := os.MkdirTemp(tmp, "case-")
		if err != nil {
			t.Fatalf("HARNESS-ERROR %v", err)
		}
		defer os.RemoveAll(base)
		h := &hist{t: t, r: r, c: c, wi: wi, w: w, rd: rd, tmp: base, roles: map[string]string{}, epoch: time.Now()}
		for k, v := range s.roles {
			h.roles[k] = v
		}
		h.nnew = s.nnew
		time.Sleep(s.at) // the instant of the crash
		h.lastMut = h.epoch.Add(s.lastMut)
		h.logf("... CRASH at %s", s.op)
		nb := bucketFrom(s.objs, s.mod)
		disk := s.disk
		var q, dead bool
		for gen, o := range []startOpt{{dieAtMut: c.K2, dieAtRead: c.R2, track: track}, {}} {
			h.logf("RESTART after %dm, disk %s", c.Delay, c.Disk)
			h.check(nb, "at the crash", false)
			h.sleep(nb, time.Duration(c.Delay)*minute)
			ndir := filepath.Join(base, fmt.Sprintf("data%d", gen+1))
			if c.Disk == "kept" {
				if err := copyDir(disk, ndir); err != nil {
					t.Fatalf("HARNESS-ERROR %v", err)
				}
			}
			p := h.start(nb, ndir, o)
			q = h.cycle(p)
			if gen == 0 {
				res.muts = nb.MutCount()
				res.rpts = p.readPoints()
			}
			if dead = p.bkt.Dead(); !dead {
				break
			}
			res.died2 = true
			snapObjs := nb.DeathSnapshot()
			if snapObjs == nil {
				snapObjs = nb.Objects() // died at a read: nothing was applied afterwards
			}
			nb, disk = bucketFrom(snapObjs, modTimes(nb, snapObjs)), p.diskSnap
		}
		h.finish(nb, dead, q, &res)
	})
	if leaked {
		r.Add("runs_with_leaked_goroutines", 1)
	}
	return res
}

func TestCheck(t *testing.T) {
	r := vlib.New(t, "C29")
	defer r.Finish()
	wi := rig.CheckWiring(t)
	r.Set("wiring", wi.Describe())
	r.Rule("block set x crash point (k: every mutating bucket operation of the fault-free cycle | r: every read crash point = bucket read before which the compactor's work dir <data-dir>/compact differs from what it was at the previous bucket operation, i.e. every distinct local-disk state of the download / compact / clean-up phases) x restart delay {1m, 25h, 49h} x local disk {kept as at the crash, wiped}; " +
		"second level (restart, second crash at every mutating operation k2 of the restarted process, restart on the kept disk, same delay before every restart): quick = the read crash points of set 2to1 that leave a partly downloaded plan, delay 25h" +
		" [thorough: all combinations, recursive listers, more block sets, second crash at every operation k2 of the restarted process for the 2to1, overlap-vertical, replicas and 4to1 sets with delay 1m (and 25h after read crash points and for 2to1), and at every read crash point r2 of the restarted process (delay 1m; after read crash points, and after every k for 2to1 and replicas)]; " +
		"non-trivial = the restarted process had to change the bucket to finish (second level: the second crash happened)")
	r.Assume("object PUT and DELETE are atomic; a crash is the loss of the process between two bucket operations, the local data dir survives as it was at that instant (or is wiped)",
		"the store gateway is a cold meta fetcher wired as cmd/thanos/store.go evaluated on the current bucket at the current virtual time (sync lag is C34's subject)",
		"BlocksCleaner's concurrent block deletions are serialised block by block (rig.Bkt) so that crash points are deterministic",
		"first-level crash states are the snapshots (bucket objects with modification times, data dir, clock) taken before every mutating operation and at every read crash point of one fault-free cycle; second-level crashes use vcrash.DieAtMut / rig.Bkt.BeforeRead (the operation the process dies at and everything after fail, the data dir is copied at that instant)",
		"local files are complete at a crash (a crash is placed at bucket operation boundaries, not inside a local file write); block download is sequential (compactBlocksFetchConcurrency = blockFilesConcurrency = 1, the flag defaults)",
		"cmd/thanos wiring mirrored and drift-checked; downsampleBucket is a no-op for the <40h raw blocks used (drift-checked)")

	tmp := t.TempDir()
	rd := rig.NewReader(tmp)
	thorough := r.Thorough()

	var wmu sync.Mutex
	// worlds and reference cycles are built once each, different ones in parallel
	type lazyWorld struct {
		once sync.Once
		w    *world
	}
	type lazyRef struct {
		once sync.Once
		ref  *result
	}
	worlds := map[string]*lazyWorld{}
	refs := map[string]*lazyRef{}
	getWorld := func(name string) *world {
		wmu.Lock()
		lw := worlds[name]
		if lw == nil {
			lw = &lazyWorld{}
			worlds[name] = lw
		}
		wmu.Unlock()
		lw.once.Do(func() {
			for _, d := range sets {
				if d.name == name {
					lw.w = buildWorld(t, wi, d, tmp, rd)
					return
				}
			}
			panic("HARNESS-ERROR unknown set " + name)
		})
		return lw.w
	}
	var getRef func(set, lister string) *result
	buildRef := func(set, lister string) *result {
		w := getWorld(set)
		ref := runReference(t, r, wi, w, rd, tmp, Case{Set: set, Store: lister, Comp: lister})
		if !ref.quiescent {
			t.Fatalf("HARNESS-ERROR set %s: the fault-free cycle does not reach quiescence", set)
		}
		if len(ref.snaps) != ref.muts {
			t.Fatalf("HARNESS-ERROR set %s: %d snapshots for %d mutating operations", set, len(ref.snaps), ref.muts)
		}
		r.AddStates(int64(ref.states))
		npart := 0
		var rdesc []string
		for _, s := range ref.rsnaps {
			if s.partial {
				npart++
			}
			rdesc = append(rdesc, fmt.Sprintf("%s{%s}", s.op, s.work))
		}
		r.Note("set %s (%s lister): %d blocks, %d samples (%d distinct), fault-free cycle: %d mutating ops, %d read crash points (%d with a partly downloaded plan), %d blocks at quiescence, %d states checked",
			set, lister, len(w.roles), w.nsamples, len(w.original), ref.muts, len(ref.rsnaps), npart, ref.blocks, ref.states)
		if os.Getenv("VERIF_C29_POINTS") != "" {
			r.Note("set %s read crash points: %s", set, strings.Join(rdesc, " | "))
		}
		return &ref
	}
	getRef = func(set, lister string) *result {
		key := set + "/" + lister
		wmu.Lock()
		lr := refs[key]
		if lr == nil {
			lr = &lazyRef{}
			refs[key] = lr
		}
		wmu.Unlock()
		lr.once.Do(func() { lr.ref = buildRef(set, lister) })
		return lr.ref
	}
	if !r.Replaying() {
		var pre sync.WaitGroup
		for _, d := range sets {
			if d.tier == 1 && !thorough {
				continue
			}
			for _, l := range []string{"concurrent", "recursive"} {
				if l == "recursive" && !thorough {
					continue
				}
				pre.Add(1)
				go func() { defer pre.Done(); getRef(d.name, l) }()
			}
		}
		pre.Wait()
		if t.Failed() {
			return
		}
	}

	snapOf := func(ref *result, c Case) (snap, bool) {
		switch {
		case c.R > 0 && c.K == 0 && c.R <= len(ref.rsnaps):
			return ref.rsnaps[c.R-1], true
		case c.R == 0 && c.K >= 1 && c.K <= len(ref.snaps):
			return ref.snaps[c.K-1], true
		}
		return snap{}, false
	}

	var cases, mid, tail []Case
	nFirstR := 0
	if !r.Replaying() {
		// read crash points first (the smaller, newer family), then the crash points at mutating operations
		for _, d := range sets {
			if d.tier == 1 && !thorough {
				continue
			}
			ref := getRef(d.name, "concurrent")
			for i := range ref.rsnaps {
				for _, delay := range []int{1, 49 * 60, 25 * 60} {
					if !thorough && delay != 1 {
						continue
					}
					cases = append(cases, Case{Set: d.name, R: i + 1, Delay: delay, Disk: "kept", Store: "concurrent", Comp: "concurrent"})
				}
			}
		}
		nFirstR = len(cases)
		for _, d := range sets {
			if d.tier == 1 && !thorough {
				continue
			}
			ref := getRef(d.name, "concurrent")
			if d.name != "single" && ref.muts == 0 {
				t.Fatalf("HARNESS-ERROR set %s: nothing was compacted", d.name)
			}
			for k := 1; k <= ref.muts; k++ {
				for _, v := range []struct {
					delay int
					disk  string
				}{{1, "kept"}, {49 * 60, "kept"}, {25 * 60, "kept"}, {1, "wiped"}, {25 * 60, "wiped"}, {49 * 60, "wiped"}} {
					if !thorough && ((d.name == "4to1" && v.delay == 25*60) || (v.disk == "wiped" && (v.delay != 1 || d.name == "4to1"))) {
						continue
					}
					cases = append(cases, Case{Set: d.name, K: k, Delay: v.delay, Disk: v.disk, Store: "concurrent", Comp: "concurrent"})
				}
			}
			if thorough {
				rref := getRef(d.name, "recursive")
				for k := 1; k <= rref.muts; k++ {
					cases = append(cases, Case{Set: d.name, K: k, Delay: 25 * 60, Disk: "kept", Store: "recursive", Comp: "recursive"})
				}
				for i := range rref.rsnaps {
					cases = append(cases, Case{Set: d.name, R: i + 1, Delay: 25 * 60, Disk: "kept", Store: "recursive", Comp: "recursive"})
				}
			}
		}
		// second-level crash points: the operations and the read crash points of the restarted process are found by a
		// probe run (in parallel). Case.Delay is the pause before EVERY restart: with 25h the restart after the second
		// crash finds the deletion marks written by the first restarted process older than both ignore-deletion-marks
		// delays (nothing repairs a wrong marking any more); with 1m they are still younger.
		var firsts []Case
		first := func(set string, k, rp, delay int) {
			firsts = append(firsts, Case{Set: set, K: k, R: rp, Delay: delay, Disk: "kept", Store: "concurrent", Comp: "concurrent"})
		}
		if thorough {
			for _, name := range []string{"2to1", "overlap-vertical", "replicas", "4to1"} {
				ref := getRef(name, "concurrent")
				for i := range ref.rsnaps {
					first(name, 0, i+1, 25*60)
					first(name, 0, i+1, 1)
				}
				for k := 1; k <= ref.muts; k++ {
					first(name, k, 0, 1)
					if name == "2to1" {
						first(name, k, 0, 25*60)
					}
				}
			}
		} else {
			// quick: the read crash points of one set that leave a partly downloaded plan in the work dir
			ref := getRef("2to1", "concurrent")
			for i, s := range ref.rsnaps {
				if s.partial {
					first("2to1", 0, i+1, 25*60)
				}
			}
		}
		second := make([][]Case, len(firsts))
		var pw sync.WaitGroup
		sem := make(chan struct{}, runtime.GOMAXPROCS(0))
		for i, c := range firsts {
			pw.Add(1)
			sem <- struct{}{}
			go func() {
				defer func() { <-sem; pw.Done() }()
				ref := getRef(c.Set, c.Comp)
				s, _ := snapOf(ref, c)
				// second-level READ crash points: thorough, delay 1m, after every read crash point and (2to1, replicas) after
				// every mutating operation
				track := thorough && c.Delay == 1 && (c.R > 0 || c.Set == "2to1" || c.Set == "replicas")
				probe := runCase(t, r, wi, getWorld(c.Set), rd, tmp, c, s, track)
				for k2 := 1; k2 <= probe.muts; k2++ {
					c2 := c
					c2.K2 = k2
					second[i] = append(second[i], c2)
				}
				for _, r2 := range probe.rpts {
					c2 := c
					c2.R2 = r2
					second[i] = append(second[i], c2)
				}
			}()
		}
		pw.Wait()
		for _, l := range second {
			if thorough {
				tail = append(tail, l...)
			} else {
				mid = append(mid, l...)
			}
		}
	}
	if len(mid) > 0 {
		cases = append(cases[:nFirstR:nFirstR], append(mid, cases[nFirstR:]...)...)
	}
	cases = append(cases, tail...)
	gen := func(yield func(Case) bool) {
		for _, c := range cases {
			if !yield(c) {
				return
			}
		}
	}
	rig.ForEach(r, gen, func(c Case) {
		w := getWorld(c.Set)
		ref := getRef(c.Set, c.Comp)
		s, ok := snapOf(ref, c)
		if !ok {
			r.Note("crash point beyond the %d operations / %d read crash points of the cycle: %+v", len(ref.snaps), len(ref.rsnaps), c)
			return
		}
		r.Sample(c)
		res := runCase(t, r, wi, w, rd, tmp, c, s, false)
		r.AddStates(int64(res.states))
		if (c.K2 == 0 && c.R2 == 0 && res.muts > 0) || res.died2 {
			r.Nontrivial(fmt.Sprint(c))
			if c.R > 0 {
				r.Add("read_crash_cases", 1)
				if s.partial {
					r.Add("read_crash_cases_with_partly_downloaded_plan", 1)
				}
			}
			if c.R2 > 0 {
				r.Add("second_level_read_crash_cases", 1)
			}
		}
		if res.quiescent {
			r.Outcome(fmt.Sprintf("%s: quiescent with %d blocks", c.Set, res.blocks))
		}
	})
	r.Set("blocks_opened", rd.Opens)
}
