// C17 part 1: BucketedPool budget accounting, explicit-state search over Get/Put histories.
package c17

import (
	"fmt"
	"sort"
	"testing"

	"github.com/thanos-io/thanos/pkg/pool"

	"verif/vlib"
)

type Config struct {
	Min, Max int
	Factor   float64
	MaxTotal uint64
}

// Event: Get(size) when Put<0, else Put(outstanding[Put]).
type Event struct {
	Get int `json:"get"`
	Put int `json:"put"`
}

type Case struct {
	Cfg  Config  `json:"cfg"`
	Hist []Event `json:"hist"`
}

type state struct {
	out  []*[]byte
	used uint64
	errs int
}

func replay(c Case) (p *pool.BucketedPool[byte], st state, bad string) {
	p, err := pool.NewBucketedPool[byte](c.Cfg.Min, c.Cfg.Max, c.Cfg.Factor, c.Cfg.MaxTotal)
	if err != nil {
		panic(err)
	}
	for i, ev := range c.Hist {
		if ev.Put < 0 {
			b, err := p.Get(ev.Get)
			if err != nil {
				st.errs++
			} else {
				if cap(*b) < ev.Get {
					// not part of C17's statement; only noted
				}
				st.out = append(st.out, b)
			}
		} else {
			if ev.Put >= len(st.out) {
				return p, st, "HARNESS: put index out of range"
			}
			b := st.out[ev.Put]
			st.out = append(st.out[:ev.Put:ev.Put], st.out[ev.Put+1:]...)
			p.Put(b)
		}
		var real uint64
		for _, b := range st.out {
			real += uint64(cap(*b))
		}
		used := p.UsedBytes()
		st.used = used
		if c.Cfg.MaxTotal > 0 && real > c.Cfg.MaxTotal {
			return p, st, fmt.Sprintf("after event %d: %d bytes checked out, budget %d", i, real, c.Cfg.MaxTotal)
		}
		if c.Cfg.MaxTotal > 0 && used > c.Cfg.MaxTotal {
			return p, st, fmt.Sprintf("after event %d: UsedBytes()=%d, budget %d", i, used, c.Cfg.MaxTotal)
		}
		if len(st.out) == 0 && used != 0 {
			return p, st, fmt.Sprintf("after event %d: every buffer returned but UsedBytes()=%d", i, used)
		}
	}
	return p, st, ""
}

func key(c Config, st state) string {
	caps := make([]int, len(st.out))
	for i, b := range st.out {
		caps[i] = cap(*b)
	}
	sort.Ints(caps)
	return fmt.Sprintf("%v|%v|%d", c, caps, st.used)
}

func classify(msg string) string {
	switch {
	case len(msg) > 8 && msg[:8] == "HARNESS:":
		return "harness"
	case contains(msg, "bytes checked out"):
		return "checked-out-bytes-exceed-budget"
	case contains(msg, "UsedBytes()=") && contains(msg, "budget"):
		return "usedbytes-exceeds-budget"
	default:
		return "usage-not-zero-after-all-returned"
	}
}

func contains(s, sub string) bool {
	for i := 0; i+len(sub) <= len(s); i++ {
		if s[i:i+len(sub)] == sub {
			return true
		}
	}
	return false
}

func TestCheck(t *testing.T) {
	r := vlib.New(t, "C17")
	defer r.Finish()
	r.Rule("BFS over histories of Get(size)/Put(outstanding buffer) on a fresh real BucketedPool[byte]; sizes = {1, bucket-1, bucket, bucket+1, > largest bucket}; budgets = {0 (off), small, exact multiples, between buckets}; " +
		"states deduplicated by (layout, budget, sorted outstanding capacities, UsedBytes); distinct_nontrivial = distinct states with at least one outstanding buffer")
	var rc Case
	if r.ReplayCase(&rc) {
		r.Eval(1)
		if _, _, bad := replay(rc); bad != "" {
			r.Violation(classify(bad), bad, rc)
		}
		return
	}
	depth := vlib.Pick(r, 4, 6)
	cfgs := []Config{}
	for _, mt := range []uint64{0, 4, 8, 10, 12, 16} {
		cfgs = append(cfgs, Config{Min: 2, Max: 8, Factor: 2, MaxTotal: mt})
	}
	for _, mt := range []uint64{0, 5, 9} {
		cfgs = append(cfgs, Config{Min: 3, Max: 9, Factor: 3, MaxTotal: mt})
	}
	sizesFor := func(c Config) []int {
		set := map[int]bool{1: true}
		for s := c.Min; s <= c.Max; s = int(float64(s) * c.Factor) {
			for _, d := range []int{-1, 0, 1} {
				if s+d >= 1 {
					set[s+d] = true
				}
			}
		}
		set[c.Max+3] = true
		var out []int
		for s := range set {
			out = append(out, s)
		}
		sort.Ints(out)
		return out
	}
	for _, cfg := range cfgs {
		sizes := sizesFor(cfg)
		seen := map[string]bool{}
		frontier := []Case{{Cfg: cfg}}
		seen[key(cfg, state{})] = true
		r.AddStates(1)
		for d := 0; d < depth && len(frontier) > 0; d++ {
			var next []Case
			for _, c := range frontier {
				if r.Expired("BFS over pool histories") {
					return
				}
				_, st, _ := replay(c)
				var evs []Event
				for _, s := range sizes {
					evs = append(evs, Event{Get: s, Put: -1})
				}
				for i := range st.out {
					evs = append(evs, Event{Put: i})
				}
				for _, ev := range evs {
					nc := Case{Cfg: cfg, Hist: append(append([]Event(nil), c.Hist...), ev)}
					_, nst, bad := replay(nc)
					r.Eval(1)
					r.AddTransitions(1)
					r.AddTraces(1)
					if bad != "" {
						if classify(bad) == "harness" {
							t.Fatalf("HARNESS-ERROR %s", bad)
						}
						r.Violation(classify(bad), fmt.Sprintf("%+v: %s", cfg, bad), nc)
						continue
					}
					k := key(cfg, nst)
					if !seen[k] {
						seen[k] = true
						r.AddStates(1)
						r.Depth(d + 1)
						if len(nst.out) > 0 {
							r.Nontrivial(k)
						}
						r.Sample(nc)
						next = append(next, nc)
					}
				}
			}
			frontier = next
		}
	}
}
