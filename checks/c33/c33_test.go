// C33: the compactor does nothing destructive on an incomplete view.
//
// Engine E2 (fault enumeration). A compactor wired as cmd/thanos/compact.go wires it (verif/checks/c29/rig,
// wiring checked against the source at start-up) runs one main-loop iteration on a bucket that has pending
// work of every kind: a compactable group, a duplicate to garbage-collect, a block marked for deletion past
// the delete delay, an aborted partial upload, a block past retention, plus a no-compact-marked block. A
// fault-free reference iteration yields the list of read operations issued while a fetcher sync is in
// progress; for every one of them (sync number, operation kind, object, occurrence) and every fault mode that
// applies (call fails / body read fails / listing fails half way) one iteration is run with exactly that
// transient failure. Oracle: from the injected failure to the end of that iteration no Upload / Delete is
// attempted on the bucket.
//
// A second family (second_user_test.go) gives the Syncer its second user: the progress loop's SyncMetas runs
// between two steps of the iteration and meets the failure; the iteration must then do nothing that it does
// not do without that failed sync.
package c33

import (
	"context"
	"fmt"
	"iter"
	"os"
	"sort"
	"strings"
	"sync"
	"testing"
	"testing/synctest"
	"time"

	"github.com/go-kit/log"
	"github.com/oklog/ulid/v2"
	"github.com/thanos-io/objstore"
	"github.com/thanos-io/thanos/pkg/block/metadata"

	"verif/checks/c29/rig"
	"verif/vcrash"
	"verif/vlib"
)

type Case struct {
	// Family "" = the iteration's own sync meets the failure (one Syncer user). Family "shared" = a second user of the
	// same Syncer (the progress loop of cmd/thanos/compact.go) syncs between two steps of the iteration, just after
	// new blocks were uploaded, and ITS sync meets the failure (see second_user_test.go).
	Family string `json:"family,omitempty"`
	World  string `json:"world,omitempty"`  // shared family: "lean" (no pending compaction in the complete view) | "full"
	Inject int    `json:"inject,omitempty"` // shared family: 1-based index of the iteration's step (bucket operation / log call outside a sync) before which the second user acts

	Scenario string `json:"scenario"` // "first" (pending work of every kind) | "second" (iteration 2, 49h later: sources past delete delay)
	Lister   string `json:"lister"`   // concurrent | recursive
	Sync     int    `json:"sync"`     // 1-based index of the fetcher sync inside the iteration
	Kind     string `json:"kind"`     // iter | exists | get
	Name     string `json:"name"`     // object name with block ULIDs replaced by role names
	Occ      int    `json:"occ"`      // which occurrence of (kind,name) inside that sync
	Mode     string `json:"mode"`     // call | body | partial
}

const hour = int64(3600 * 1000)

// world is the block set, built once (inside a synctest bubble so that ULIDs / upload times are on the
// virtual clock).
type world struct {
	objs  rig.Objects
	roles map[string]string // ulid -> role
	// late: healthy blocks C=[4h,6h), D=[6h,8h) of group a (created with the others, e.g. by a sidecar that was cut
	// off from the bucket) that get uploaded while the compactor is running (shared family only)
	late rig.Objects
	ids  map[string]ulid.ULID // role -> ulid
}

// lean is the world without B: the complete view has nothing to compact (A is alone in its range).
func (w *world) lean() *world {
	l := &world{objs: rig.Objects{}, roles: w.roles, late: w.late, ids: w.ids}
	pre := w.ids["B"].String() + "/"
	for k, v := range w.objs {
		if !strings.HasPrefix(k, pre) {
			l.objs[k] = v
		}
	}
	return l
}

func ser(name string, base int64, n int) rig.SeriesSpec {
	s := rig.SeriesSpec{Labels: map[string]string{"__name__": "m", "s": name}}
	for i := 0; i < n; i++ {
		s.Samples = append(s.Samples, rig.Sample{T: base + int64(i)*600000, V: float64(i) + 0.5})
	}
	return s
}

func buildWorld(t *testing.T, tmp string) *world {
	w := &world{objs: rig.Objects{}, roles: map[string]string{}, late: rig.Objects{}, ids: map[string]ulid.ULID{}}
	var now, t0 int64
	synctest.Test(t, func(t *testing.T) {
		now = time.Now().UnixMilli()
		t0 = now - 10*24*hour // 8h aligned (virtual clock starts at midnight UTC)
		if t0%(8*hour) != 0 {
			t.Fatalf("HARNESS-ERROR base time %d not 8h aligned", t0)
		}
	})
	type spec struct {
		name       string
		mint, maxt int64
		ext        string
	}
	specs := []spec{
		// group a: A+B compactable into one 8h-range block, N excluded by a no-compact mark, X newest.
		{"A", t0, t0 + 2*hour, "a"},
		{"B", t0 + 2*hour, t0 + 4*hour, "a"},
		{"N", t0 + 8*hour, t0 + 10*hour, "a"},
		{"X", t0 + 10*hour, t0 + 12*hour, "a"},
		// late blocks of group a (shared family)
		{"C", t0 + 4*hour, t0 + 6*hour, "a"},
		{"D", t0 + 6*hour, t0 + 8*hour, "a"},
		// group b: P is a duplicate (its sources are covered by Q) -> garbage collection marks it.
		{"P", t0, t0 + 2*hour, "b"},
		{"Q", t0, t0 + 4*hour, "b"},
		// group c: M marked for deletion (the mark will be older than the delete delay when the iteration runs).
		{"M", t0, t0 + 2*hour, "c"},
		// U: aborted partial upload (no meta.json).
		{"U", t0, t0 + 2*hour, "u"},
		// group d: R is past the raw retention.
		{"R", t0 - 100*24*hour, t0 - 100*24*hour + 2*hour, "d"},
	}
	// Every block is built in a bubble of its own (all bubbles start at the same virtual instant; block i is created
	// i ms later, so ULID timestamps are distinct and ordered as listed) - in parallel: building a TSDB block takes
	// seconds on a loaded machine.
	var mu sync.Mutex
	var wg sync.WaitGroup
	var failed []string
	for i, sp := range specs {
		wg.Add(1)
		go func() {
			defer wg.Done()
			synctest.Test(t, func(t *testing.T) {
				time.Sleep(time.Duration(i+1) * time.Millisecond)
				id, objs, err := rig.BuildBlock(context.Background(), tmp, rig.BlockSpec{Name: sp.name, MinT: sp.mint, MaxT: sp.maxt, Ext: map[string]string{"ext": sp.ext},
					Series: []rig.SeriesSpec{ser("x", sp.mint, 3), ser("y", sp.mint+1000, 2)}})
				mu.Lock()
				defer mu.Unlock()
				if err != nil {
					failed = append(failed, fmt.Sprintf("build block %s: %v", sp.name, err))
					return
				}
				dst := w.objs
				if sp.name == "C" || sp.name == "D" {
					dst = w.late
				}
				for k, v := range objs {
					dst[k] = v
				}
				w.roles[id.String()] = sp.name
				w.ids[sp.name] = id
			})
		}()
	}
	wg.Wait()
	if len(failed) > 0 {
		t.Fatalf("HARNESS-ERROR %v", failed)
	}
	synctest.Test(t, func(t *testing.T) {
		time.Sleep(time.Duration(len(specs)+1) * time.Millisecond)
		n, p, q, m, u := w.ids["N"], w.ids["P"], w.ids["Q"], w.ids["M"], w.ids["U"]
		w.objs[n.String()+"/"+metadata.NoCompactMarkFilename] = rig.NoCompactMark(n, time.Now())
		other := ulid.MustNew(uint64(now), strings.NewReader("0123456789abcdef"))
		if err := rig.RewriteMeta(w.objs, q, func(m *metadata.Meta) {
			m.Compaction.Level = 2
			m.Compaction.Sources = []ulid.ULID{p, other}
			m.Thanos.Source = metadata.CompactorSource
		}); err != nil {
			t.Fatalf("HARNESS-ERROR %v", err)
		}
		w.objs[m.String()+"/"+metadata.DeletionMarkFilename] = rig.DeletionMark(m, time.Now())
		delete(w.objs, u.String()+"/meta.json")
	})
	return w
}

const retentionRaw = 60 * 24 * time.Hour

// run is one compactor process on a copy of the world.
type run struct {
	w     *world
	b     *vcrash.Bucket
	bkt   *rig.Bkt
	comp  *rig.Compactor
	mu    sync.Mutex
	roles map[string]string
	nnew  int
	// sync windows of the observed iteration: log positions [start,end)
	syncStart map[int]int
	syncEnd   map[int]int
	syncBase  int    // number of syncs before the observed iteration
	off       func() // newRunEv: makes every further bucket operation fail
}

func (r *run) canon(name string) string {
	seg, rest := name, ""
	if i := strings.IndexByte(name, '/'); i >= 0 {
		seg, rest = name[:i], name[i:]
	}
	if _, err := ulid.Parse(seg); err != nil {
		return name
	}
	r.mu.Lock()
	defer r.mu.Unlock()
	role, ok := r.roles[seg]
	if !ok {
		// blocks are created one at a time (compaction concurrency 1): first sight order is deterministic
		r.nnew++
		role = fmt.Sprintf("NEW%d", r.nnew)
		r.roles[seg] = role
	}
	return role + rest
}

func newRun(t *testing.T, wi rig.Wiring, w *world, lister, dataDir string) *run {
	return newRunEv(t, wi, w, lister, dataDir, nil)
}

// newRunEv: with ev != nil every bucket operation and every log call of the compactor is announced to ev first.
func newRunEv(t *testing.T, wi rig.Wiring, w *world, lister, dataDir string, ev func(kind, name string)) *run {
	r := &run{w: w, roles: map[string]string{}, syncStart: map[int]int{}, syncEnd: map[int]int{}}
	for k, v := range w.roles {
		r.roles[k] = v
	}
	r.b = vcrash.FromObjects(w.objs)
	r.b.ReadPhase = func() bool { return false } // vcrash counts reads only in the phase set by the case
	r.bkt = rig.NewBkt(r.b)
	r.bkt.BeforeMut = func(_ int, _ string, name string) { r.canon(name) }
	r.bkt.HoldExistsDuringListing = true
	var logger log.Logger
	if os.Getenv("VERIF_RIG_LOG") != "" {
		logger = log.NewLogfmtLogger(os.Stderr)
	}
	var cbkt objstore.InstrumentedBucket = r.bkt
	if ev != nil {
		eb := &evBkt{Bkt: r.bkt, ev: ev}
		r.off = func() { eb.off.Store(true) }
		cbkt = eb
		logger = evLogger{next: logger, ev: ev}
	}
	comp, err := rig.NewCompactor(wi, rig.Config{Lister: lister, RetentionRaw: retentionRaw}, cbkt, dataDir, logger)
	if err != nil {
		t.Fatalf("HARNESS-ERROR create compactor: %v", err)
	}
	comp.OnSync = func(n int, start bool, _ error) {
		r.mu.Lock()
		defer r.mu.Unlock()
		if start {
			r.syncStart[n] = r.b.LogLen()
		} else {
			r.syncEnd[n] = r.b.LogLen()
		}
	}
	r.comp = comp
	return r
}

// prepare brings the run to the start of the observed iteration.
func (r *run) prepare(t *testing.T, scenario string) {
	time.Sleep(50 * time.Hour) // everything is now older than consistency delay, delete delay, partial-upload threshold
	if scenario == "second" {
		if err := r.comp.Iteration(context.Background()); err != nil {
			t.Fatalf("HARNESS-ERROR fault-free first iteration failed: %v", err)
		}
		time.Sleep(49 * time.Hour)
	}
	r.syncBase = r.comp.Syncs()
}

type target struct {
	Sync   int
	Kind   string
	Name   string
	Occ    int
	Exists bool // for get: the object existed (a body-read fault is possible)
}

// reference runs the fault-free iteration and returns the reads issued during syncs and, per sync, the number
// of mutating operations attempted after that sync started.
func reference(t *testing.T, wi rig.Wiring, w *world, scenario, lister, tmp string) (targets []target, mutAfter map[int]int, mutLog []string) {
	synctest.Test(t, func(t *testing.T) {
		dir, err := os.MkdirTemp(tmp, "ref-")
		if err != nil {
			t.Fatalf("HARNESS-ERROR %v", err)
		}
		defer os.RemoveAll(dir)
		r := newRun(t, wi, w, lister, dir)
		r.prepare(t, scenario)
		from := r.b.LogLen()
		existing := map[string]bool{} // "sync kind name" of gets that found their object
		r.bkt.SetReadFault(func(kind, name string) string {
			if in, n := r.comp.InSync(); in && kind == "get" {
				if ok, _ := r.b.Inner().Exists(context.Background(), name); ok {
					r.mu.Lock()
					existing[fmt.Sprintf("%d %s", n-r.syncBase, name)] = true
					r.mu.Unlock()
				}
			}
			return ""
		}, nil)
		if err := r.comp.Iteration(context.Background()); err != nil {
			t.Fatalf("HARNESS-ERROR fault-free iteration (%s,%s) failed: %v", scenario, lister, err)
		}
		log := r.b.LogFrom(0)
		mutAfter = map[int]int{}
		nsync := r.comp.Syncs() - r.syncBase
		for n := 1; n <= nsync; n++ {
			s, e := r.syncStart[r.syncBase+n], r.syncEnd[r.syncBase+n]
			occ := map[string]int{}
			for _, op := range log[s:e] {
				if op.Mut {
					t.Fatalf("HARNESS-ERROR mutating op %v inside sync %d", op, n)
				}
				k := op.Kind + " " + r.canon(op.Name)
				occ[k]++
				targets = append(targets, target{Sync: n, Kind: op.Kind, Name: r.canon(op.Name), Occ: occ[k],
					Exists: op.Kind == "get" && existing[fmt.Sprintf("%d %s", n, op.Name)]})
			}
			for _, op := range log[s:] {
				if op.Mut {
					mutAfter[n]++
				}
			}
		}
		for _, op := range log[from:] {
			if op.Mut && op.Err == "" {
				mutLog = append(mutLog, op.Kind+" "+r.canon(op.Name))
			}
		}
	})
	// concurrent fetch workers issue the reads of one sync in varying order; the *set* is deterministic
	sort.SliceStable(targets, func(i, j int) bool {
		a, b := targets[i], targets[j]
		if a.Sync != b.Sync {
			return a.Sync < b.Sync
		}
		if a.Kind != b.Kind {
			return a.Kind < b.Kind
		}
		if a.Name != b.Name {
			return a.Name < b.Name
		}
		return a.Occ < b.Occ
	})
	return targets, mutAfter, mutLog
}

func requireWork(t *testing.T, scenario string, mutLog []string) {
	has := func(s string) bool {
		for _, l := range mutLog {
			if l == s {
				return true
			}
		}
		return false
	}
	var want []string
	if scenario == "first" {
		want = []string{
			"upload NEW1/meta.json",       // compaction of A+B
			"upload A/deletion-mark.json", // sources marked
			"upload B/deletion-mark.json", //
			"upload P/deletion-mark.json", // garbage collection of the duplicate
			"delete M/meta.json",          // block past delete delay
			"delete M/deletion-mark.json", //
			"delete U/index",              // aborted partial upload
			"upload R/deletion-mark.json", // retention
		}
	} else {
		want = []string{"delete A/meta.json", "delete B/meta.json", "delete P/meta.json", "delete R/meta.json"}
	}
	for _, s := range want {
		if !has(s) {
			t.Fatalf("HARNESS-ERROR scenario %s: the fault-free iteration lacks the pending work %q; mutations: %v", scenario, s, mutLog)
		}
	}
	if has("upload N/deletion-mark.json") || has("upload X/deletion-mark.json") {
		t.Fatalf("HARNESS-ERROR scenario %s: N or X were compacted: %v", scenario, mutLog)
	}
}

func modesFor(kind, lister string) []string {
	switch kind {
	case "get":
		return []string{"call", "body"}
	case "iter":
		if lister == "concurrent" {
			// a listing that fails half way makes ConcurrentLister panic (send on closed channel): the process dies,
			// which is not destructive but cannot be run inside the test binary. See REPORT.md.
			return []string{"call"}
		}
		return []string{"call", "partial"}
	}
	return []string{"call"}
}

func TestCheck(t *testing.T) {
	r := vlib.New(t, "C33")
	defer r.Finish()
	wi := rig.CheckWiring(t)
	r.Set("wiring", wi.Describe())
	r.Rule("family own-sync: every read operation (sync number x kind x object x occurrence) that a fault-free main-loop iteration issues while a fetcher sync is in progress, " +
		"x fault mode (call error; for Get also body-read error; for listings also failure after the first entry), x block lister {concurrent, recursive}" +
		" [thorough: x scenario {first iteration with pending work of every kind, second iteration 49h later}]; " +
		"non-trivial = the fault was injected and the fault-free iteration performs at least one Upload/Delete after that sync. " +
		"family shared (second user of the same Syncer): every step of the iteration outside a sync (bucket operation or log call; before it two healthy blocks are uploaded and the progress loop's SyncMetas runs on the shared Syncer) " +
		"x failing read of that second sync (quick: listing, meta.json of each new block, Exists probe + deletion mark + no-compact mark of one new block, call error, concurrent lister, no pending compaction; " +
		"thorough: every read x every fault mode x both listers, plus the world with a pending compaction); " +
		"non-trivial = the failure was injected and the iteration performs at least one Upload/Delete after that step when nobody else syncs")
	r.Assume("the iteration is the sequential compactMainFn of cmd/thanos/compact.go (mirrored, drift-checked); the second Syncer user is the progress loop's body (sy.SyncMetas, return on a retriable error; drift-checked), "+
		"run atomically between two steps of the iteration (a sync that overlaps a step, or two syncs merged by the Syncer's singleflight, are not explored); the cleanup loop of --wait mode is not interleaved",
		"downsampleBucket is replaced by a no-op, which is what it is for raw blocks shorter than 40h (drift-checked); retention.resolution-raw=60d so that retention has work",
		"object storage is an in-memory bucket; a transient failure is one failed call (or body read / half listing), all other calls succeed",
		"shared family oracle is differential: the reference is the same iteration with the same uploads at the same step and no second user; blocks written by the compactor are identified by their parents")

	tmp := t.TempDir()
	phase := time.Now() // wall-clock, for the timing notes only
	lap := func(what string) {
		r.Note("timing: %s %.1fs", what, time.Since(phase).Seconds())
		phase = time.Now()
	}
	w := buildWorld(t, tmp)
	lap("build 11 blocks")

	scenarios := vlib.Pick(r, []string{"first"}, []string{"first", "second"})
	listers := []string{"concurrent", "recursive"}

	type refKey struct{ sc, li string }
	mutAfter := map[refKey]map[int]int{}
	var cases []Case
	if !r.Replaying() {
		for _, sc := range scenarios {
			for _, li := range listers {
				tg, ma, ml := reference(t, wi, w, sc, li, tmp)
				requireWork(t, sc, ml)
				mutAfter[refKey{sc, li}] = ma
				kinds := map[string]int{}
				for _, x := range tg {
					kinds[x.Kind+" "+x.Name[strings.LastIndexByte(x.Name, '/')+1:]]++
					for _, m := range modesFor(x.Kind, li) {
						if m == "body" && !x.Exists {
							continue // nothing to read: the Get itself answers "not found"
						}
						cases = append(cases, Case{Scenario: sc, Lister: li, Sync: x.Sync, Kind: x.Kind, Name: x.Name, Occ: x.Occ, Mode: m})
					}
				}
				r.Note("scenario %s lister %s: %d sync reads in %d syncs (%d of them followed by mutations); by kind/file: %v; fault-free mutations: %d", sc, li, len(tg), tg[len(tg)-1].Sync, len(ma), kinds, len(ml))
			}
		}
	}
	// family "shared": a second user of the same Syncer (second_user_test.go); enumerated first (cheap runs)
	lap("own-sync family: fault-free references")
	checkSecondUser(t)
	fam := &sharedFamily{t: t, r: r, wi: wi, tmp: tmp, full: w, lean: w.lean(), refs: map[sharedKey]*sharedRef{}}
	if !r.Replaying() {
		switch os.Getenv("C33_FAMILY") { // debugging aid only; the driver never sets it
		case "shared":
			cases = fam.cases()
			r.Cap("C33_FAMILY=shared: own-sync family skipped")
		case "own":
			r.Cap("C33_FAMILY=own: shared family skipped")
		default:
			cases = append(fam.cases(), cases...)
		}
	}
	lap("shared family: steps and discovery runs")
	gen := func(yield func(Case) bool) {
		for _, c := range cases {
			if !yield(c) {
				return
			}
		}
	}
	var _ iter.Seq[Case] = gen

	rig.ForEach(r, gen, func(c Case) {
		r.Sample(c)
		if c.Family == "shared" {
			fam.eval(c)
			return
		}
		leaked := rig.Bubble(t, func(t *testing.T) {
			dir, err := os.MkdirTemp(tmp, "case-")
			if err != nil {
				t.Fatalf("HARNESS-ERROR %v", err)
			}
			defer os.RemoveAll(dir)
			ru := newRun(t, wi, w, c.Lister, dir)
			ru.prepare(t, c.Scenario)

			var fmu sync.Mutex
			failPos := -1
			occ := 0
			inTarget := func(kind, name string) bool {
				in, n := ru.comp.InSync()
				return in && n-ru.syncBase == c.Sync && kind == c.Kind && ru.canon(name) == c.Name
			}
			if c.Mode == "call" {
				ru.b.ReadPhase = func() bool { in, n := ru.comp.InSync(); return in && n-ru.syncBase == c.Sync }
				ru.b.FailReadFilter = func(kind, name string) bool { return kind == c.Kind && ru.canon(name) == c.Name }
				ru.b.FailRead = c.Occ
			} else {
				ru.bkt.SetReadFault(func(kind, name string) string {
					if !inTarget(kind, name) {
						return ""
					}
					fmu.Lock()
					defer fmu.Unlock()
					occ++
					if occ != c.Occ {
						return ""
					}
					return c.Mode
				}, func(string, string) {
					fmu.Lock()
					defer fmu.Unlock()
					if failPos < 0 {
						failPos = ru.b.LogLen()
					}
				})
			}
			iterErr, pan := safeIteration(ru.comp)
			if pan != nil {
				r.Violation("panic-in-compactor-iteration", fmt.Sprintf("sync %d: %s(%s) #%d failed (%s): the iteration panicked: %v", c.Sync, c.Kind, c.Name, c.Occ, c.Mode, pan), c)
				return
			}
			if c.Mode == "call" {
				if ru.b.FailedOp != nil {
					failPos = ru.b.FailedOp.Seq
				}
			}
			if failPos < 0 {
				r.Cap("a targeted read was not issued in the faulty run (run not deterministic up to the fault)")
				r.Note("target not reached: %+v", c)
				return
			}
			var after []string
			for _, op := range ru.b.LogFrom(failPos) {
				if op.Mut {
					after = append(after, op.Kind+" "+ru.canon(op.Name))
				}
			}
			if ma, ok := mutAfter[refKey{c.Scenario, c.Lister}]; r.Replaying() || (ok && ma[c.Sync] > 0) {
				r.Nontrivial(fmt.Sprint(c))
			}
			if iterErr == nil {
				r.Outcome("iteration-completed-despite-failed-sync-read")
			} else if rig.IsRetry(iterErr) {
				r.Outcome("iteration-aborted-retry-error")
			} else if rig.IsHalt(iterErr) {
				r.Outcome("iteration-aborted-halt-error")
			} else {
				r.Outcome("iteration-aborted-other-error")
			}
			if len(after) > 0 {
				what := "marks"
				for _, a := range after {
					if strings.HasPrefix(a, "delete ") {
						what = "deletes"
					}
				}
				for _, a := range after {
					if strings.HasPrefix(a, "upload NEW") {
						what = "compacts"
					}
				}
				file := c.Name[strings.LastIndexByte(c.Name, '/')+1:]
				if c.Kind == "iter" {
					file = "listing"
				}
				sig := fmt.Sprintf("%s-after-failed-%s-%s", what, c.Kind, strings.TrimSuffix(file, ".json"))
				r.Violation(sig, fmt.Sprintf("sync %d: %s(%s) #%d failed (%s) but the iteration (err=%v) still performed %d mutating bucket operations: %v",
					c.Sync, c.Kind, c.Name, c.Occ, c.Mode, iterErr, len(after), trunc(after, 12)), c)
			}
		})
		if leaked {
			r.Add("runs_with_leaked_goroutines", 1)
		}
	})
}

// safeIteration runs one main-loop iteration; a panic on the calling goroutine is returned instead of killing the check.
func safeIteration(c *rig.Compactor) (err error, panicked any) {
	defer func() {
		if p := recover(); p != nil {
			panicked = p
		}
	}()
	return c.Iteration(context.Background()), nil
}

func trunc(s []string, n int) []string {
	if len(s) <= n {
		return s
	}
	return append(append([]string{}, s[:n]...), fmt.Sprintf("... %d more", len(s)-n))
}
