// C33: the compactor does nothing destructive on an incomplete view.
//
// Engine E2 (fault enumeration). A compactor wired as cmd/thanos/compact.go wires it (verif/checks/c29/rig,
// wiring checked against the source at start-up) runs one main-loop iteration on a bucket that has pending
// work of every kind: a compactable group, a duplicate to garbage-collect, a block marked for deletion past
// the delete delay, an aborted partial upload, a block past retention, plus a no-compact-marked block. A
// fault-free reference iteration yields the list of read operations issued while a fetcher sync is in
// progress; for every one of them (sync number, operation kind, object, occurrence) and every fault mode that
// applies (call fails / body read fails / listing fails half way) one iteration is run with exactly that
// transient failure. Oracle: from the injected failure to the end of that iteration no Upload / Delete is
// attempted on the bucket.
package c33

import (
	"context"
	"fmt"
	"iter"
	"os"
	"sort"
	"strings"
	"sync"
	"testing"
	"testing/synctest"
	"time"

	"github.com/go-kit/log"
	"github.com/oklog/ulid/v2"
	"github.com/thanos-io/thanos/pkg/block/metadata"

	"verif/checks/c29/rig"
	"verif/vcrash"
	"verif/vlib"
)

type Case struct {
	Scenario string `json:"scenario"` // "first" (pending work of every kind) | "second" (iteration 2, 49h later: sources past delete delay)
	Lister   string `json:"lister"`   // concurrent | recursive
	Sync     int    `json:"sync"`     // 1-based index of the fetcher sync inside the iteration
	Kind     string `json:"kind"`     // iter | exists | get
	Name     string `json:"name"`     // object name with block ULIDs replaced by role names
	Occ      int    `json:"occ"`      // which occurrence of (kind,name) inside that sync
	Mode     string `json:"mode"`     // call | body | partial
}

const hour = int64(3600 * 1000)

// world is the block set, built once (inside a synctest bubble so that ULIDs / upload times are on the
// virtual clock).
type world struct {
	objs  rig.Objects
	roles map[string]string // ulid -> role
}

func ser(name string, base int64, n int) rig.SeriesSpec {
	s := rig.SeriesSpec{Labels: map[string]string{"__name__": "m", "s": name}}
	for i := 0; i < n; i++ {
		s.Samples = append(s.Samples, rig.Sample{T: base + int64(i)*600000, V: float64(i) + 0.5})
	}
	return s
}

func buildWorld(t *testing.T, tmp string) *world {
	w := &world{objs: rig.Objects{}, roles: map[string]string{}}
	synctest.Test(t, func(t *testing.T) {
		ctx := context.Background()
		now := time.Now().UnixMilli()
		t0 := now - 10*24*hour // 8h aligned (virtual clock starts at midnight UTC)
		if t0%(8*hour) != 0 {
			t.Fatalf("HARNESS-ERROR base time %d not 8h aligned", t0)
		}
		add := func(name string, mint, maxt int64, ext string) ulid.ULID {
			id, objs, err := rig.BuildBlock(ctx, tmp, rig.BlockSpec{Name: name, MinT: mint, MaxT: maxt, Ext: map[string]string{"ext": ext},
				Series: []rig.SeriesSpec{ser("x", mint, 3), ser("y", mint+1000, 2)}})
			if err != nil {
				t.Fatalf("HARNESS-ERROR build block %s: %v", name, err)
			}
			for k, v := range objs {
				w.objs[k] = v
			}
			w.roles[id.String()] = name
			time.Sleep(time.Millisecond) // distinct ULID timestamps
			return id
		}
		// group a: A+B compactable into one 8h-range block, N excluded by a no-compact mark, X newest.
		add("A", t0, t0+2*hour, "a")
		add("B", t0+2*hour, t0+4*hour, "a")
		n := add("N", t0+8*hour, t0+10*hour, "a")
		add("X", t0+10*hour, t0+12*hour, "a")
		w.objs[n.String()+"/"+metadata.NoCompactMarkFilename] = rig.NoCompactMark(n, time.Now())
		// group b: P is a duplicate (its sources are covered by Q) -> garbage collection marks it.
		p := add("P", t0, t0+2*hour, "b")
		q := add("Q", t0, t0+4*hour, "b")
		other := ulid.MustNew(uint64(now), strings.NewReader("0123456789abcdef"))
		if err := rig.RewriteMeta(w.objs, q, func(m *metadata.Meta) {
			m.Compaction.Level = 2
			m.Compaction.Sources = []ulid.ULID{p, other}
			m.Thanos.Source = metadata.CompactorSource
		}); err != nil {
			t.Fatalf("HARNESS-ERROR %v", err)
		}
		// group c: M marked for deletion (the mark will be older than the delete delay when the iteration runs).
		m := add("M", t0, t0+2*hour, "c")
		w.objs[m.String()+"/"+metadata.DeletionMarkFilename] = rig.DeletionMark(m, time.Now())
		// U: aborted partial upload (no meta.json).
		u := add("U", t0, t0+2*hour, "u")
		delete(w.objs, u.String()+"/meta.json")
		// group d: R is past the raw retention.
		add("R", t0-100*24*hour, t0-100*24*hour+2*hour, "d")
	})
	return w
}

const retentionRaw = 60 * 24 * time.Hour

// run is one compactor process on a copy of the world.
type run struct {
	w     *world
	b     *vcrash.Bucket
	bkt   *rig.Bkt
	comp  *rig.Compactor
	mu    sync.Mutex
	roles map[string]string
	nnew  int
	// sync windows of the observed iteration: log positions [start,end)
	syncStart map[int]int
	syncEnd   map[int]int
	syncBase  int // number of syncs before the observed iteration
}

func (r *run) canon(name string) string {
	seg, rest := name, ""
	if i := strings.IndexByte(name, '/'); i >= 0 {
		seg, rest = name[:i], name[i:]
	}
	if _, err := ulid.Parse(seg); err != nil {
		return name
	}
	r.mu.Lock()
	defer r.mu.Unlock()
	role, ok := r.roles[seg]
	if !ok {
		// blocks are created one at a time (compaction concurrency 1): first sight order is deterministic
		r.nnew++
		role = fmt.Sprintf("NEW%d", r.nnew)
		r.roles[seg] = role
	}
	return role + rest
}

func newRun(t *testing.T, wi rig.Wiring, w *world, lister, dataDir string) *run {
	r := &run{w: w, roles: map[string]string{}, syncStart: map[int]int{}, syncEnd: map[int]int{}}
	for k, v := range w.roles {
		r.roles[k] = v
	}
	r.b = vcrash.FromObjects(w.objs)
	r.b.ReadPhase = func() bool { return false } // vcrash counts reads only in the phase set by the case
	r.bkt = rig.NewBkt(r.b)
	r.bkt.BeforeMut = func(_ int, _ string, name string) { r.canon(name) }
	r.bkt.HoldExistsDuringListing = true
	var logger log.Logger
	if os.Getenv("VERIF_RIG_LOG") != "" {
		logger = log.NewLogfmtLogger(os.Stderr)
	}
	comp, err := rig.NewCompactor(wi, rig.Config{Lister: lister, RetentionRaw: retentionRaw}, r.bkt, dataDir, logger)
	if err != nil {
		t.Fatalf("HARNESS-ERROR create compactor: %v", err)
	}
	comp.OnSync = func(n int, start bool, _ error) {
		r.mu.Lock()
		defer r.mu.Unlock()
		if start {
			r.syncStart[n] = r.b.LogLen()
		} else {
			r.syncEnd[n] = r.b.LogLen()
		}
	}
	r.comp = comp
	return r
}

// prepare brings the run to the start of the observed iteration.
func (r *run) prepare(t *testing.T, scenario string) {
	time.Sleep(50 * time.Hour) // everything is now older than consistency delay, delete delay, partial-upload threshold
	if scenario == "second" {
		if err := r.comp.Iteration(context.Background()); err != nil {
			t.Fatalf("HARNESS-ERROR fault-free first iteration failed: %v", err)
		}
		time.Sleep(49 * time.Hour)
	}
	r.syncBase = r.comp.Syncs()
}

type target struct {
	Sync   int
	Kind   string
	Name   string
	Occ    int
	Exists bool // for get: the object existed (a body-read fault is possible)
}

// reference runs the fault-free iteration and returns the reads issued during syncs and, per sync, the number
// of mutating operations attempted after that sync started.
func reference(t *testing.T, wi rig.Wiring, w *world, scenario, lister, tmp string) (targets []target, mutAfter map[int]int, mutLog []string) {
	synctest.Test(t, func(t *testing.T) {
		dir, err := os.MkdirTemp(tmp, "ref-")
		if err != nil {
			t.Fatalf("HARNESS-ERROR %v", err)
		}
		defer os.RemoveAll(dir)
		r := newRun(t, wi, w, lister, dir)
		r.prepare(t, scenario)
		from := r.b.LogLen()
		existing := map[string]bool{} // "sync kind name" of gets that found their object
		r.bkt.SetReadFault(func(kind, name string) string {
			if in, n := r.comp.InSync(); in && kind == "get" {
				if ok, _ := r.b.Inner().Exists(context.Background(), name); ok {
					r.mu.Lock()
					existing[fmt.Sprintf("%d %s", n-r.syncBase, name)] = true
					r.mu.Unlock()
				}
			}
			return ""
		}, nil)
		if err := r.comp.Iteration(context.Background()); err != nil {
			t.Fatalf("HARNESS-ERROR fault-free iteration (%s,%s) failed: %v", scenario, lister, err)
		}
		log := r.b.LogFrom(0)
		mutAfter = map[int]int{}
		nsync := r.comp.Syncs() - r.syncBase
		for n := 1; n <= nsync; n++ {
			s, e := r.syncStart[r.syncBase+n], r.syncEnd[r.syncBase+n]
			occ := map[string]int{}
			for _, op := range log[s:e] {
				if op.Mut {
					t.Fatalf("HARNESS-ERROR mutating op %v inside sync %d", op, n)
				}
				k := op.Kind + " " + r.canon(op.Name)
				occ[k]++
				targets = append(targets, target{Sync: n, Kind: op.Kind, Name: r.canon(op.Name), Occ: occ[k],
					Exists: op.Kind == "get" && existing[fmt.Sprintf("%d %s", n, op.Name)]})
			}
			for _, op := range log[s:] {
				if op.Mut {
					mutAfter[n]++
				}
			}
		}
		for _, op := range log[from:] {
			if op.Mut && op.Err == "" {
				mutLog = append(mutLog, op.Kind+" "+r.canon(op.Name))
			}
		}
	})
	// concurrent fetch workers issue the reads of one sync in varying order; the *set* is deterministic
	sort.SliceStable(targets, func(i, j int) bool {
		a, b := targets[i], targets[j]
		if a.Sync != b.Sync {
			return a.Sync < b.Sync
		}
		if a.Kind != b.Kind {
			return a.Kind < b.Kind
		}
		if a.Name != b.Name {
			return a.Name < b.Name
		}
		return a.Occ < b.Occ
	})
	return targets, mutAfter, mutLog
}

func requireWork(t *testing.T, scenario string, mutLog []string) {
	has := func(s string) bool {
		for _, l := range mutLog {
			if l == s {
				return true
			}
		}
		return false
	}
	var want []string
	if scenario == "first" {
		want = []string{
			"upload NEW1/meta.json",           // compaction of A+B
			"upload A/deletion-mark.json",     // sources marked
			"upload B/deletion-mark.json",     //
			"upload P/deletion-mark.json",     // garbage collection of the duplicate
			"delete M/meta.json",              // block past delete delay
			"delete M/deletion-mark.json",     //
			"delete U/index",                  // aborted partial upload
			"upload R/deletion-mark.json",     // retention
		}
	} else {
		want = []string{"delete A/meta.json", "delete B/meta.json", "delete P/meta.json", "delete R/meta.json"}
	}
	for _, s := range want {
		if !has(s) {
			t.Fatalf("HARNESS-ERROR scenario %s: the fault-free iteration lacks the pending work %q; mutations: %v", scenario, s, mutLog)
		}
	}
	if has("upload N/deletion-mark.json") || has("upload X/deletion-mark.json") {
		t.Fatalf("HARNESS-ERROR scenario %s: N or X were compacted: %v", scenario, mutLog)
	}
}

func modesFor(kind, lister string) []string {
	switch kind {
	case "get":
		return []string{"call", "body"}
	case "iter":
		if lister == "concurrent" {
			// a listing that fails half way makes ConcurrentLister panic (send on closed channel): the process dies,
			// which is not destructive but cannot be run inside the test binary. See REPORT.md.
			return []string{"call"}
		}
		return []string{"call", "partial"}
	}
	return []string{"call"}
}

func TestCheck(t *testing.T) {
	r := vlib.New(t, "C33")
	defer r.Finish()
	wi := rig.CheckWiring(t)
	r.Set("wiring", wi.Describe())
	r.Rule("every read operation (sync number x kind x object x occurrence) that a fault-free main-loop iteration issues while a fetcher sync is in progress, " +
		"x fault mode (call error; for Get also body-read error; for listings also failure after the first entry), x block lister {concurrent, recursive}" +
		" [thorough: x scenario {first iteration with pending work of every kind, second iteration 49h later}]; " +
		"non-trivial = the fault was injected and the fault-free iteration performs at least one Upload/Delete after that sync")
	r.Assume("the iteration is the sequential compactMainFn of cmd/thanos/compact.go (mirrored, drift-checked); the background cleanup / progress goroutines of --wait mode are not run concurrently",
		"downsampleBucket is replaced by a no-op, which is what it is for raw blocks shorter than 40h (drift-checked); retention.resolution-raw=60d so that retention has work",
		"object storage is an in-memory bucket; a transient failure is one failed call (or body read / half listing), all other calls succeed")

	tmp := t.TempDir()
	w := buildWorld(t, tmp)

	scenarios := vlib.Pick(r, []string{"first"}, []string{"first", "second"})
	listers := []string{"concurrent", "recursive"}

	type refKey struct{ sc, li string }
	mutAfter := map[refKey]map[int]int{}
	var cases []Case
	if !r.Replaying() {
		for _, sc := range scenarios {
			for _, li := range listers {
				tg, ma, ml := reference(t, wi, w, sc, li, tmp)
				requireWork(t, sc, ml)
				mutAfter[refKey{sc, li}] = ma
				kinds := map[string]int{}
				for _, x := range tg {
					kinds[x.Kind+" "+x.Name[strings.LastIndexByte(x.Name, '/')+1:]]++
					for _, m := range modesFor(x.Kind, li) {
						if m == "body" && !x.Exists {
							continue // nothing to read: the Get itself answers "not found"
						}
						cases = append(cases, Case{Scenario: sc, Lister: li, Sync: x.Sync, Kind: x.Kind, Name: x.Name, Occ: x.Occ, Mode: m})
					}
				}
				r.Note("scenario %s lister %s: %d sync reads in %d syncs (%d of them followed by mutations); by kind/file: %v; fault-free mutations: %d", sc, li, len(tg), tg[len(tg)-1].Sync, len(ma), kinds, len(ml))
			}
		}
	}
	gen := func(yield func(Case) bool) {
		for _, c := range cases {
			if !yield(c) {
				return
			}
		}
	}
	var _ iter.Seq[Case] = gen

	rig.ForEach(r, gen, func(c Case) {
		r.Sample(c)
		leaked := rig.Bubble(t, func(t *testing.T) {
			dir, err := os.MkdirTemp(tmp, "case-")
			if err != nil {
				t.Fatalf("HARNESS-ERROR %v", err)
			}
			defer os.RemoveAll(dir)
			ru := newRun(t, wi, w, c.Lister, dir)
			ru.prepare(t, c.Scenario)

			var fmu sync.Mutex
			failPos := -1
			occ := 0
			inTarget := func(kind, name string) bool {
				in, n := ru.comp.InSync()
				return in && n-ru.syncBase == c.Sync && kind == c.Kind && ru.canon(name) == c.Name
			}
			if c.Mode == "call" {
				ru.b.ReadPhase = func() bool { in, n := ru.comp.InSync(); return in && n-ru.syncBase == c.Sync }
				ru.b.FailReadFilter = func(kind, name string) bool { return kind == c.Kind && ru.canon(name) == c.Name }
				ru.b.FailRead = c.Occ
			} else {
				ru.bkt.SetReadFault(func(kind, name string) string {
					if !inTarget(kind, name) {
						return ""
					}
					fmu.Lock()
					defer fmu.Unlock()
					occ++
					if occ != c.Occ {
						return ""
					}
					return c.Mode
				}, func(string, string) {
					fmu.Lock()
					defer fmu.Unlock()
					if failPos < 0 {
						failPos = ru.b.LogLen()
					}
				})
			}
			iterErr := ru.comp.Iteration(context.Background())
			if c.Mode == "call" {
				if ru.b.FailedOp != nil {
					failPos = ru.b.FailedOp.Seq
				}
			}
			if failPos < 0 {
				r.Cap("a targeted read was not issued in the faulty run (run not deterministic up to the fault)")
				r.Note("target not reached: %+v", c)
				return
			}
			var after []string
			for _, op := range ru.b.LogFrom(failPos) {
				if op.Mut {
					after = append(after, op.Kind+" "+ru.canon(op.Name))
				}
			}
			if ma, ok := mutAfter[refKey{c.Scenario, c.Lister}]; r.Replaying() || (ok && ma[c.Sync] > 0) {
				r.Nontrivial(fmt.Sprint(c))
			}
			if iterErr == nil {
				r.Outcome("iteration-completed-despite-failed-sync-read")
			} else if rig.IsRetry(iterErr) {
				r.Outcome("iteration-aborted-retry-error")
			} else if rig.IsHalt(iterErr) {
				r.Outcome("iteration-aborted-halt-error")
			} else {
				r.Outcome("iteration-aborted-other-error")
			}
			if len(after) > 0 {
				what := "marks"
				for _, a := range after {
					if strings.HasPrefix(a, "delete ") {
						what = "deletes"
					}
				}
				for _, a := range after {
					if strings.HasPrefix(a, "upload NEW") {
						what = "compacts"
					}
				}
				file := c.Name[strings.LastIndexByte(c.Name, '/')+1:]
				if c.Kind == "iter" {
					file = "listing"
				}
				sig := fmt.Sprintf("%s-after-failed-%s-%s", what, c.Kind, strings.TrimSuffix(file, ".json"))
				r.Violation(sig, fmt.Sprintf("sync %d: %s(%s) #%d failed (%s) but the iteration (err=%v) still performed %d mutating bucket operations: %v",
					c.Sync, c.Kind, c.Name, c.Occ, c.Mode, iterErr, len(after), trunc(after, 12)), c)
			}
		})
		if leaked {
			r.Add("runs_with_leaked_goroutines", 1)
		}
	})
}

func trunc(s []string, n int) []string {
	if len(s) <= n {
		return s
	}
	return append(append([]string{}, s[:n]...), fmt.Sprintf("... %d more", len(s)-n))
}
