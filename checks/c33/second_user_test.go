// C33, family "shared": the Syncer has more than one user.
//
// cmd/thanos/compact.go hands one *compact.Syncer to the compaction loop (BucketCompactor.Compact, the downsampling
// and retention passes, the partial-upload cleanup) AND to the progress loop, which calls sy.SyncMetas periodically
// and, when that fails with a retriable error, just returns. A sync of the progress loop that meets a transient read
// failure is "a sync in which reading a block's metadata or markers failed": nothing may be compacted, marked or
// deleted on the basis of its incomplete view, also not by the *other* user of the Syncer that is half way through
// its iteration.
//
// The interleaving is produced without the scheduler: every bucket operation and every log call that the iteration
// issues outside a fetcher sync is a step; before the chosen step the harness (1) uploads two healthy blocks that no
// complete sync has seen yet (so their meta.json is not in the fetcher's cache) and (2) runs the progress loop's body
// on the same Syncer with exactly one failing read. All steps x all reads of that second sync x fault modes are
// enumerated. Oracle (differential, = "the failed sync has no destructive effect"): every Upload/Delete attempted
// after the failure is also attempted, on the same objects, by the same iteration with the same uploads at the same
// step but without the second user's sync. New blocks are named by their parents so that "the same objects" is
// meaningful for compaction outputs.
package c33

import (
	"bytes"
	"context"
	"encoding/json"
	"errors"
	"fmt"
	"io"
	"os"
	"reflect"
	"runtime"
	"sort"
	"strings"
	"sync"
	"sync/atomic"
	"testing"
	"unsafe"

	"github.com/go-kit/log"
	"github.com/oklog/ulid/v2"
	"github.com/thanos-io/objstore"
	"github.com/thanos-io/thanos/pkg/block/metadata"
	"github.com/thanos-io/thanos/pkg/compact"

	"verif/checks/c29/rig"
	"verif/vlib"
)

// ---------------------------------------------------------------------------------------------------------------
// step hooks

// evBkt announces every bucket operation before passing it on.
type evBkt struct {
	*rig.Bkt
	ev func(kind, name string)
	// off: every operation fails from now on (ends a discovery run early; never set in a run that is judged)
	off atomic.Bool
}

var errBucketOff = errors.New("harness: bucket switched off")

func (w *evBkt) Get(ctx context.Context, name string) (io.ReadCloser, error) {
	if w.off.Load() {
		return nil, errBucketOff
	}
	w.ev("get", name)
	return w.Bkt.Get(ctx, name)
}
func (w *evBkt) GetRange(ctx context.Context, name string, off, length int64) (io.ReadCloser, error) {
	if w.off.Load() {
		return nil, errBucketOff
	}
	w.ev("getrange", name)
	return w.Bkt.GetRange(ctx, name, off, length)
}
func (w *evBkt) Exists(ctx context.Context, name string) (bool, error) {
	if w.off.Load() {
		return false, errBucketOff
	}
	w.ev("exists", name)
	return w.Bkt.Exists(ctx, name)
}
func (w *evBkt) Attributes(ctx context.Context, name string) (objstore.ObjectAttributes, error) {
	if w.off.Load() {
		return objstore.ObjectAttributes{}, errBucketOff
	}
	w.ev("attributes", name)
	return w.Bkt.Attributes(ctx, name)
}
func (w *evBkt) Iter(ctx context.Context, dir string, f func(string) error, o ...objstore.IterOption) error {
	if w.off.Load() {
		return errBucketOff
	}
	w.ev("iter", dir)
	return w.Bkt.Iter(ctx, dir, f, o...)
}
func (w *evBkt) IterWithAttributes(ctx context.Context, dir string, f func(objstore.IterObjectAttributes) error, o ...objstore.IterOption) error {
	if w.off.Load() {
		return errBucketOff
	}
	w.ev("iter", dir)
	return w.Bkt.IterWithAttributes(ctx, dir, f, o...)
}
func (w *evBkt) Upload(ctx context.Context, name string, r io.Reader, o ...objstore.ObjectUploadOption) error {
	if w.off.Load() {
		return errBucketOff
	}
	w.ev("upload", name)
	return w.Bkt.Upload(ctx, name, r, o...)
}
func (w *evBkt) Delete(ctx context.Context, name string) error {
	if w.off.Load() {
		return errBucketOff
	}
	w.ev("delete", name)
	return w.Bkt.Delete(ctx, name)
}
func (w *evBkt) WithExpectedErrs(objstore.IsOpFailureExpectedFunc) objstore.Bucket { return w }
func (w *evBkt) ReaderWithExpectedErrs(objstore.IsOpFailureExpectedFunc) objstore.BucketReader {
	return w
}

var _ objstore.InstrumentedBucket = (*evBkt)(nil)

// evLogger announces every log call (the compactor logs at the start of each phase of BucketCompactor.Compact, e.g.
// "start of GC" between its SyncMetas and Groups(sy.Metas())), which gives steps where no bucket operation happens.
type evLogger struct {
	next log.Logger
	ev   func(kind, name string)
}

func (l evLogger) Log(kv ...any) error {
	msg := ""
	for i := 0; i+1 < len(kv); i += 2 {
		if k, ok := kv[i].(string); ok && k == "msg" {
			msg = fmt.Sprint(kv[i+1])
		}
	}
	l.ev("log", msg)
	if l.next != nil {
		return l.next.Log(kv...)
	}
	return nil
}

// syncerOf returns the Syncer that rig.NewCompactor gave to the BucketCompactor, the retention pass and the cleanup
// (the rig keeps it in an unexported field; the rig belongs to C29 and is not edited).
func syncerOf(c *rig.Compactor) *compact.Syncer {
	f := reflect.ValueOf(c).Elem().FieldByName("sy")
	if !f.IsValid() || f.Type() != reflect.TypeOf((*compact.Syncer)(nil)) {
		panic("HARNESS-ERROR rig.Compactor has no field sy of type *compact.Syncer")
	}
	sy := *(**compact.Syncer)(unsafe.Pointer(f.UnsafeAddr()))
	if sy == nil {
		panic("HARNESS-ERROR rig.Compactor.sy is nil")
	}
	return sy
}

// checkSecondUser binds the model of the second user to the source: the progress loop of runCompact calls
// sy.SyncMetas on the Syncer that the BucketCompactor got and returns when it fails with a retriable error.
func checkSecondUser(t *testing.T) {
	src, err := vlib.ReadSource("cmd/thanos/compact.go")
	if err != nil {
		t.Fatalf("HARNESS-ERROR %v", err)
	}
	flat := strings.Join(strings.Fields(string(src)), " ")
	for _, frag := range []string{
		"sy, err = compact.NewMetaSyncer(",
		"compact.NewBucketCompactor( logger, sy,",
		"return runutil.Repeat(conf.progressCalculateInterval, ctx.Done(), func() error { if err := sy.SyncMetas(ctx); err != nil {",
		"if compact.IsRetryError(err) { level.Error(logger).Log(\"msg\", \"retriable error\", \"err\", err) compactMetrics.retried.Inc() return nil }",
	} {
		if !strings.Contains(flat, frag) {
			t.Fatalf("HARNESS-ERROR wiring drift: cmd/thanos/compact.go no longer contains %q (second Syncer user)", frag)
		}
	}
}

// ---------------------------------------------------------------------------------------------------------------
// one run with a second Syncer user

const (
	secondNone = "none" // the blocks are uploaded, nobody else syncs (reference of the oracle)
	secondOK   = "ok"   // the second user's sync meets no failure (discovery of its reads)
	secondFail = "fail" // the second user's sync meets the failure of the case
)

type sharedRun struct {
	*run
	sy     *compact.Syncer
	inject int
	second string

	injecting atomic.Bool
	inSecond  atomic.Bool

	emu       sync.Mutex
	armed     bool
	events    int
	evLog     []string
	injected  bool
	injectPos int // bucket log length at the injection
	syncN     int // fetcher sync number of the second user's sync (0: it did not run a fetch of its own)
	secondErr error
	panicked  any
}

func (s *sharedRun) ev(kind, name string) {
	if s.injecting.Load() {
		return
	}
	s.emu.Lock()
	if !s.armed || s.injected {
		s.emu.Unlock()
		return
	}
	if in, _ := s.comp.InSync(); in {
		s.emu.Unlock()
		return
	}
	s.events++
	n := s.events
	if s.inject == 0 {
		s.evLog = append(s.evLog, kind+" "+s.canon(name))
	}
	if n != s.inject {
		s.emu.Unlock()
		return
	}
	s.injected = true
	s.injecting.Store(true)
	s.emu.Unlock()
	defer s.injecting.Store(false)
	s.act()
}

// act is what happens between two steps of the iteration: uploads by a sidecar, then one round of the progress loop.
func (s *sharedRun) act() {
	ctx := context.Background()
	names := make([]string, 0, len(s.w.late))
	for k := range s.w.late {
		names = append(names, k)
	}
	sort.Strings(names)
	// meta.json last, as block.Upload does; not through the logged bucket: these are not operations of the compactor
	sort.SliceStable(names, func(i, j int) bool {
		return !strings.HasSuffix(names[i], "/meta.json") && strings.HasSuffix(names[j], "/meta.json")
	})
	for _, k := range names {
		if err := s.b.Inner().Upload(ctx, k, bytes.NewReader(s.w.late[k])); err != nil {
			panic("HARNESS-ERROR upload of a late block: " + err.Error())
		}
	}
	s.emu.Lock()
	s.injectPos = s.b.LogLen()
	s.emu.Unlock()
	if s.second == secondNone {
		return
	}
	before := s.comp.Syncs()
	s.inSecond.Store(true)
	func() {
		defer func() {
			if p := recover(); p != nil {
				s.panicked = p
			}
		}()
		// progress loop body: `if err := sy.SyncMetas(ctx); err != nil { if compact.IsRetryError(err) { ...; return nil }; return err }`
		// followed, on success only, by read-only progress calculations.
		s.secondErr = s.sy.SyncMetas(ctx)
	}()
	s.inSecond.Store(false)
	if s.comp.Syncs() == before+1 {
		s.syncN = before + 1
	}
	if s.second == secondOK && s.off != nil {
		s.off() // discovery only needs the reads of the second sync: the rest of the iteration is not of interest
	}
}

func newSharedRun(t *testing.T, wi rig.Wiring, w *world, lister, dir string, inject int, second string) *sharedRun {
	s := &sharedRun{inject: inject, second: second}
	s.run = newRunEv(t, wi, w, lister, dir, s.ev)
	s.sy = syncerOf(s.comp)
	// as run's callback, but without nesting the bucket lock inside run.mu (two users sync here)
	s.comp.OnSync = func(n int, start bool, _ error) {
		l := s.b.LogLen()
		s.mu.Lock()
		defer s.mu.Unlock()
		if start {
			s.syncStart[n] = l
		} else {
			s.syncEnd[n] = l
		}
	}
	return s
}

func (s *sharedRun) iteration(t *testing.T) (err error, panicked any) {
	s.prepare(t, "first")
	s.emu.Lock()
	s.armed = true
	s.emu.Unlock()
	return safeIteration(s.comp)
}

// semNames names every block of the final bucket: world blocks by role, blocks created by the compactor by their
// parents ("NEW(A+B)"), so that operations of two runs can be compared.
func (s *sharedRun) semNames() func(string) string {
	objs := s.b.Objects()
	memo := map[string]string{}
	var nameOf func(id string, depth int) string
	nameOf = func(id string, depth int) string {
		if r, ok := s.w.roles[id]; ok {
			return r
		}
		if n, ok := memo[id]; ok {
			return n
		}
		n := "NEW(no-meta)"
		if raw, ok := objs[id+"/meta.json"]; ok && depth < 8 {
			var m metadata.Meta
			if json.Unmarshal(raw, &m) == nil {
				var ps []string
				for _, p := range m.Compaction.Parents {
					ps = append(ps, nameOf(p.ULID.String(), depth+1))
				}
				sort.Strings(ps)
				n = "NEW(" + strings.Join(ps, "+") + ")"
			}
		}
		memo[id] = n
		return n
	}
	return func(name string) string {
		seg, rest := name, ""
		if i := strings.IndexByte(name, '/'); i >= 0 {
			seg, rest = name[:i], name[i:]
		}
		if _, err := ulid.Parse(seg); err != nil {
			return name
		}
		return nameOf(seg, 0) + rest
	}
}

// mutationsFrom lists the mutating operations attempted from log position pos on.
func (s *sharedRun) mutationsFrom(pos int) []string {
	sem := s.semNames()
	var out []string
	for _, op := range s.b.LogFrom(pos) {
		if op.Mut {
			out = append(out, op.Kind+" "+sem(op.Name))
		}
	}
	return out
}

// ---------------------------------------------------------------------------------------------------------------
// enumeration

type sharedKey struct {
	World, Lister string
	Inject        int
}

type sharedRef struct {
	once sync.Once
	muts map[string]bool
	n    int
	err  string
}

type sharedFamily struct {
	t    *testing.T
	r    *vlib.R
	wi   rig.Wiring
	tmp  string
	full *world
	lean *world

	mu   sync.Mutex
	refs map[sharedKey]*sharedRef
}

func (f *sharedFamily) world(name string) *world {
	if name == "lean" {
		return f.lean
	}
	return f.full
}

func (f *sharedFamily) bubble(fn func(t *testing.T, dir string)) (leaked bool) {
	return rig.Bubble(f.t, func(t *testing.T) {
		dir, err := os.MkdirTemp(f.tmp, "shared-")
		if err != nil {
			panic("HARNESS-ERROR " + err.Error())
		}
		defer os.RemoveAll(dir)
		fn(t, dir)
	})
}

// steps runs the iteration without a second user and returns its steps outside syncs.
func (f *sharedFamily) steps(world, lister string) (evs []string, muts []string) {
	f.bubble(func(t *testing.T, dir string) {
		s := newSharedRun(t, f.wi, f.world(world), lister, dir, 0, secondNone)
		from := 0
		s.prepare(t, "first")
		from = s.b.LogLen()
		s.emu.Lock()
		s.armed = true
		s.emu.Unlock()
		if err := s.comp.Iteration(context.Background()); err != nil {
			t.Fatalf("HARNESS-ERROR fault-free iteration (%s,%s) failed: %v", world, lister, err)
		}
		evs = append(evs, s.evLog...)
		for _, op := range s.b.LogFrom(from) {
			if op.Mut && op.Err == "" {
				muts = append(muts, op.Kind+" "+s.canon(op.Name))
			}
		}
	})
	return evs, muts
}

// discover runs the iteration with a failure-free second user at the step and returns the reads of its sync.
func (f *sharedFamily) discover(k sharedKey) (targets []target, err string) {
	f.bubble(func(t *testing.T, dir string) {
		s := newSharedRun(t, f.wi, f.world(k.World), k.Lister, dir, k.Inject, secondOK)
		existing := map[string]bool{}
		s.bkt.SetReadFault(func(kind, name string) string {
			if in, _ := s.comp.InSync(); in && s.inSecond.Load() && kind == "get" {
				if ok, _ := s.b.Inner().Exists(context.Background(), name); ok {
					s.mu.Lock()
					existing[name] = true
					s.mu.Unlock()
				}
			}
			return ""
		}, nil)
		iterErr, p := s.iteration(t)
		switch {
		case p != nil:
			err = fmt.Sprintf("panic %v", p)
		case !s.injected && iterErr != nil:
			err = "iteration failed: " + iterErr.Error()
		case !s.injected:
			err = "step not reached"
		case s.secondErr != nil || s.panicked != nil:
			err = fmt.Sprintf("failure-free second sync failed: %v %v", s.secondErr, s.panicked)
		case s.syncN == 0:
			err = "the second user's sync was merged with a sync of the iteration"
		}
		if err != "" {
			return
		}
		occ := map[string]int{}
		for _, op := range s.b.LogFrom(0)[s.syncStart[s.syncN]:s.syncEnd[s.syncN]] {
			if op.Mut {
				err = fmt.Sprintf("mutating op %v inside the second user's sync", op)
				return
			}
			key := op.Kind + " " + s.canon(op.Name)
			occ[key]++
			targets = append(targets, target{Kind: op.Kind, Name: s.canon(op.Name), Occ: occ[key], Exists: op.Kind == "get" && existing[op.Name]})
		}
	})
	sort.SliceStable(targets, func(i, j int) bool {
		a, b := targets[i], targets[j]
		if a.Kind != b.Kind {
			return a.Kind < b.Kind
		}
		if a.Name != b.Name {
			return a.Name < b.Name
		}
		return a.Occ < b.Occ
	})
	return targets, err
}

// ref: same uploads at the same step, no second user.
func (f *sharedFamily) ref(k sharedKey) *sharedRef {
	f.mu.Lock()
	rf, ok := f.refs[k]
	if !ok {
		rf = &sharedRef{}
		f.refs[k] = rf
	}
	f.mu.Unlock()
	rf.once.Do(func() {
		f.r.Add("shared_reference_runs", 1)
		f.bubble(func(t *testing.T, dir string) {
			s := newSharedRun(t, f.wi, f.world(k.World), k.Lister, dir, k.Inject, secondNone)
			iterErr, p := s.iteration(t)
			switch {
			case p != nil:
				rf.err = fmt.Sprintf("panic %v", p)
			case iterErr != nil:
				rf.err = "iteration failed: " + iterErr.Error()
			case !s.injected:
				rf.err = "step not reached"
			}
			if rf.err != "" {
				return
			}
			rf.muts = map[string]bool{}
			for _, m := range s.mutationsFrom(s.injectPos) {
				rf.muts[m] = true
				rf.n++
			}
		})
	})
	return rf
}

// cases enumerates the family: world x lister x step x read of the second user's sync x fault mode.
func (f *sharedFamily) cases() []Case {
	r := f.r
	// Small alphabet of failing reads ("late"): the listing; the meta.json Get of EACH block that no complete sync has
	// seen (only those are fetched from the bucket, and each gives a different incomplete view); the Exists probe, the
	// deletion-mark and the no-compact-mark Get of ONE such block (a failed probe / marker read aborts the sync
	// without any view, whatever the block). Full alphabet ("all"): every read of the second user's sync.
	type cfg struct {
		world, lister string
		all           bool // alphabet of failing reads
		modes         bool // also body-read / half-listing failures (their classification by the fetcher is enumerated on every read by the own-sync family)
	}
	cfgs := vlib.Pick(r,
		[]cfg{{"lean", "concurrent", false, false}},
		[]cfg{{"lean", "concurrent", true, true}, {"lean", "recursive", true, true}, {"full", "concurrent", false, true}})
	cfgOf := map[sharedKey]cfg{}
	inQuick := func(x target) bool {
		switch {
		case x.Kind == "iter":
			return true
		case x.Kind == "get" && strings.HasSuffix(x.Name, "/meta.json"):
			return strings.HasPrefix(x.Name, "C/") || strings.HasPrefix(x.Name, "D/")
		}
		// the no-downsample marks have no consumer in this rig (downsampling is a no-op here): full alphabet only
		return strings.HasPrefix(x.Name, "C/") && !strings.HasSuffix(x.Name, "/no-downsample-mark.json")
	}
	type job struct {
		k       sharedKey
		targets []target
		err     string
	}
	var jobs []*job
	for _, cf := range cfgs {
		evs, muts := f.steps(cf.world, cf.lister)
		requireSharedWork(f.t, cf.world, muts)
		r.Note("shared family, world %s lister %s: %d steps outside syncs: %v", cf.world, cf.lister, len(evs), evs)
		for i := range evs {
			k := sharedKey{cf.world, cf.lister, i + 1}
			cfgOf[k] = cf
			jobs = append(jobs, &job{k: k})
		}
	}
	// discovery of the second sync's reads, one run per step, on all cores
	ch := make(chan *job)
	var wg sync.WaitGroup
	for i := 0; i < runtime.GOMAXPROCS(0); i++ {
		wg.Add(1)
		go func() {
			defer wg.Done()
			for j := range ch {
				j.targets, j.err = f.discover(j.k)
			}
		}()
	}
	for _, j := range jobs {
		ch <- j
	}
	close(ch)
	wg.Wait()
	r.Add("shared_discovery_runs", int64(len(jobs)))
	var out []Case
	kinds := map[string]int{}
	for _, j := range jobs {
		if j.err != "" {
			// a failure-free second user breaks the iteration on this tree: not a verdict on C33 by itself, but no case
			// can be built for this step
			r.Cap("second-user discovery failed at some step")
			r.Note("discovery %+v: %s", j.k, j.err)
			continue
		}
		for _, x := range j.targets {
			cf := cfgOf[j.k]
			if !cf.all && !inQuick(x) {
				continue
			}
			kinds[x.Kind+" "+x.Name[strings.LastIndexByte(x.Name, '/')+1:]]++
			for _, m := range modesFor(x.Kind, j.k.Lister) {
				if m == "body" && !x.Exists {
					continue
				}
				if !cf.modes && m != "call" {
					continue
				}
				out = append(out, Case{Family: "shared", World: j.k.World, Lister: j.k.Lister, Inject: j.k.Inject, Scenario: "first",
					Kind: x.Kind, Name: x.Name, Occ: x.Occ, Mode: m})
			}
		}
	}
	r.Note("shared family: %d steps, reads of the second user's sync by kind/file: %v, %d cases", len(jobs), kinds, len(out))
	return out
}

func requireSharedWork(t *testing.T, world string, mutLog []string) {
	has := func(s string) bool {
		for _, l := range mutLog {
			if l == s {
				return true
			}
		}
		return false
	}
	if world == "full" {
		requireWork(t, "first", mutLog)
		return
	}
	for _, s := range []string{"upload P/deletion-mark.json", "delete M/meta.json", "delete U/index", "upload R/deletion-mark.json"} {
		if !has(s) {
			t.Fatalf("HARNESS-ERROR world lean: the fault-free iteration lacks the pending work %q; mutations: %v", s, mutLog)
		}
	}
	for _, l := range mutLog {
		if strings.HasPrefix(l, "upload NEW") || l == "upload A/deletion-mark.json" {
			t.Fatalf("HARNESS-ERROR world lean: the complete view has a pending compaction: %v", mutLog)
		}
	}
}

// eval runs one case of the family.
func (f *sharedFamily) eval(c Case) {
	r := f.r
	k := sharedKey{c.World, c.Lister, c.Inject}
	rf := f.ref(k)
	if rf.err != "" {
		// the iteration without any second user and without any failure does not complete on this tree
		r.Violation("reference-iteration-broken", fmt.Sprintf("step %d (%s,%s): the iteration with late uploads and no second user: %s", c.Inject, c.World, c.Lister, rf.err), c)
		return
	}
	leaked := f.bubble(func(t *testing.T, dir string) {
		s := newSharedRun(t, f.wi, f.world(c.World), c.Lister, dir, c.Inject, secondFail)
		var fmu sync.Mutex
		failPos, occ := -1, 0
		inTarget := func(kind, name string) bool {
			in, _ := s.comp.InSync()
			return in && s.inSecond.Load() && kind == c.Kind && s.canon(name) == c.Name
		}
		if c.Mode == "call" {
			s.b.ReadPhase = func() bool { in, _ := s.comp.InSync(); return in && s.inSecond.Load() }
			s.b.FailReadFilter = func(kind, name string) bool { return kind == c.Kind && s.canon(name) == c.Name }
			s.b.FailRead = c.Occ
		} else {
			s.bkt.SetReadFault(func(kind, name string) string {
				if !inTarget(kind, name) {
					return ""
				}
				fmu.Lock()
				defer fmu.Unlock()
				occ++
				if occ != c.Occ {
					return ""
				}
				return c.Mode
			}, func(string, string) {
				fmu.Lock()
				defer fmu.Unlock()
				if failPos < 0 {
					failPos = s.b.LogLen()
				}
			})
		}
		iterErr, p := s.iteration(t)
		if c.Mode == "call" && s.b.FailedOp != nil {
			failPos = s.b.FailedOp.Seq
		}
		if p != nil || s.panicked != nil {
			r.Violation("panic-with-second-syncer-user", fmt.Sprintf("step %d: second user's sync with failing %s(%s): panic %v %v", c.Inject, c.Kind, c.Name, p, s.panicked), c)
			return
		}
		if !s.injected || failPos < 0 {
			r.Cap("a targeted read of the second user's sync was not issued in the faulty run (run not deterministic up to the fault)")
			r.Note("target not reached: %+v", c)
			return
		}
		switch {
		case s.secondErr == nil:
			r.Outcome("second-sync-succeeded-despite-failed-read")
		case rig.IsRetry(s.secondErr) && strings.Contains(s.secondErr.Error(), "incomplete view"):
			r.Outcome("second-sync-retry-error-incomplete-view")
		case rig.IsRetry(s.secondErr):
			r.Outcome("second-sync-retry-error-other")
		default:
			r.Outcome("second-sync-non-retry-error")
		}
		if iterErr == nil {
			r.Outcome("shared:iteration-completed")
		} else {
			r.Outcome("shared:iteration-aborted")
		}
		if rf.n > 0 || r.Replaying() {
			r.Nontrivial(fmt.Sprint(c))
		}
		var extra []string
		after := s.mutationsFrom(failPos)
		for _, m := range after {
			if strings.HasPrefix(m, "upload NEW") && strings.HasSuffix(m, "/meta.json") {
				r.Add("shared_faulty_runs_compactions", 1)
			}
			if !rf.muts[m] {
				extra = append(extra, m)
			}
		}
		if len(extra) == 0 {
			return
		}
		what := "marks"
		for _, a := range extra {
			if strings.HasPrefix(a, "delete ") {
				what = "deletes"
			}
		}
		for _, a := range extra {
			if strings.HasPrefix(a, "upload NEW") {
				what = "compacts"
			}
		}
		file := c.Name[strings.LastIndexByte(c.Name, '/')+1:]
		if c.Kind == "iter" {
			file = "listing"
		}
		sig := fmt.Sprintf("%s-on-view-of-failed-sync-of-other-syncer-user-%s-%s", what, c.Kind, strings.TrimSuffix(file, ".json"))
		r.Violation(sig, fmt.Sprintf("before step %d of the iteration blocks C,D were uploaded and the progress loop's SyncMetas on the shared Syncer failed (%s(%s) #%d %s; err=%v); "+
			"the iteration (err=%v) then attempted %d mutating bucket operations that it does not attempt without that failed sync: %v",
			c.Inject, c.Kind, c.Name, c.Occ, c.Mode, s.secondErr, iterErr, len(extra), trunc(extra, 12)), c)
	})
	if leaked {
		r.Add("runs_with_leaked_goroutines", 1)
	}
}
