// C37: downsampled counters preserve the raw counter's increase.
//
// Engine E4. Every raw counter series of two bounded families is downsampled raw -> 5m (DownsampleRaw) and
// 5m -> 1h (the unexported downsampleAggr, called exactly like Downsample() calls it). At both levels the
// counter aggregate is read with downsample.NewApplyCounterResetsIterator and through the querier
// (query.NewPromSeriesSet, Aggr_COUNTER). At every emitted timestamp T the value must be the raw counter
// adjusted for all resets up to the last raw sample with t <= T.
//
//	grid : all assignments of {absent, 0, 1, 5, StaleNaN} to an edge grid (window start, +1ms, window end) of
//	       three consecutive 5m windows that straddle a 1h boundary, times every way to cut the series between
//	       windows into separately downsampled pieces (what compaction of 5m blocks concatenates) - so resets
//	       sit at the first/last sample of a chunk and between chunks, in the smallest possible series.
//	long : regular counters long enough for the real batching to cut 2..14 chunks at 5m and 1..5 at 1h; a reset
//	       (optionally preceded by a stale marker) at every position of the neighbourhood of every chunk
//	       boundary and of both ends, all subsets of size <= 2 (thorough: every position, every close pair).
package c37

import (
	"fmt"
	"iter"
	"math"
	"sort"
	"testing"

	"github.com/prometheus/prometheus/model/histogram"
	"github.com/prometheus/prometheus/model/labels"
	"github.com/prometheus/prometheus/model/value"
	"github.com/prometheus/prometheus/tsdb/chunkenc"
	"github.com/prometheus/prometheus/tsdb/chunks"

	"github.com/thanos-io/thanos/pkg/compact/downsample"
	"github.com/thanos-io/thanos/pkg/query"
	"github.com/thanos-io/thanos/pkg/store/storepb"

	"verif/vlib"
)

const (
	res5m = int64(5 * 60 * 1000)
	res1h = int64(60 * 60 * 1000)
)

type Case struct {
	Fam string `json:"fam"`

	// grid
	Base int64 `json:"base,omitempty"` // index of the first 5m window
	Pos  []int `json:"pos,omitempty"`  // window*3 + {0:start,1:start+1,2:end}
	Syms []int `json:"syms,omitempty"` // 0 absent, 1 -> 0, 2 -> 1, 3 -> 5, 4 -> stale marker
	Cuts int   `json:"cuts,omitempty"` // bit w: the series is cut after window w into a new piece

	// long
	N      int   `json:"n,omitempty"`
	Step   int64 `json:"step,omitempty"`
	Off    int64 `json:"off,omitempty"`
	Resets []int `json:"resets,omitempty"` // sample indexes at which the counter resets
	Stale  bool  `json:"stale,omitempty"`  // the sample before each reset is a stale marker
}

var staleNaN = math.Float64frombits(value.StaleNaN)

type smp struct {
	t int64
	v float64
}

func (s smp) T() int64                      { return s.t }
func (s smp) F() float64                    { return s.v }
func (s smp) H() *histogram.Histogram       { return nil }
func (s smp) FH() *histogram.FloatHistogram { return nil }
func (s smp) Type() chunkenc.ValueType      { return chunkenc.ValFloat }
func (s smp) Copy() chunks.Sample           { return s }

// build returns the raw series cut into pieces (each piece is downsampled on its own).
func build(c Case) [][]smp {
	switch c.Fam {
	case "grid":
		vals := []float64{0, 0, 1, 5, staleNaN}
		pieces := [][]smp{nil}
		lastW := -1
		for i, p := range c.Pos {
			w, o := p/3, p%3
			if lastW >= 0 && w != lastW {
				for x := lastW; x < w; x++ {
					if c.Cuts&(1<<uint(x)) != 0 {
						pieces = append(pieces, nil)
						break
					}
				}
			}
			lastW = w
			if c.Syms[i] == 0 {
				continue
			}
			t := (c.Base + int64(w)) * res5m
			switch o {
			case 1:
				t++
			case 2:
				t += res5m - 1
			}
			pieces[len(pieces)-1] = append(pieces[len(pieces)-1], smp{t, vals[c.Syms[i]]})
		}
		return pieces
	case "long":
		isReset := map[int]bool{}
		for _, i := range c.Resets {
			isReset[i] = true
		}
		out := make([]smp, 0, c.N)
		t := res5m + c.Off
		prev := 1.0
		for i := 0; i < c.N; i++ {
			v := prev + 3
			if isReset[i] {
				if prev > 1 {
					v = 1
				} else {
					v = 0
				}
			}
			prev = v
			if c.Stale && isReset[i+1] {
				out = append(out, smp{t, staleNaN})
			} else {
				out = append(out, smp{t, v})
			}
			t += c.Step
		}
		return [][]smp{out}
	}
	return nil
}

type tv struct {
	t int64
	v float64
}

func drain(it chunkenc.Iterator) ([]tv, error) {
	var out []tv
	for it.Next() != chunkenc.ValNone {
		t, v := it.At()
		out = append(out, tv{t, v})
	}
	return out, it.Err()
}

type oneSeries struct {
	chks []storepb.AggrChunk
	done bool
}

func (s *oneSeries) Next() bool {
	if s.done {
		return false
	}
	s.done = true
	return true
}
func (s *oneSeries) At() (labels.Labels, []storepb.AggrChunk) {
	return labels.FromStrings("__name__", "c_total"), s.chks
}
func (s *oneSeries) Err() error { return nil }

type level struct {
	name  string
	metas []chunks.Meta
}

func eval(r *vlib.R, c Case) {
	pieces := build(c)

	// reference: reset-adjusted raw counter over the non-NaN raw samples.
	var rawT []int64
	var adj []float64
	var resetAt []bool // per non-NaN raw sample: the raw value dropped below its predecessor
	var last float64
	nResets := 0
	for _, p := range pieces {
		for _, s := range p {
			if math.IsNaN(s.v) {
				continue
			}
			switch {
			case len(adj) == 0:
				adj = append(adj, s.v)
				resetAt = append(resetAt, false)
			case s.v < last:
				adj = append(adj, adj[len(adj)-1]+s.v)
				resetAt = append(resetAt, true)
				nResets++
			default:
				adj = append(adj, adj[len(adj)-1]+s.v-last)
				resetAt = append(resetAt, false)
			}
			last = s.v
			rawT = append(rawT, s.t)
		}
	}
	expectAt := func(T int64) (float64, bool) {
		i := sort.Search(len(rawT), func(i int) bool { return rawT[i] > T })
		if i == 0 {
			return 0, false
		}
		return adj[i-1], true
	}

	// level 1: raw -> 5m, each piece on its own, chunks concatenated in time order.
	var l1 []chunks.Meta
	for _, p := range pieces {
		in := make([]chunks.Sample, len(p))
		for i, s := range p {
			in[i] = s
		}
		l1 = append(l1, downsample.DownsampleRaw(downsample.SamplesFromTSDBSamples(in), res5m)...)
	}
	r.Sample(c)
	if len(l1) == 0 {
		if len(rawT) != 0 {
			r.Violation("no-output-for-non-empty-series", fmt.Sprintf("%d raw samples, no 5m chunk", len(rawT)), c)
		}
		return
	}

	// where do the resets sit relative to the 5m chunks? (evidence of non-vacuity)
	if nResets > 0 && len(l1) >= 2 {
		first, lastS := false, false
		for k, m := range l1 {
			// first raw sample of chunk k = first raw sample after the previous chunk's MaxTime
			var lo int
			if k > 0 {
				lo = sort.Search(len(rawT), func(i int) bool { return rawT[i] > l1[k-1].MaxTime })
			}
			hi := sort.Search(len(rawT), func(i int) bool { return rawT[i] > m.MaxTime }) - 1
			if k > 0 && lo < len(rawT) && resetAt[lo] {
				first = true
			}
			if hi >= 0 && hi < len(rawT) && resetAt[hi] {
				lastS = true
			}
		}
		if first {
			r.Add("cases_reset_between_chunks", 1)
		}
		if lastS {
			r.Add("cases_reset_at_last_sample_of_chunk", 1)
		}
		if first || lastS {
			r.Nontrivial(fmt.Sprint(c))
		}
	}

	aggr := make([]*downsample.AggrChunk, len(l1))
	for i, m := range l1 {
		ac, ok := m.Chunk.(*downsample.AggrChunk)
		if !ok {
			r.Violation("output-not-aggr-chunk", fmt.Sprintf("5m chunk %d is %T", i, m.Chunk), c)
			return
		}
		aggr[i] = ac
	}
	// level 2: 5m -> 1h, as Downsample() does for one series.
	l2, err := downsample.VerifC37DownsampleAggr(aggr, l1[0].MinTime, l1[len(l1)-1].MaxTime, res5m, res1h)
	if err != nil {
		r.Violation("level2-downsample-error", err.Error(), c)
		l2 = nil
	}
	if len(l2) >= 2 {
		r.Add("cases_with_2plus_1h_chunks", 1)
	}

	for _, lv := range []level{{"5m", l1}, {"1h", l2}} {
		if len(lv.metas) == 0 {
			continue
		}
		var its []chunkenc.Iterator
		var pb []storepb.AggrChunk
		ok := true
		for i, m := range lv.metas {
			ac, isA := m.Chunk.(*downsample.AggrChunk)
			if !isA {
				r.Violation("output-not-aggr-chunk", fmt.Sprintf("%s chunk %d is %T", lv.name, i, m.Chunk), c)
				ok = false
				break
			}
			sub, err := ac.Get(downsample.AggrCounter)
			if err != nil {
				r.Violation("counter-aggregate-missing", fmt.Sprintf("%s chunk %d: %v", lv.name, i, err), c)
				ok = false
				break
			}
			its = append(its, sub.Iterator(nil))
			pb = append(pb, storepb.AggrChunk{MinTime: m.MinTime, MaxTime: m.MaxTime, Counter: &storepb.Chunk{Type: storepb.Chunk_XOR, Data: sub.Bytes()}})
		}
		if !ok {
			continue
		}
		check := func(reader string, em []tv, err error) {
			if err != nil {
				r.Violation("counter-read-error", fmt.Sprintf("%s %s: %v", lv.name, reader, err), c)
				return
			}
			if len(em) == 0 {
				r.Violation("counter-read-yields-nothing", fmt.Sprintf("%s %s: no sample for %d raw samples", lv.name, reader, len(rawT)), c)
				return
			}
			for _, e := range em {
				want, ok := expectAt(e.t)
				if !ok {
					r.Violation("counter-emitted-before-first-raw-sample", fmt.Sprintf("%s %s: t=%d v=%v, first raw sample at %d", lv.name, reader, e.t, e.v, rawT[0]), c)
					return
				}
				if e.v != want {
					sig := "counter-value-wrong-" + lv.name
					r.Violation(sig, fmt.Sprintf("%s %s: t=%d yields %v, reset-adjusted raw counter is %v (%d resets, %d chunks)", lv.name, reader, e.t, e.v, want, nResets, len(lv.metas)), c)
					return
				}
			}
			if em[len(em)-1].t < rawT[len(rawT)-1] {
				r.Add("reads_ending_before_last_raw_sample", 1)
			}
		}
		em, err := drain(downsample.NewApplyCounterResetsIterator(its...))
		check("ApplyCounterResetsIterator", em, err)

		for _, rg := range [][2]int64{{0, math.MaxInt64}, {lv.metas[0].MinTime, lv.metas[len(lv.metas)-1].MaxTime}} {
			ss := query.NewPromSeriesSet(&oneSeries{chks: pb}, rg[0], rg[1], []storepb.Aggr{storepb.Aggr_COUNTER}, nil)
			ss.Next()
			em, err := drain(ss.At().Iterator(nil))
			check(fmt.Sprintf("querier[%d,%d]", rg[0], rg[1]), em, err)
		}
	}
}

type longCfg struct {
	step int64
	n    int
}

// boundaries returns, for a reset-free series, the index of the first raw sample of every 5m chunk but the
// first, as cut by the real DownsampleRaw (the cut depends on timestamps only).
func boundaries(c Case) []int {
	c.Resets, c.Stale = nil, false
	p := build(c)[0]
	in := make([]chunks.Sample, len(p))
	for i, s := range p {
		in[i] = s
	}
	var out []int
	ms := downsample.DownsampleRaw(downsample.SamplesFromTSDBSamples(in), res5m)
	for _, m := range ms[:len(ms)-1] {
		out = append(out, sort.Search(len(p), func(i int) bool { return p[i].t > m.MaxTime }))
	}
	return out
}

func gen(r *vlib.R) iter.Seq[Case] {
	return func(yield func(Case) bool) {
		// ---- grid
		pos := vlib.Pick(r, []int{0, 2, 3, 4, 5, 6, 8}, []int{0, 1, 2, 3, 4, 5, 6, 7, 8})
		for _, base := range []int64{10, 11} { // windows 10,11 | 12 and 11 | 12,13 : the 1h boundary is after window 11
			for cuts := 0; cuts < 4; cuts++ {
				for syms := range vlib.Tuples(len(pos), 5) {
					if !yield(Case{Fam: "grid", Base: base, Pos: pos, Syms: syms, Cuts: cuts}) {
						return
					}
				}
			}
		}
		// ---- long
		cfgs := []longCfg{{60_000, 720}, {60_000, 1430}, {300_000, 1700}, {60_000, 8500}}
		if r.Thorough() {
			cfgs = append(cfgs, longCfg{15_000, 2900}, longCfg{300_000, 3400}, longCfg{300_007, 1700})
		}
		for _, cf := range cfgs {
			for _, off := range []int64{0, res5m - 1} {
				base := Case{Fam: "long", N: cf.n, Step: cf.step, Off: off}
				set := map[int]bool{1: true, 2: true, cf.n - 2: true, cf.n - 1: true}
				for _, b := range boundaries(base) {
					for d := -2; d <= 2; d++ {
						if b+d >= 1 && b+d < cf.n {
							set[b+d] = true
						}
					}
				}
				var P []int
				for i := range set {
					P = append(P, i)
				}
				sort.Ints(P)
				var resets [][]int
				resets = append(resets, nil)
				for i, a := range P {
					resets = append(resets, []int{a})
					for _, b := range P[i+1:] {
						resets = append(resets, []int{a, b})
					}
				}
				if r.Thorough() {
					for i := 1; i < cf.n; i++ {
						if !set[i] {
							resets = append(resets, []int{i})
						}
						for d := 1; d <= 2; d++ {
							if i+d < cf.n && !(set[i] && set[i+d]) {
								resets = append(resets, []int{i, i + d})
							}
						}
					}
				}
				for _, rs := range resets {
					for _, stale := range []bool{false, true} {
						if stale && len(rs) == 0 {
							continue
						}
						cc := base
						cc.Resets, cc.Stale = rs, stale
						if !yield(cc) {
							return
						}
					}
				}
			}
		}
	}
}

func TestCheck(t *testing.T) {
	r := vlib.New(t, "C37")
	defer r.Finish()
	r.Rule("grid: all assignments of {absent,0,1,5,stale} to the edge grid of three 5m windows straddling a 1h boundary x every cut of the series into separately downsampled pieces; " +
		"long: regular counters (2..14 chunks at 5m, 1..3 at 1h) with resets at all subsets (size<=2) of the positions around every real chunk boundary and both ends, with/without a stale marker before the reset " +
		"(thorough: every position and every pair at distance <=2). non-trivial = a reset on the first sample of a 5m chunk (reset between chunks) or on the last sample of a chunk")
	r.Assume("counter values are small non-negative integers (exact float arithmetic); timestamps > 0 and strictly increasing",
		"pieces model the concatenation of chunks of adjacent 5m blocks by compaction; level 2 is downsampleAggr called with (all chunks, first MinTime, last MaxTime, 5m, 1h) as in Downsample()")
	vlib.ForEach(r, gen(r), func(c Case) { eval(r, c) })
}
