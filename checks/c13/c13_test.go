// C13: two different cached items never share a cache key.
// Engine E4: bounded-exhaustive enumeration of items; the oracle is injectivity of item -> key, decided by inserting
// every key of every item into one map per key space and reporting any key that is reached from two different items.
//
// Key spaces (each is one real cache namespace):
//
//	index    keys of the remote index cache: CacheKey.String() built directly (both compression settings, two blocks) and
//	         the keys that RemoteIndexCache really passes to its client in Store*/Fetch* (recording client), for
//	         P  posting lists      item = (block, label name, label value, compression)
//	         EP expanded postings  item = (block, matcher list, compression)   [string form = LabelMatchersToString]
//	         S  series             item = (block, series ref)
//	matchers keys of LruMatchersCache (cacheKey):  item = (name, matcher type, value)
//
// Every index item is additionally driven through a real InMemoryIndexCache (fetch-before-store: a hit on an item that
// was never stored is answered with another item's data, i.e. two items share the in-memory map key).
//
// EP label names are UTF-8 names: besides the token words, every name of 1..3 (thorough 4) characters over
// {a b ! = ~ " ; : , ' ' {} (matcher syntax and key separators) with all four matcher types, pairs over names of that
// alphabet, and the parse-back closure: the string the real code emits for a (small) matcher list is cut at every
// operator occurrence and read back as ONE matcher (name = text before the operator, raw or unquoted), so a name that
// spells out a whole matcher plus separator is always in the space, whatever format the builder uses.
//
// Alphabets are token alphabets: one token per separator / quoting character the key builders emit (':' for P,
// ';' '"' '\' '=' '~' and the composite fragments `;a=` and `";a="` for EP, '=' '~' '!' for the matchers cache) plus an
// ordinary letter, plus the characters a repair is likely to introduce ('\', ':', '1' for escaping / length prefixes), so
// that a proposed fix is checked by the same enumeration.
package c13

import (
	"context"
	"encoding/json"
	"fmt"
	"iter"
	"strconv"
	"strings"
	"testing"
	"time"
	"unicode/utf8"

	"github.com/go-kit/log"
	"github.com/oklog/ulid/v2"
	"github.com/prometheus/prometheus/model/labels"
	"github.com/prometheus/prometheus/storage"

	storecache "github.com/thanos-io/thanos/pkg/store/cache"
	"github.com/thanos-io/thanos/pkg/store/storepb"

	"verif/vlib"
)

type M struct {
	N string `json:"n"`
	T int    `json:"t"` // labels.MatchType: 0 =, 1 !=, 2 =~, 3 !~
	V string `json:"v"`
}

type Item struct {
	Kind  string `json:"kind"` // P | EP | S | MC
	Block int    `json:"block,omitempty"`
	Comp  string `json:"comp,omitempty"`
	Name  string `json:"name,omitempty"`
	Value string `json:"value,omitempty"`
	Type  int    `json:"type,omitempty"`
	Ms    []M    `json:"ms,omitempty"`
	ID    uint64 `json:"id,omitempty"`
}

type Case struct {
	A Item  `json:"a"`
	B *Item `json:"b,omitempty"`
}

// ident is the identity of an item (words never contain NUL, so the rendering is injective; parseIdent inverts it).
func (it Item) ident() string { return string(it.appendIdent(nil)) }

func (it Item) appendIdent(b []byte) []byte {
	b = append(b, it.Kind...)
	b = append(b, byte('0'+it.Block))
	b = append(b, it.Comp...)
	b = append(b, 0)
	b = append(b, it.Name...)
	b = append(b, 0, byte('0'+it.Type))
	b = append(b, it.Value...)
	b = append(b, 0)
	b = strconv.AppendUint(b, it.ID, 10)
	for _, m := range it.Ms {
		b = append(b, 0)
		b = append(b, m.N...)
		b = append(b, 0, byte('0'+m.T))
		b = append(b, m.V...)
	}
	return b
}

// parseIdent rebuilds the item from its identity (the enumeration keeps identities only, 5x smaller than items).
func parseIdent(id string) Item {
	f := strings.Split(id, "\x00")
	if len(f) < 4 || len(f)%2 != 0 {
		panic("HARNESS-ERROR bad ident " + strconv.Quote(id))
	}
	var it Item
	for _, k := range []string{"MC", "EP", "P", "S"} {
		if strings.HasPrefix(f[0], k) {
			it.Kind = k
			break
		}
	}
	rest := f[0][len(it.Kind):]
	it.Block, it.Comp = int(rest[0]-'0'), rest[1:]
	it.Name = f[1]
	it.Type, it.Value = int(f[2][0]-'0'), f[2][1:]
	it.ID, _ = strconv.ParseUint(f[3], 10, 64)
	for i := 4; i < len(f); i += 2 {
		it.Ms = append(it.Ms, M{N: f[i], T: int(f[i+1][0] - '0'), V: f[i+1][1:]})
	}
	if it.ident() != id {
		panic("HARNESS-ERROR ident does not round-trip " + strconv.Quote(id))
	}
	return it
}

var blocks = []ulid.ULID{
	ulid.MustParse("01ARZ3NDEKTSV4RRFFQ69G5FAV"),
	ulid.MustParse("01ARZ3NDEKTSV4RRFFQ69G5FAW"),
}

var typeStr = []string{"=", "!=", "=~", "!~"}

// ---- recording remote cache client ------------------------------------------------------------------------------

type recClient struct {
	lastSet string
	lastGet []string
	data    map[string][]byte // nil: record keys only
}

func (c *recClient) GetMulti(_ context.Context, keys []string) map[string][]byte {
	c.lastGet = append(c.lastGet[:0], keys...)
	out := map[string][]byte{}
	for _, k := range keys {
		if v, ok := c.data[k]; ok {
			out[k] = v
		}
	}
	return out
}
func (c *recClient) SetAsync(key string, value []byte, _ time.Duration) error {
	c.lastSet = key
	if c.data != nil {
		c.data[key] = value
	}
	return nil
}
func (c *recClient) Stop() {}

type env struct {
	cl *recClient
	rc *storecache.RemoteIndexCache
	mc *storecache.InMemoryIndexCache
}

func newMem(t testing.TB) *storecache.InMemoryIndexCache {
	mc, err := storecache.NewInMemoryIndexCacheWithConfig(log.NewNopLogger(), nil, nil,
		storecache.InMemoryIndexCacheConfig{MaxSize: 1 << 40, MaxItemSize: 1 << 20})
	if err != nil {
		t.Fatalf("HARNESS-ERROR NewInMemoryIndexCacheWithConfig: %v", err)
	}
	return mc
}

// memFetch looks the item up in the in-memory index cache.
func memFetch(mc *storecache.InMemoryIndexCache, it Item) ([]byte, bool) {
	ctx := context.Background()
	switch it.Kind {
	case "P":
		l := labels.Label{Name: it.Name, Value: it.Value}
		hits, _ := mc.FetchMultiPostings(ctx, blocks[it.Block], []labels.Label{l}, "t")
		v, ok := hits[l]
		return v, ok
	case "EP":
		return mc.FetchExpandedPostings(ctx, blocks[it.Block], promMatchers(it.Ms), "t")
	case "S":
		hits, _ := mc.FetchMultiSeries(ctx, blocks[it.Block], []storage.SeriesRef{storage.SeriesRef(it.ID)}, "t")
		v, ok := hits[storage.SeriesRef(it.ID)]
		return v, ok
	}
	panic("kind " + it.Kind)
}

func memStore(mc *storecache.InMemoryIndexCache, it Item, data []byte) {
	switch it.Kind {
	case "P":
		mc.StorePostings(blocks[it.Block], labels.Label{Name: it.Name, Value: it.Value}, data, "t")
	case "EP":
		mc.StoreExpandedPostings(blocks[it.Block], promMatchers(it.Ms), data, "t")
	case "S":
		mc.StoreSeries(blocks[it.Block], storage.SeriesRef(it.ID), data, "t")
	default:
		panic("kind " + it.Kind)
	}
}

// memEligible: the in-memory cache has no compression dimension, so only one compression setting per item goes there.
func memEligible(it Item) bool {
	switch it.Kind {
	case "S":
		return true
	case "P", "EP":
		return it.Comp == "dss"
	}
	return false
}

func newEnv(t testing.TB, withData bool) *env {
	cl := &recClient{}
	if withData {
		cl.data = map[string][]byte{}
	}
	rc, err := storecache.NewRemoteIndexCache(log.NewNopLogger(), cl, nil, nil, time.Hour)
	if err != nil {
		t.Fatalf("HARNESS-ERROR NewRemoteIndexCache: %v", err)
	}
	return &env{cl: cl, rc: rc, mc: newMem(t)}
}

func promMatchers(ms []M) []*labels.Matcher {
	out := make([]*labels.Matcher, len(ms))
	for i, m := range ms {
		// a struct literal: String() (all the key builder uses) needs no compiled regexp
		out[i] = &labels.Matcher{Type: labels.MatchType(m.T), Name: m.N, Value: m.V}
	}
	return out
}

// keysOf returns every key under which the real code files the item.
func (e *env) keysOf(it Item) []string {
	ctx := context.Background()
	switch it.Kind {
	case "P":
		l := labels.Label{Name: it.Name, Value: it.Value}
		ks := []string{storecache.CacheKey{Block: blocks[it.Block].String(), Key: storecache.CacheKeyPostings(l), Compression: it.Comp}.String()}
		if it.Comp == "dss" { // what RemoteIndexCache uses
			e.rc.StorePostings(blocks[it.Block], l, nil, "t")
			e.rc.FetchMultiPostings(ctx, blocks[it.Block], []labels.Label{l}, "t")
			ks = append(ks, e.cl.lastSet, e.cl.lastGet[0])
		}
		return ks
	case "EP":
		ms := promMatchers(it.Ms)
		ks := []string{storecache.CacheKey{Block: blocks[it.Block].String(), Key: storecache.CacheKeyExpandedPostings(storecache.LabelMatchersToString(ms)), Compression: it.Comp}.String()}
		if it.Comp == "dss" {
			e.rc.StoreExpandedPostings(blocks[it.Block], ms, nil, "t")
			e.rc.FetchExpandedPostings(ctx, blocks[it.Block], ms, "t")
			ks = append(ks, e.cl.lastSet, e.cl.lastGet[0])
		}
		return ks
	case "S":
		ks := []string{storecache.CacheKey{Block: blocks[it.Block].String(), Key: storecache.CacheKeySeries(it.ID)}.String()}
		e.rc.StoreSeries(blocks[it.Block], storage.SeriesRef(it.ID), nil, "t")
		e.rc.FetchMultiSeries(ctx, blocks[it.Block], []storage.SeriesRef{storage.SeriesRef(it.ID)}, "t")
		return append(ks, e.cl.lastSet, e.cl.lastGet[0])
	case "MC":
		k, err := storecache.VerifC13MatchersCacheKey(&storepb.LabelMatcher{Type: storepb.LabelMatcher_Type(it.Type), Name: it.Name, Value: it.Value})
		if err != nil {
			panic(err)
		}
		return []string{k}
	}
	panic("kind " + it.Kind)
}

func space(it Item) int {
	if it.Kind == "MC" {
		return 1
	}
	return 0
}

// ---- enumeration --------------------------------------------------------------------------------------------------

// words lists every concatenation of lo..hi tokens.
func words(tokens []string, lo, hi int) []string {
	var out []string
	for t := range vlib.TuplesUpTo(lo, hi, len(tokens)) {
		var sb strings.Builder
		for _, i := range t {
			sb.WriteString(tokens[i])
		}
		out = append(out, sb.String())
	}
	// composite tokens can produce the same word twice
	seen := map[string]struct{}{}
	uniq := out[:0]
	for _, w := range out {
		if _, ok := seen[w]; !ok {
			seen[w] = struct{}{}
			uniq = append(uniq, w)
		}
	}
	return uniq
}

var (
	tokP  = []string{"a", "b", ":", "\\"}
	tokEP = []string{"a", ";", "\"", "\\", "=", "~", ";a=", "\";a=\""}
	tokMC = []string{"a", "=", "~", "!", "=~", ":", "1", "\"", "\\"}
	// characters of UTF-8 label names that are matcher syntax or key separators somewhere in the key builders
	tokN = []string{"a", "b", "!", "=", "~", "\"", ";", ":", ",", " ", "{"}
	// values used with the tokN names (quick: 0..1 characters, thorough: 0..2)
	tokNV = []string{"a", "b", "=", "~", "!", "\"", ";"}
)

// G is a generated item: Mem = also driven through the in-memory index cache (bounded to keep the LRU small),
// Src = its rendered matcher string is a source of the parse-back closure.
type G struct {
	It  Item
	Mem bool
	Src bool
}

func genItems(r *vlib.R) iter.Seq[G] {
	pLen := vlib.Pick(r, 4, 5)
	epName := vlib.Pick(r, 2, 3)
	mcName := vlib.Pick(r, 2, 3)
	nLen := vlib.Pick(r, 3, 4)
	nvLen := vlib.Pick(r, 1, 2)
	return func(yield func(G) bool) {
		// S
		for b := range blocks {
			for _, id := range []uint64{0, 1, 9, 10, 11, 100, 1 << 32, 1<<64 - 1} {
				if !yield(G{It: Item{Kind: "S", Block: b, ID: id}, Mem: true}) {
					return
				}
			}
		}
		// EP: the empty list
		if !yield(G{It: Item{Kind: "EP", Comp: "dss"}, Mem: true, Src: true}) {
			return
		}
		// EP, UTF-8 names: every single matcher with a name over tokN (matcher syntax / separators inside the NAME)
		shortV := map[string]bool{}
		for _, v := range words(tokNV, 0, 1) {
			shortV[v] = true
		}
		for _, n := range words(tokN, 1, nLen) {
			for t := 0; t < 4; t++ {
				for _, v := range words(tokNV, 0, nvLen) {
					if len(n) > 3 && !shortV[v] {
						continue // thorough: long names with short values, short names with long values
					}
					quick := len(n) <= 3 && shortV[v]
					small := len(n) <= 2 && len(v) <= 1
					for b := range blocks {
						for _, comp := range []string{"dss", ""} {
							if !(len(n) <= 1 && len(v) <= 1) && (b != 0 || comp != "dss") {
								continue
							}
							if !yield(G{It: Item{Kind: "EP", Block: b, Comp: comp, Ms: []M{{n, t, v}}}, Mem: quick, Src: small && b == 0 && comp == "dss"}) {
								return
							}
						}
					}
				}
			}
		}
		// EP, UTF-8 names: every pair over a reduced matcher set
		var redN []M
		for _, n := range []string{"a", "a!", "=", "\"", ",", " "} {
			for t := 0; t < 4; t++ {
				for _, v := range []string{"", "a"} {
					redN = append(redN, M{n, t, v})
				}
			}
		}
		for _, m1 := range redN {
			for _, m2 := range redN {
				if !yield(G{It: Item{Kind: "EP", Comp: "dss", Ms: []M{m1, m2}}, Mem: true, Src: true}) {
					return
				}
			}
		}
		// EP: every single matcher over the key builder's own tokens, every pair over a reduced matcher set
		epNames := words(tokEP, 1, epName)
		epValues := words(tokEP, 0, 3)
		memName, memValue := map[string]bool{}, map[string]bool{}
		for _, n := range words(tokEP, 1, 2) {
			memName[n] = true
		}
		for _, v := range words(tokEP, 0, 2) {
			memValue[v] = true
		}
		for _, n := range epNames {
			for t := 0; t < 4; t++ {
				for _, v := range epValues {
					small := len(n) <= 1 && len(v) <= 1
					for b := range blocks {
						for _, comp := range []string{"dss", ""} {
							if !small && (b != 0 || comp != "dss") {
								continue
							}
							if !yield(G{It: Item{Kind: "EP", Block: b, Comp: comp, Ms: []M{{n, t, v}}}, Mem: memName[n] && memValue[v], Src: small && b == 0 && comp == "dss"}) {
								return
							}
						}
					}
				}
			}
		}
		var red []M
		for _, n := range []string{"a", ";"} {
			for t := 0; t < 4; t++ {
				for _, v := range words(tokEP, 0, 1) {
					red = append(red, M{n, t, v})
				}
			}
		}
		for _, m1 := range red {
			for _, m2 := range red {
				if !yield(G{It: Item{Kind: "EP", Comp: "dss", Ms: []M{m1, m2}}, Mem: true, Src: true}) {
					return
				}
			}
		}
		// MC
		for _, n := range words(tokMC, 1, mcName) {
			for t := 0; t < 4; t++ {
				for _, v := range words(tokMC, 0, 3) {
					if !yield(G{It: Item{Kind: "MC", Name: n, Type: t, Value: v}}) {
						return
					}
				}
			}
		}
		// P: names are non-empty (Prometheus rejects empty label names), values may be empty
		for _, n := range words(tokP, 1, pLen) {
			for _, v := range words(tokP, 0, pLen) {
				full := len(n) <= 3 && len(v) <= 3
				for b := range blocks {
					for _, comp := range []string{"dss", ""} {
						if !full && (b != 0 || comp != "dss") {
							continue
						}
						if !yield(G{It: Item{Kind: "P", Block: b, Comp: comp, Name: n, Value: v}, Mem: full}) {
							return
						}
					}
				}
			}
		}
	}
}

// parseBack reads the string the real code emitted for a matcher list back as ONE matcher in every possible way: the
// text before an operator occurrence is the name (as is, and unquoted when it is a quoted Go string), the text after it
// the value (likewise). The results are ordinary EP items; whether any of them shares a key with its source is for
// the key maps to say.
func parseBack(src Item, s string) []Item {
	var out []Item
	variants := func(x string) []string {
		vs := []string{x}
		if u, err := strconv.Unquote(x); err == nil && u != x && utf8.ValidString(u) {
			vs = append(vs, u)
		}
		return vs
	}
	for i := 1; i < len(s); i++ {
		for t, op := range typeStr {
			if !strings.HasPrefix(s[i:], op) {
				continue
			}
			for _, n := range variants(s[:i]) {
				if n == "" {
					continue
				}
				for _, v := range variants(s[i+len(op):]) {
					out = append(out, Item{Kind: "EP", Block: src.Block, Comp: src.Comp, Ms: []M{{n, t, v}}})
				}
			}
		}
	}
	return out
}

func nontrivial(it Item) bool {
	switch it.Kind {
	case "P":
		return strings.ContainsAny(it.Name+it.Value, ":\\")
	case "MC":
		return strings.ContainsAny(it.Name+it.Value, "=~!")
	case "EP":
		if len(it.Ms) >= 2 {
			return true
		}
		for _, m := range it.Ms {
			if strings.ContainsAny(m.N+m.V, ";\"\\!=~:, {") {
				return true
			}
		}
	}
	return false
}

// ---- classification and end-to-end confirmation -------------------------------------------------------------------

func isRegex(t int) bool { return t == 2 || t == 3 }

func classify(a, b Item) string {
	if a.Kind != b.Kind {
		return "cross-kind-key-collision:" + a.Kind + "-" + b.Kind
	}
	switch a.Kind {
	case "P":
		if a.Block != b.Block || a.Comp != b.Comp {
			return "postings-key:block-or-compression-conflated"
		}
		if strings.Contains(a.Name, ":") || strings.Contains(b.Name, ":") {
			return "postings-key:colon-in-label-name"
		}
		return "postings-key:other"
	case "EP":
		if a.Block != b.Block || a.Comp != b.Comp {
			return "expanded-postings-key:block-or-compression-conflated"
		}
		return "expanded-postings-key:matcher-lists-conflated"
	case "S":
		return "series-key:conflated"
	case "MC":
		cfg := ""
		if isRegex(a.Type) && isRegex(b.Type) {
			cfg = "(both-regex,default-config)"
		}
		if a.Name == b.Name && a.Value == b.Value {
			return "matchers-cache-key:type-ignored"
		}
		if a.Name == b.Name {
			return "matchers-cache-key:operator-absorbs-value-prefix" + cfg // a="~b" vs a=~"b"
		}
		return "matchers-cache-key:operator-chars-in-name" + cfg
	}
	return "?"
}

func show(it Item) string {
	switch it.Kind {
	case "P":
		return fmt.Sprintf("postings(block#%d, name=%q, value=%q, compression=%q)", it.Block, it.Name, it.Value, it.Comp)
	case "EP":
		var ms []string
		for _, m := range it.Ms {
			ms = append(ms, fmt.Sprintf("{name=%q type %q value=%q}", m.N, typeStr[m.T], m.V))
		}
		return fmt.Sprintf("expanded-postings(block#%d, matchers=[%s], compression=%q)", it.Block, strings.Join(ms, " "), it.Comp)
	case "S":
		return fmt.Sprintf("series(block#%d, ref=%d)", it.Block, it.ID)
	case "MC":
		return fmt.Sprintf("matcher(name=%q, type %q, value=%q)", it.Name, typeStr[it.Type], it.Value)
	}
	return "?"
}

// confirm drives the real cache objects: store A, look up B, and report whether B's lookup was answered with A's data.
func confirm(t testing.TB, a, b Item) string {
	ctx := context.Background()
	switch {
	case a.Kind == "P" && b.Kind == "P" && a.Comp == b.Comp: // RemoteIndexCache always uses its own compression scheme (dss)
		e := newEnv(t, true)
		lb := labels.Label{Name: b.Name, Value: b.Value}
		e.rc.StorePostings(blocks[a.Block], labels.Label{Name: a.Name, Value: a.Value}, []byte("data-of-A"), "t")
		hits, _ := e.rc.FetchMultiPostings(ctx, blocks[b.Block], []labels.Label{lb}, "t")
		var out []string
		if string(hits[lb]) == "data-of-A" {
			out = append(out, "confirmed on RemoteIndexCache: after StorePostings(A), FetchMultiPostings(B) is a hit returning A's bytes")
		}
		memStore(e.mc, a, []byte("data-of-A"))
		if v, ok := memFetch(e.mc, b); ok && string(v) == "data-of-A" {
			out = append(out, "confirmed on InMemoryIndexCache: after StorePostings(A), FetchMultiPostings(B) is a hit returning A's bytes")
		}
		return strings.Join(out, "; ")
	case a.Kind == "EP" && b.Kind == "EP" && a.Comp == b.Comp:
		e := newEnv(t, true)
		e.rc.StoreExpandedPostings(blocks[a.Block], promMatchers(a.Ms), []byte("data-of-A"), "t")
		var out []string
		if v, ok := e.rc.FetchExpandedPostings(ctx, blocks[b.Block], promMatchers(b.Ms), "t"); ok && string(v) == "data-of-A" {
			out = append(out, "confirmed on RemoteIndexCache: after StoreExpandedPostings(A), FetchExpandedPostings(B) is a hit returning A's bytes")
		}
		memStore(e.mc, a, []byte("data-of-A"))
		if v, ok := memFetch(e.mc, b); ok && string(v) == "data-of-A" {
			out = append(out, "confirmed on InMemoryIndexCache: after StoreExpandedPostings(A), FetchExpandedPostings(B) is a hit returning A's bytes")
		}
		return strings.Join(out, "; ")
	case a.Kind == "MC" && b.Kind == "MC":
		var opts []storecache.MatcherCacheOption
		how := "default LruMatchersCache"
		if !(isRegex(a.Type) && isRegex(b.Type)) {
			opts = append(opts, storecache.WithIsCacheableFunc(func(storecache.ConversionLabelMatcher) bool { return true }))
			how = "LruMatchersCache with WithIsCacheableFunc(all)"
		}
		c, err := storecache.NewMatchersCache(opts...)
		if err != nil {
			return ""
		}
		ma := storepb.LabelMatcher{Type: storepb.LabelMatcher_Type(a.Type), Name: a.Name, Value: a.Value}
		mb := storepb.LabelMatcher{Type: storepb.LabelMatcher_Type(b.Type), Name: b.Name, Value: b.Value}
		if _, err := storecache.MatchersToPromMatchersCached(c, ma); err != nil {
			return "" // A's regexp does not compile: nothing is cached
		}
		got, err := storecache.MatchersToPromMatchersCached(c, mb)
		if err == nil && len(got) == 1 && (got[0].Name != b.Name || got[0].Value != b.Value || int(got[0].Type) != b.Type) {
			return fmt.Sprintf("confirmed on %s: converting B after A returned the matcher %s", how, got[0].String())
		}
	}
	return ""
}

// safely runs f on the code under test; a panic there is a finding, not a harness crash.
func safely(f func()) (panicked string) {
	defer func() {
		if x := recover(); x != nil {
			panicked = fmt.Sprint(x)
			if strings.HasPrefix(panicked, "HARNESS-ERROR") || strings.HasPrefix(panicked, "kind ") {
				panic(x)
			}
		}
	}()
	f()
	return ""
}

func TestCheck(t *testing.T) {
	r := vlib.New(t, "C13")
	defer r.Finish()
	r.Rule("items: P (2 blocks x {dss,none} x name 1..L tokens x value 0..L tokens over {a,b,':','\\'}), EP (empty list; all single matchers with name/value words over " +
		"{a ; \" \\ = ~ `;a=` `\";a=\"`}; all single matchers with UTF-8 names of 1..3 (thorough 4) characters over {a b ! = ~ \" ; : , ' ' {} x 4 types x values of 0..1 " +
		"(thorough 2) characters over {a b = ~ ! \" ;}; all pairs over two reduced matcher sets (names a ; and names a a! = \" , ' '); parse-back closure: the string the real " +
		"code emits for the empty list, every pair and every small single matcher, cut at every operator occurrence and read back as one matcher), S (2 blocks x 8 refs), " +
		"MC (name x 4 types x value over {a = ~ ! =~ : 1 \" \\}); every key the real code derives for an item (CacheKey.String and the keys RemoteIndexCache hands to its " +
		"client on store and on fetch; matchers-cache cacheKey) is inserted into one map per cache namespace, and a bounded subset of the index items (S; P with name/value <= 3 characters; EP token words " +
		"with names <= 2 and values <= 2 tokens; the quick-tier UTF-8-name items; all pairs; all parse-back items) is looked up in and then stored into one real " +
		"InMemoryIndexCache (a hit before the store = shared in-memory map key); non-trivial = distinct item containing a separator/operator " +
		"character of its key builder (or a 2-matcher list); extra: distinct keys per namespace")
	r.Assume("Equality of the blake2b-256 digests inside P:/EP: keys is taken as equality of the hashed strings.",
		"Names and values are ASCII words over the token alphabets (all valid UTF-8, names non-empty); block ids are two fixed ULIDs.",
		"The in-memory index cache is driven with one compression setting per item (it has no compression dimension) and with a bounded subset of the items (memory).")

	e := newEnv(t, false)
	confirmed := map[string]int{}
	bestLen := map[string]int{}
	report := func(a, b Item, how, sigPrefix string) {
		sig := sigPrefix + classify(a, b)
		desc := fmt.Sprintf("%s is shared by A=%s and B=%s", how, show(a), show(b))
		cj, _ := json.Marshal(Case{A: a, B: &b})
		// vlib keeps the smallest artefact per signature: confirm the first few and every new smallest one
		if best, ok := bestLen[sig]; confirmed[sig] < 25 || !ok || len(cj) < best {
			if !ok || len(cj) < best {
				bestLen[sig] = len(cj)
			}
			var c string
			if p := safely(func() { c = confirm(t, a, b) }); p == "" && c != "" {
				confirmed[sig]++
				desc += "; " + c
				r.Add("collisions_confirmed_end_to_end", 1)
			}
		}
		bb := b
		r.Violation(sig, desc, Case{A: a, B: &bb})
	}
	panicked := func(it Item, where, p string) {
		r.Violation("panic-in-key-path:"+it.Kind, fmt.Sprintf("%s panicked for %s: %s", where, show(it), p), Case{A: it, B: &it})
	}

	var rc Case
	if r.ReplayCase(&rc) {
		r.Eval(1)
		if rc.B == nil {
			t.Fatalf("HARNESS-ERROR replay artefact has no second item")
		}
		var ka, kb []string
		if p := safely(func() { ka = e.keysOf(rc.A) }); p != "" {
			panicked(rc.A, "key computation", p)
			return
		}
		if p := safely(func() { kb = e.keysOf(*rc.B) }); p != "" {
			panicked(*rc.B, "key computation", p)
			return
		}
		if rc.A.ident() == rc.B.ident() {
			return
		}
		if space(rc.A) != space(*rc.B) {
			return
		}
		set := map[string]struct{}{}
		for _, k := range kb {
			set[k] = struct{}{}
		}
		for _, k := range ka {
			if _, ok := set[k]; ok {
				report(rc.A, *rc.B, fmt.Sprintf("key %q", k), "")
				return
			}
		}
		if memEligible(rc.A) && memEligible(*rc.B) {
			var hit bool
			if p := safely(func() {
				memStore(e.mc, rc.A, []byte("data-of-A"))
				_, hit = memFetch(e.mc, *rc.B)
			}); p != "" {
				panicked(*rc.B, "InMemoryIndexCache store/fetch", p)
				return
			}
			if hit {
				report(rc.A, *rc.B, "the InMemoryIndexCache map key", "inmemory:")
			}
		}
		return
	}

	// Only the identities of the items are kept, in fixed-size arenas: first-touch memory is what costs time on a busy
	// machine, and a growing []Item would be re-allocated and copied over and over.
	const chunk = 1 << 14
	type ref struct {
		a, n uint16
		off  uint32
	}
	var refs [][]ref
	arenas := [][]byte{make([]byte, 0, 1<<20)}
	nItems := 0
	identAt := func(i int32) string {
		x := refs[i/chunk][i%chunk]
		return string(arenas[x.a][x.off : x.off+uint32(x.n)])
	}
	at := func(i int32) Item { return parseIdent(identAt(i)) }
	maps := []map[string]int32{make(map[string]int32, vlib.Pick(r, 1<<19, 1<<22)), make(map[string]int32, vlib.Pick(r, 1<<19, 1<<22))}
	var idbuf []byte
	var n, nClosure, nMem int64
	seenC := map[string]struct{}{}
	// process files one item under its keys; it returns false when the code under test panicked.
	process := func(it Item, mem bool) bool {
		n++
		if n <= 16 || n%61 == 0 {
			r.Sample(Case{A: it})
		}
		idbuf = it.appendIdent(idbuf[:0])
		id := string(idbuf)
		if nontrivial(it) {
			r.Nontrivial(id)
		}
		idx := int32(nItems)
		if nItems%chunk == 0 {
			refs = append(refs, make([]ref, 0, chunk))
		}
		ar := len(arenas) - 1
		if cap(arenas[ar])-len(arenas[ar]) < len(idbuf) {
			arenas = append(arenas, make([]byte, 0, 1<<20))
			ar++
		}
		refs[len(refs)-1] = append(refs[len(refs)-1], ref{a: uint16(ar), n: uint16(len(idbuf)), off: uint32(len(arenas[ar]))})
		arenas[ar] = append(arenas[ar], idbuf...)
		nItems++
		var keys []string
		if p := safely(func() { keys = e.keysOf(it) }); p != "" {
			panicked(it, "key computation", p)
			return false
		}
		m := maps[space(it)]
		other := int32(-1)
		for _, k := range keys {
			if j, ok := m[k]; ok {
				if j != idx && identAt(j) != id {
					report(at(j), it, fmt.Sprintf("key %q", k), "")
					other = j
				}
				continue
			}
			m[k] = idx
		}
		if mem && memEligible(it) {
			nMem++
			var data []byte
			var hit bool
			if p := safely(func() {
				if data, hit = memFetch(e.mc, it); !hit {
					memStore(e.mc, it, []byte(strconv.Itoa(int(idx))))
				}
			}); p != "" {
				panicked(it, "InMemoryIndexCache store/fetch", p)
				return false
			}
			if hit {
				j, err := strconv.Atoi(string(data))
				if err != nil || j < 0 || j >= nItems {
					panic(fmt.Sprintf("HARNESS-ERROR in-memory cache returned %q", data))
				}
				if int32(j) != other && identAt(int32(j)) != id {
					report(at(int32(j)), it, "the InMemoryIndexCache map key", "inmemory:")
				}
			}
		}
		return true
	}
	for g := range genItems(r) {
		if n%8192 < 64 && r.Expired("item enumeration stopped early") {
			break
		}
		if !process(g.It, g.Mem) || !g.Src {
			continue
		}
		var s string
		if p := safely(func() { s = storecache.LabelMatchersToString(promMatchers(g.It.Ms)) }); p != "" {
			panicked(g.It, "LabelMatchersToString", p)
			continue
		}
		for _, c := range parseBack(g.It, s) {
			id := c.ident()
			if _, dup := seenC[id]; dup || id == g.It.ident() {
				continue
			}
			seenC[id] = struct{}{}
			nClosure++
			process(c, true)
		}
	}
	r.Eval(n)
	r.Set("parse_back_items", nClosure)
	r.Set("items_through_inmemory_cache", nMem)
	r.Set("distinct_keys_index_namespace", len(maps[0]))
	r.Set("distinct_keys_matchers_cache", len(maps[1]))
}
