// C13: two different cached items never share a cache key.
// Engine E4: bounded-exhaustive enumeration of items; the oracle is injectivity of item -> key, decided by inserting
// every key of every item into one map per key space and reporting any key that is reached from two different items.
//
// Key spaces (each is one real cache namespace):
//
//	index    keys of the remote index cache: CacheKey.String() built directly (both compression settings, two blocks) and
//	         the keys that RemoteIndexCache really passes to its client in Store*/Fetch* (recording client), for
//	         P  posting lists      item = (block, label name, label value, compression)
//	         EP expanded postings  item = (block, matcher list, compression)   [string form = LabelMatchersToString]
//	         S  series             item = (block, series ref)
//	matchers keys of LruMatchersCache (cacheKey):  item = (name, matcher type, value)
//
// Alphabets are token alphabets: one token per separator / quoting character the key builders emit (':' for P,
// ';' '"' '\' '=' '~' and the composite fragments `;a=` and `";a="` for EP, '=' '~' '!' for the matchers cache) plus an
// ordinary letter, plus the characters a repair is likely to introduce ('\', ':', '1' for escaping / length prefixes), so
// that a proposed fix is checked by the same enumeration.
package c13

import (
	"context"
	"encoding/json"
	"fmt"
	"iter"
	"strconv"
	"strings"
	"testing"
	"time"

	"github.com/go-kit/log"
	"github.com/oklog/ulid/v2"
	"github.com/prometheus/prometheus/model/labels"
	"github.com/prometheus/prometheus/storage"

	storecache "github.com/thanos-io/thanos/pkg/store/cache"
	"github.com/thanos-io/thanos/pkg/store/storepb"

	"verif/vlib"
)

type M struct {
	N string `json:"n"`
	T int    `json:"t"` // labels.MatchType: 0 =, 1 !=, 2 =~, 3 !~
	V string `json:"v"`
}

type Item struct {
	Kind  string `json:"kind"` // P | EP | S | MC
	Block int    `json:"block,omitempty"`
	Comp  string `json:"comp,omitempty"`
	Name  string `json:"name,omitempty"`
	Value string `json:"value,omitempty"`
	Type  int    `json:"type,omitempty"`
	Ms    []M    `json:"ms,omitempty"`
	ID    uint64 `json:"id,omitempty"`
}

type Case struct {
	A Item  `json:"a"`
	B *Item `json:"b,omitempty"`
}

// ident is the identity of an item (words never contain NUL, so the rendering is injective).
func (it Item) ident() string {
	var sb strings.Builder
	sb.WriteString(it.Kind)
	sb.WriteByte(byte('0' + it.Block))
	sb.WriteString(it.Comp)
	sb.WriteByte(0)
	sb.WriteString(it.Name)
	sb.WriteByte(0)
	sb.WriteByte(byte('0' + it.Type))
	sb.WriteString(it.Value)
	sb.WriteByte(0)
	sb.WriteString(strconv.FormatUint(it.ID, 10))
	for _, m := range it.Ms {
		sb.WriteByte(0)
		sb.WriteString(m.N)
		sb.WriteByte(0)
		sb.WriteByte(byte('0' + m.T))
		sb.WriteString(m.V)
	}
	return sb.String()
}

var blocks = []ulid.ULID{
	ulid.MustParse("01ARZ3NDEKTSV4RRFFQ69G5FAV"),
	ulid.MustParse("01ARZ3NDEKTSV4RRFFQ69G5FAW"),
}

var typeStr = []string{"=", "!=", "=~", "!~"}

// ---- recording remote cache client ------------------------------------------------------------------------------

type recClient struct {
	lastSet string
	lastGet []string
	data    map[string][]byte // nil: record keys only
}

func (c *recClient) GetMulti(_ context.Context, keys []string) map[string][]byte {
	c.lastGet = append(c.lastGet[:0], keys...)
	out := map[string][]byte{}
	for _, k := range keys {
		if v, ok := c.data[k]; ok {
			out[k] = v
		}
	}
	return out
}
func (c *recClient) SetAsync(key string, value []byte, _ time.Duration) error {
	c.lastSet = key
	if c.data != nil {
		c.data[key] = value
	}
	return nil
}
func (c *recClient) Stop() {}

type env struct {
	cl *recClient
	rc *storecache.RemoteIndexCache
}

func newEnv(t testing.TB, withData bool) *env {
	cl := &recClient{}
	if withData {
		cl.data = map[string][]byte{}
	}
	rc, err := storecache.NewRemoteIndexCache(log.NewNopLogger(), cl, nil, nil, time.Hour)
	if err != nil {
		t.Fatalf("HARNESS-ERROR NewRemoteIndexCache: %v", err)
	}
	return &env{cl: cl, rc: rc}
}

func promMatchers(ms []M) []*labels.Matcher {
	out := make([]*labels.Matcher, len(ms))
	for i, m := range ms {
		// a struct literal: String() (all the key builder uses) needs no compiled regexp
		out[i] = &labels.Matcher{Type: labels.MatchType(m.T), Name: m.N, Value: m.V}
	}
	return out
}

// keysOf returns every key under which the real code files the item.
func (e *env) keysOf(it Item) []string {
	ctx := context.Background()
	switch it.Kind {
	case "P":
		l := labels.Label{Name: it.Name, Value: it.Value}
		ks := []string{storecache.CacheKey{Block: blocks[it.Block].String(), Key: storecache.CacheKeyPostings(l), Compression: it.Comp}.String()}
		if it.Comp == "dss" { // what RemoteIndexCache uses
			e.rc.StorePostings(blocks[it.Block], l, nil, "t")
			e.rc.FetchMultiPostings(ctx, blocks[it.Block], []labels.Label{l}, "t")
			ks = append(ks, e.cl.lastSet, e.cl.lastGet[0])
		}
		return ks
	case "EP":
		ms := promMatchers(it.Ms)
		ks := []string{storecache.CacheKey{Block: blocks[it.Block].String(), Key: storecache.CacheKeyExpandedPostings(storecache.LabelMatchersToString(ms)), Compression: it.Comp}.String()}
		if it.Comp == "dss" {
			e.rc.StoreExpandedPostings(blocks[it.Block], ms, nil, "t")
			e.rc.FetchExpandedPostings(ctx, blocks[it.Block], ms, "t")
			ks = append(ks, e.cl.lastSet, e.cl.lastGet[0])
		}
		return ks
	case "S":
		ks := []string{storecache.CacheKey{Block: blocks[it.Block].String(), Key: storecache.CacheKeySeries(it.ID)}.String()}
		e.rc.StoreSeries(blocks[it.Block], storage.SeriesRef(it.ID), nil, "t")
		e.rc.FetchMultiSeries(ctx, blocks[it.Block], []storage.SeriesRef{storage.SeriesRef(it.ID)}, "t")
		return append(ks, e.cl.lastSet, e.cl.lastGet[0])
	case "MC":
		k, err := storecache.VerifC13MatchersCacheKey(&storepb.LabelMatcher{Type: storepb.LabelMatcher_Type(it.Type), Name: it.Name, Value: it.Value})
		if err != nil {
			panic(err)
		}
		return []string{k}
	}
	panic("kind " + it.Kind)
}

func space(it Item) int {
	if it.Kind == "MC" {
		return 1
	}
	return 0
}

// ---- enumeration --------------------------------------------------------------------------------------------------

// words lists every concatenation of lo..hi tokens.
func words(tokens []string, lo, hi int) []string {
	var out []string
	for t := range vlib.TuplesUpTo(lo, hi, len(tokens)) {
		var sb strings.Builder
		for _, i := range t {
			sb.WriteString(tokens[i])
		}
		out = append(out, sb.String())
	}
	// composite tokens can produce the same word twice
	seen := map[string]struct{}{}
	uniq := out[:0]
	for _, w := range out {
		if _, ok := seen[w]; !ok {
			seen[w] = struct{}{}
			uniq = append(uniq, w)
		}
	}
	return uniq
}

var (
	tokP  = []string{"a", "b", ":", "\\"}
	tokEP = []string{"a", ";", "\"", "\\", "=", "~", ";a=", "\";a=\""}
	tokMC = []string{"a", "=", "~", "!", "=~", ":", "1", "\"", "\\"}
)

func genItems(r *vlib.R) iter.Seq[Item] {
	pLen := vlib.Pick(r, 4, 5)
	epName := vlib.Pick(r, 2, 3)
	mcName := vlib.Pick(r, 2, 3)
	return func(yield func(Item) bool) {
		// S
		for b := range blocks {
			for _, id := range []uint64{0, 1, 9, 10, 11, 100, 1 << 32, 1<<64 - 1} {
				if !yield(Item{Kind: "S", Block: b, ID: id}) {
					return
				}
			}
		}
		// P: names are non-empty (Prometheus rejects empty label names), values may be empty
		for _, n := range words(tokP, 1, pLen) {
			for _, v := range words(tokP, 0, pLen) {
				full := len(n) <= 3 && len(v) <= 3
				for b := range blocks {
					for _, comp := range []string{"dss", ""} {
						if !full && (b != 0 || comp != "dss") {
							continue
						}
						if !yield(Item{Kind: "P", Block: b, Comp: comp, Name: n, Value: v}) {
							return
						}
					}
				}
			}
		}
		// EP: the empty list, every single matcher, every pair over a reduced matcher set
		if !yield(Item{Kind: "EP", Comp: "dss"}) {
			return
		}
		epNames := words(tokEP, 1, epName)
		epValues := words(tokEP, 0, 3)
		for _, n := range epNames {
			for t := 0; t < 4; t++ {
				for _, v := range epValues {
					small := len(n) <= 1 && len(v) <= 1
					for b := range blocks {
						for _, comp := range []string{"dss", ""} {
							if !small && (b != 0 || comp != "dss") {
								continue
							}
							if !yield(Item{Kind: "EP", Block: b, Comp: comp, Ms: []M{{n, t, v}}}) {
								return
							}
						}
					}
				}
			}
		}
		var red []M
		for _, n := range []string{"a", ";"} {
			for t := 0; t < 4; t++ {
				for _, v := range words(tokEP, 0, 1) {
					red = append(red, M{n, t, v})
				}
			}
		}
		for _, m1 := range red {
			for _, m2 := range red {
				if !yield(Item{Kind: "EP", Comp: "dss", Ms: []M{m1, m2}}) {
					return
				}
			}
		}
		// MC
		for _, n := range words(tokMC, 1, mcName) {
			for t := 0; t < 4; t++ {
				for _, v := range words(tokMC, 0, 3) {
					if !yield(Item{Kind: "MC", Name: n, Type: t, Value: v}) {
						return
					}
				}
			}
		}
	}
}

func nontrivial(it Item) bool {
	switch it.Kind {
	case "P":
		return strings.ContainsAny(it.Name+it.Value, ":\\")
	case "MC":
		return strings.ContainsAny(it.Name+it.Value, "=~!")
	case "EP":
		if len(it.Ms) >= 2 {
			return true
		}
		for _, m := range it.Ms {
			if strings.ContainsAny(m.N+m.V, ";\"\\") {
				return true
			}
		}
	}
	return false
}

// ---- classification and end-to-end confirmation -------------------------------------------------------------------

func isRegex(t int) bool { return t == 2 || t == 3 }

func classify(a, b Item) string {
	if a.Kind != b.Kind {
		return "cross-kind-key-collision:" + a.Kind + "-" + b.Kind
	}
	switch a.Kind {
	case "P":
		if a.Block != b.Block || a.Comp != b.Comp {
			return "postings-key:block-or-compression-conflated"
		}
		if strings.Contains(a.Name, ":") || strings.Contains(b.Name, ":") {
			return "postings-key:colon-in-label-name"
		}
		return "postings-key:other"
	case "EP":
		if a.Block != b.Block || a.Comp != b.Comp {
			return "expanded-postings-key:block-or-compression-conflated"
		}
		return "expanded-postings-key:matcher-lists-conflated"
	case "S":
		return "series-key:conflated"
	case "MC":
		cfg := ""
		if isRegex(a.Type) && isRegex(b.Type) {
			cfg = "(both-regex,default-config)"
		}
		if a.Name == b.Name && a.Value == b.Value {
			return "matchers-cache-key:type-ignored"
		}
		if a.Name == b.Name {
			return "matchers-cache-key:operator-absorbs-value-prefix" + cfg // a="~b" vs a=~"b"
		}
		return "matchers-cache-key:operator-chars-in-name" + cfg
	}
	return "?"
}

func show(it Item) string {
	switch it.Kind {
	case "P":
		return fmt.Sprintf("postings(block#%d, name=%q, value=%q, compression=%q)", it.Block, it.Name, it.Value, it.Comp)
	case "EP":
		var ms []string
		for _, m := range it.Ms {
			ms = append(ms, fmt.Sprintf("{name=%q type %q value=%q}", m.N, typeStr[m.T], m.V))
		}
		return fmt.Sprintf("expanded-postings(block#%d, matchers=[%s], compression=%q)", it.Block, strings.Join(ms, " "), it.Comp)
	case "S":
		return fmt.Sprintf("series(block#%d, ref=%d)", it.Block, it.ID)
	case "MC":
		return fmt.Sprintf("matcher(name=%q, type %q, value=%q)", it.Name, typeStr[it.Type], it.Value)
	}
	return "?"
}

// confirm drives the real cache objects: store A, look up B, and report whether B's lookup was answered with A's data.
func confirm(t testing.TB, a, b Item) string {
	ctx := context.Background()
	switch {
	case a.Kind == "P" && b.Kind == "P" && a.Comp == b.Comp: // RemoteIndexCache always uses its own compression scheme (dss)
		e := newEnv(t, true)
		lb := labels.Label{Name: b.Name, Value: b.Value}
		e.rc.StorePostings(blocks[a.Block], labels.Label{Name: a.Name, Value: a.Value}, []byte("data-of-A"), "t")
		hits, _ := e.rc.FetchMultiPostings(ctx, blocks[b.Block], []labels.Label{lb}, "t")
		if string(hits[lb]) == "data-of-A" {
			return "confirmed on RemoteIndexCache: after StorePostings(A), FetchMultiPostings(B) is a hit returning A's bytes"
		}
	case a.Kind == "EP" && b.Kind == "EP" && a.Comp == b.Comp:
		e := newEnv(t, true)
		e.rc.StoreExpandedPostings(blocks[a.Block], promMatchers(a.Ms), []byte("data-of-A"), "t")
		if v, ok := e.rc.FetchExpandedPostings(ctx, blocks[b.Block], promMatchers(b.Ms), "t"); ok && string(v) == "data-of-A" {
			return "confirmed on RemoteIndexCache: after StoreExpandedPostings(A), FetchExpandedPostings(B) is a hit returning A's bytes"
		}
	case a.Kind == "MC" && b.Kind == "MC":
		var opts []storecache.MatcherCacheOption
		how := "default LruMatchersCache"
		if !(isRegex(a.Type) && isRegex(b.Type)) {
			opts = append(opts, storecache.WithIsCacheableFunc(func(storecache.ConversionLabelMatcher) bool { return true }))
			how = "LruMatchersCache with WithIsCacheableFunc(all)"
		}
		c, err := storecache.NewMatchersCache(opts...)
		if err != nil {
			return ""
		}
		ma := storepb.LabelMatcher{Type: storepb.LabelMatcher_Type(a.Type), Name: a.Name, Value: a.Value}
		mb := storepb.LabelMatcher{Type: storepb.LabelMatcher_Type(b.Type), Name: b.Name, Value: b.Value}
		if _, err := storecache.MatchersToPromMatchersCached(c, ma); err != nil {
			return "" // A's regexp does not compile: nothing is cached
		}
		got, err := storecache.MatchersToPromMatchersCached(c, mb)
		if err == nil && len(got) == 1 && (got[0].Name != b.Name || got[0].Value != b.Value || int(got[0].Type) != b.Type) {
			return fmt.Sprintf("confirmed on %s: converting B after A returned the matcher %s", how, got[0].String())
		}
	}
	return ""
}

func TestCheck(t *testing.T) {
	r := vlib.New(t, "C13")
	defer r.Finish()
	r.Rule("items: P (2 blocks x {dss,none} x name 1..L tokens x value 0..L tokens over {a,b,':','\\'}), EP (empty list, all single matchers with name/value words over " +
		"{a ; \" \\ = ~ `;a=` `\";a=\"`}, all pairs over a reduced set), S (2 blocks x 8 refs), MC (name x 4 types x value over {a = ~ ! =~ : 1 \" \\}); every key the real code " +
		"derives for an item (CacheKey.String and the keys RemoteIndexCache hands to its client on store and on fetch; matchers-cache cacheKey) is inserted into one map per " +
		"cache namespace; non-trivial = distinct item containing a separator/operator character of its key builder (or a 2-matcher list); extra: distinct keys per namespace")
	r.Assume("Equality of the blake2b-256 digests inside P:/EP: keys is taken as equality of the hashed strings.",
		"Names and values are ASCII words over the token alphabets (all valid UTF-8, names non-empty); block ids are two fixed ULIDs.")

	e := newEnv(t, false)
	confirmed := map[string]int{}
	bestLen := map[string]int{}
	report := func(a, b Item, key string) {
		sig := classify(a, b)
		desc := fmt.Sprintf("key %q is shared by A=%s and B=%s", key, show(a), show(b))
		cj, _ := json.Marshal(Case{A: a, B: &b})
		// vlib keeps the smallest artefact per signature: confirm the first few and every new smallest one
		if best, ok := bestLen[sig]; confirmed[sig] < 25 || !ok || len(cj) < best {
			if !ok || len(cj) < best {
				bestLen[sig] = len(cj)
			}
			if c := confirm(t, a, b); c != "" {
				confirmed[sig]++
				desc += "; " + c
				r.Add("collisions_confirmed_end_to_end", 1)
			}
		}
		bb := b
		r.Violation(sig, desc, Case{A: a, B: &bb})
	}

	var rc Case
	if r.ReplayCase(&rc) {
		r.Eval(1)
		if rc.B == nil {
			t.Fatalf("HARNESS-ERROR replay artefact has no second item")
		}
		if rc.A.ident() == rc.B.ident() {
			return
		}
		if space(rc.A) != space(*rc.B) {
			return
		}
		kb := map[string]struct{}{}
		for _, k := range e.keysOf(*rc.B) {
			kb[k] = struct{}{}
		}
		for _, k := range e.keysOf(rc.A) {
			if _, ok := kb[k]; ok {
				report(rc.A, *rc.B, k)
				return
			}
		}
		return
	}

	var items []Item
	maps := []map[string]int32{{}, {}}
	var n int64
	for it := range genItems(r) {
		n++
		if n%8192 == 0 && r.Expired("item enumeration stopped early") {
			break
		}
		r.Sample(Case{A: it})
		if nontrivial(it) {
			r.Nontrivial(it.ident())
		}
		idx := int32(len(items))
		items = append(items, it)
		m := maps[space(it)]
		for _, k := range e.keysOf(it) {
			if j, ok := m[k]; ok {
				if j != idx && items[j].ident() != it.ident() {
					report(items[j], it, k)
				}
				continue
			}
			m[k] = idx
		}
	}
	r.Eval(n)
	r.Set("distinct_keys_index_namespace", len(maps[0]))
	r.Set("distinct_keys_matchers_cache", len(maps[1]))
}
