// C31 (schedule part): the deduplicate filter's concurrent pipeline terminates and gives the same result on every schedule.
package c31s

import (
	"context"
	"encoding/json"
	"fmt"
	"sort"
	"strings"
	"testing"

	"github.com/oklog/ulid/v2"
	"github.com/prometheus/client_golang/prometheus"
	"github.com/prometheus/prometheus/tsdb"

	"github.com/thanos-io/thanos/pkg/block"
	"github.com/thanos-io/thanos/pkg/block/metadata"

	"verif/vexplore"
	"verif/vlib"
	"verif/vsync"
)

type Params struct {
	Concurrency int `json:"concurrency"`
	Groups      int `json:"groups"`    // symmetric groups
	DupsPer     int `json:"dups_per"`  // covered blocks per group
}

func (p Params) name() string { b, _ := json.Marshal(p); return string(b) }

type gv struct{ g prometheus.Gauge }

func (g gv) WithLabelValues(...string) prometheus.Gauge { return g.g }

func id(n uint64) ulid.ULID { return ulid.MustNew(n, nil) }

func mk(n uint64, group int, sources ...uint64) *metadata.Meta {
	m := &metadata.Meta{}
	m.Version = 1
	m.ULID = id(n)
	for _, s := range sources {
		m.Compaction.Sources = append(m.Compaction.Sources, id(s))
	}
	m.BlockMeta = tsdb.BlockMeta{ULID: id(n), Version: 1, Compaction: tsdb.BlockMetaCompaction{Sources: m.Compaction.Sources}}
	m.Thanos.Labels = map[string]string{"g": fmt.Sprint(group)}
	return m
}

func scenario(p Params) *vexplore.Scenario {
	return &vexplore.Scenario{
		Name:     p.name(),
		MaxSteps: 20000,
		New: func() (func(e *vsync.Exec), func(), func(e *vsync.Exec) (string, string, string)) {
			metas := map[ulid.ULID]*metadata.Meta{}
			wantDup := map[string]bool{}
			wantKeep := map[string]bool{}
			for g := 0; g < p.Groups; g++ {
				base := uint64(100 * (g + 1))
				var all []uint64
				for d := 0; d < p.DupsPer; d++ {
					n := base + uint64(d) + 1
					metas[id(n)] = mk(n, g, n)
					wantDup[id(n).String()] = true
					all = append(all, n)
				}
				all = append(all, base+50)
				metas[id(base+60)] = mk(base+60, g, all...) // covers every small block of the group
				wantKeep[id(base+60).String()] = true
			}
			f := block.NewDeduplicateFilter(p.Concurrency)
			var err error
			var dupIDs []ulid.ULID
			body := func() {
				g := gv{prometheus.NewGauge(prometheus.GaugeOpts{Name: "x"})}
				err = f.Filter(context.Background(), metas, g, g)
				dupIDs = f.DuplicateIDs()
			}
			check := func(e *vsync.Exec) (string, string, string) {
				var kept, dups []string
				for k := range metas {
					kept = append(kept, k.String())
				}
				for _, d := range dupIDs {
					dups = append(dups, d.String())
				}
				sort.Strings(kept)
				sort.Strings(dups)
				outcome := fmt.Sprintf("%s kept=%d dups=%d steps=%d", e.Outcome(), len(kept), len(dups), e.Steps)
				switch {
				case len(e.Panics) > 0:
					return "panic", strings.Join(e.Panics, "; "), outcome
				case e.Deadlock:
					return "deadlock", e.DeadlockMsg, outcome
				case e.Horizon:
					return "step-horizon-exceeded", "", outcome
				case err != nil:
					return "filter-error", err.Error(), outcome
				}
				okKept := len(kept) == len(wantKeep)
				for _, k := range kept {
					okKept = okKept && wantKeep[k]
				}
				okDup := len(dups) == len(wantDup)
				for _, d := range dups {
					okDup = okDup && wantDup[d]
				}
				if !okKept {
					return "wrong-blocks-hidden", fmt.Sprintf("visible after Filter: %v", kept), outcome
				}
				if !okDup {
					return "wrong-duplicate-ids", fmt.Sprintf("DuplicateIDs after Filter returned: %v, want the %d covered blocks", dups, len(wantDup)), outcome
				}
				return "", "", outcome
			}
			return nil, body, check
		},
	}
}

func TestCheck(t *testing.T) {
	r := vlib.New(t, "C31")
	defer r.Finish()
	r.Rule("Filter on 2 symmetric compaction groups (1-2 covered blocks + 1 covering block each) with concurrency 1..3; every interleaving within the deviation bound (thorough: unbounded for the small scenarios); " +
		"distinct_nontrivial = distinct (scenario, execution length) observations")
	type sb struct {
		p Params
		b int
	}
	ps := []sb{
		{Params{Concurrency: 1, Groups: 2, DupsPer: 1}, 2},
		{Params{Concurrency: 2, Groups: 2, DupsPer: 1}, 1},
	}
	if r.Thorough() {
		ps = []sb{
			{Params{Concurrency: 1, Groups: 2, DupsPer: 1}, 3},
			{Params{Concurrency: 2, Groups: 2, DupsPer: 1}, 2},
			{Params{Concurrency: 3, Groups: 2, DupsPer: 1}, 2},
			{Params{Concurrency: 2, Groups: 2, DupsPer: 2}, 2},
		}
	}
	var named []vexplore.Named
	for _, p := range ps {
		named = append(named, vexplore.Named{S: scenario(p.p), Params: p.p, Bound: p.b, UseBound: true})
	}
	vexplore.Drive(r, named, 2, func(c vexplore.Case) *vexplore.Scenario {
		var p Params
		if err := json.Unmarshal(c.Params, &p); err != nil {
			return nil
		}
		return scenario(p)
	})
}
