// C31 (schedule part): the deduplicate filter's concurrent pipeline terminates and gives the same result on every schedule,
// on a fresh filter and on a filter instance that is reused for consecutive Filter calls (as every component does: one
// filter, one call per sync).
package c31s

import (
	"context"
	"encoding/json"
	"fmt"
	"sort"
	"strings"
	"testing"

	"github.com/oklog/ulid/v2"
	"github.com/prometheus/client_golang/prometheus"
	"github.com/prometheus/prometheus/tsdb"

	"github.com/thanos-io/thanos/pkg/block"
	"github.com/thanos-io/thanos/pkg/block/metadata"

	"verif/vexplore"
	"verif/vlib"
	"verif/vsync"
)

type Params struct {
	Concurrency int `json:"concurrency"`
	Groups      int `json:"groups"`   // isomorphic groups (the order in which Go's map hands them to the workers is not owned by the scheduler)
	DupsPer     int `json:"dups_per"` // covered blocks per group
	// Layout "" : the groups' sources are disjoint. Layout "cross": the groups differ by resolution only and every
	// group has a kept block whose sources are contained in the covering block of every OTHER group (as a raw
	// block's sources are contained in the downsampled block made from its compaction) - any state shared between
	// the workers of different groups then changes the result.
	Layout string `json:"layout,omitempty"`
	// Calls: consecutive Filter calls on ONE filter instance, each on a fresh listing of the same blocks (0 = 1).
	Calls int `json:"calls,omitempty"`
	// WarmDefault: all calls but the last run as executions of their own on the scheduler's default schedule (no
	// deviation); only the last call's interleavings are enumerated (the space of a single call, on a used filter).
	WarmDefault bool `json:"warm_default,omitempty"`
}

func (p Params) name() string { b, _ := json.Marshal(p); return string(b) }

func (p Params) calls() int {
	if p.Calls < 1 {
		return 1
	}
	return p.Calls
}

// defaultSchedule always takes alternative 0 (keep running the current thread, else the lowest thread id).
type defaultSchedule struct{}

func (defaultSchedule) Choose(int, []vsync.Alt, func(vsync.Alt) string) int { return 0 }

type gv struct{ g prometheus.Gauge }

func (g gv) WithLabelValues(...string) prometheus.Gauge { return g.g }

func id(n uint64) ulid.ULID { return ulid.MustNew(n, nil) }

// blk is the plain description of one block of the scenario.
type blk struct {
	n       uint64
	group   int
	sources []uint64
}

func (b blk) covers(o blk) bool {
	for _, s := range o.sources {
		found := false
		for _, t := range b.sources {
			found = found || s == t
		}
		if !found {
			return false
		}
	}
	return true
}

var crossRes = []int64{0, 300000, 3600000}

func (b blk) meta(p Params) *metadata.Meta {
	m := &metadata.Meta{}
	m.Version = 1
	m.ULID = id(b.n)
	for _, s := range b.sources {
		m.Compaction.Sources = append(m.Compaction.Sources, id(s))
	}
	m.BlockMeta = tsdb.BlockMeta{ULID: id(b.n), Version: 1, Compaction: tsdb.BlockMetaCompaction{Sources: m.Compaction.Sources}}
	if p.Layout == "cross" {
		m.Thanos.Labels = map[string]string{"g": "0"}
		m.Thanos.Downsample.Resolution = crossRes[b.group]
	} else {
		m.Thanos.Labels = map[string]string{"g": fmt.Sprint(b.group)}
	}
	return m
}

// layout lists the blocks. Every group has the same shape (same number of blocks, of comparisons and of
// duplicates), so that the synchronisation trace does not depend on the order in which the groups are handed out.
func layout(p Params) []blk {
	var out []blk
	for g := 0; g < p.Groups; g++ {
		base := uint64(100 * (g + 1))
		var all []uint64
		for d := 0; d < p.DupsPer; d++ {
			n := base + uint64(d) + 1
			out = append(out, blk{n, g, []uint64{n}}) // covered by the big block of its group
			all = append(all, n)
		}
		all = append(all, base+50)
		if p.Layout == "cross" {
			// base+40 is covered by nothing in its own group, but by the big block of EVERY other group (so that
			// the scenario is symmetric under every permutation of the groups)
			for h := 0; h < p.Groups; h++ {
				if h != g {
					all = append(all, uint64(100*(h+1))+45)
				}
			}
			out = append(out, blk{base + 40, g, []uint64{base + 45}})
		}
		out = append(out, blk{base + 60, g, all}) // covers every small block of the group
	}
	return out
}

func listing(p Params, blocks []blk) map[ulid.ULID]*metadata.Meta {
	metas := map[ulid.ULID]*metadata.Meta{}
	for _, b := range blocks {
		metas[id(b.n)] = b.meta(p)
	}
	return metas
}

type result struct {
	kept, dups []string
	err        error
}

func observe(metas map[ulid.ULID]*metadata.Meta, f *block.DefaultDeduplicateFilter, err error) result {
	r := result{err: err}
	for k := range metas {
		r.kept = append(r.kept, k.String())
	}
	for _, d := range f.DuplicateIDs() {
		r.dups = append(r.dups, d.String())
	}
	sort.Strings(r.kept)
	sort.Strings(r.dups)
	return r
}

func newGauge() gv { return gv{prometheus.NewGauge(prometheus.GaugeOpts{Name: "x"})} }

// expected: what a sequential run hides, by construction of the layout: exactly the blocks covered by the big block
// of their own group (the scenarios with concurrency 1 explore the sequential run itself against this expectation).
func expected(p Params, blocks []blk) (kept, dups []string) {
	for _, b := range blocks {
		if role := int(b.n % 100); role >= 1 && role <= p.DupsPer {
			dups = append(dups, id(b.n).String())
		} else {
			kept = append(kept, id(b.n).String())
		}
	}
	sort.Strings(kept)
	sort.Strings(dups)
	return kept, dups
}

// statement checks one observed result against the property statement itself.
func statement(blocks []blk, r result) (string, string) {
	byID := map[string]blk{}
	for _, b := range blocks {
		byID[id(b.n).String()] = b
	}
	hidden := map[string]bool{}
	for k := range byID {
		hidden[k] = true
	}
	for _, k := range r.kept {
		if _, ok := byID[k]; !ok {
			return "filter-invented-a-block", k
		}
		delete(hidden, k)
	}
	for _, d := range r.dups {
		if _, ok := byID[d]; !ok {
			return "duplicate-ids-name-unknown-block", d
		}
		hidden[d] = true
	}
	for h := range hidden {
		ok := false
		for k, b := range byID {
			ok = ok || (!hidden[k] && b.group == byID[h].group && b.covers(byID[h]))
		}
		if !ok {
			return "hidden-block-not-covered-by-kept-block-of-its-group", fmt.Sprintf("block %s (group %d, sources %v) is hidden", h, byID[h].group, byID[h].sources)
		}
	}
	for _, b := range blocks {
		for _, s := range b.sources {
			ok := false
			for k, kb := range byID {
				ok = ok || (!hidden[k] && kb.group == b.group && kb.covers(blk{sources: []uint64{s}}))
			}
			if !ok {
				return "kept-blocks-do-not-cover-all-sources", fmt.Sprintf("source %d of group %d is in no kept block", s, b.group)
			}
		}
	}
	return "", ""
}

func scenario(p Params) *vexplore.Scenario {
	blocks := layout(p)
	wantKept, wantDups := expected(p, blocks)
	return &vexplore.Scenario{
		Name:     p.name(),
		MaxSteps: 20000,
		New: func() (func(e *vsync.Exec), func(), func(e *vsync.Exec) (string, string, string)) {
			f := block.NewDeduplicateFilter(p.Concurrency)
			results := make([]result, 0, p.calls())
			var warmFail string
			call := func() {
				metas := listing(p, blocks) // every sync lists the bucket again
				g := newGauge()
				err := f.Filter(context.Background(), metas, g, g)
				results = append(results, observe(metas, f, err))
			}
			scheduled := p.calls()
			if p.WarmDefault {
				scheduled = 1
				for i := 1; i < p.calls() && warmFail == ""; i++ {
					w := vsync.Run(defaultSchedule{}, 20000, nil, call)
					switch {
					case len(w.Panics) > 0:
						warmFail = "panic: " + strings.Join(w.Panics, "; ")
					case w.Deadlock:
						warmFail = "deadlock: " + w.DeadlockMsg
					case w.Horizon || w.Stalled:
						warmFail = "did not terminate: " + w.DeadlockMsg
					}
				}
			}
			body := func() {
				for i := 0; i < scheduled; i++ {
					call()
				}
			}
			check := func(e *vsync.Exec) (string, string, string) {
				var ks, ds []string
				for _, r := range results {
					ks = append(ks, fmt.Sprint(len(r.kept)))
					ds = append(ds, fmt.Sprint(len(r.dups)))
				}
				outcome := fmt.Sprintf("%s kept=%s dups=%s steps=%d", e.Outcome(), strings.Join(ks, "/"), strings.Join(ds, "/"), e.Steps)
				switch {
				case warmFail != "":
					return "earlier-call-failed", "a Filter call before the explored one (default schedule): " + warmFail, outcome
				case len(e.Panics) > 0:
					return "panic", strings.Join(e.Panics, "; "), outcome
				case e.Deadlock:
					return "deadlock", e.DeadlockMsg, outcome
				case e.Horizon:
					return "step-horizon-exceeded", "", outcome
				case len(results) != p.calls():
					return "filter-did-not-return", fmt.Sprintf("%d of %d calls returned", len(results), p.calls()), outcome
				}
				for i, r := range results {
					how := fmt.Sprintf("Filter call %d of %d on one instance, concurrency %d", i+1, p.calls(), p.Concurrency)
					if r.err != nil {
						return "filter-error", how + ": " + r.err.Error(), outcome
					}
					if sig, d := statement(blocks, r); sig != "" {
						return sig, how + ": " + d + fmt.Sprintf("; visible %v, DuplicateIDs %v", r.kept, r.dups), outcome
					}
					if strings.Join(r.kept, ",") != strings.Join(wantKept, ",") {
						return "wrong-blocks-hidden", fmt.Sprintf("%s: visible after Filter: %v, a sequential run leaves %v", how, r.kept, wantKept), outcome
					}
					if strings.Join(r.dups, ",") != strings.Join(wantDups, ",") {
						return "wrong-duplicate-ids", fmt.Sprintf("%s: DuplicateIDs after Filter returned: %v, want the %d covered blocks %v", how, r.dups, len(wantDups), wantDups), outcome
					}
				}
				return "", "", outcome
			}
			return nil, body, check
		},
	}
}

func TestCheck(t *testing.T) {
	r := vlib.New(t, "C31")
	defer r.Finish()
	r.Rule("Filter on 2-3 isomorphic compaction groups (1-2 covered blocks + 1 covering block each; layout cross: + 1 kept block whose sources are contained in the covering block of every other group, groups differ by resolution only) " +
		"with concurrency 1..3, as 1 call on a fresh filter or 2 consecutive calls on one reused filter instance; scheduling points: channel / WaitGroup / mutex operations and every source comparison of filterGroup; " +
		"every interleaving within the deviation bound (thorough: larger bounds); distinct_nontrivial = distinct (scenario, execution length) observations")
	r.Assume("expected result = what a sequential run hides, by construction of the layouts: exactly the blocks covered by the big block of their group (the concurrency-1 scenarios explore the sequential run itself against it)",
		"in a warm_default scenario the calls before the last one run on the scheduler's default schedule; only the interleavings of the last call are enumerated there (both calls are enumerated in the scenarios without warm_default)",
		"plain memory accesses between two scheduling points are executed atomically (scheduling points: synchronisation operations and the contains() comparisons)")
	type sb struct {
		p Params
		b int
	}
	cross := func(conc, groups, dups, calls int, warm bool) Params {
		return Params{Concurrency: conc, Groups: groups, DupsPer: dups, Layout: "cross", Calls: calls, WarmDefault: warm}
	}
	ps := []sb{
		{Params{Concurrency: 1, Groups: 2, DupsPer: 1}, 2},
		{Params{Concurrency: 2, Groups: 2, DupsPer: 1}, 1},
		{cross(2, 2, 1, 2, true), 1},  // reused instance, 2 workers x 2 groups
		{cross(1, 2, 1, 2, false), 1}, // reused instance, both calls enumerated, 1 worker
		{cross(2, 3, 1, 0, false), 1}, // fresh instance, more groups than workers (a worker's second group runs on a used filter)
	}
	if r.Thorough() {
		ps = []sb{
			{Params{Concurrency: 1, Groups: 2, DupsPer: 1}, 3},
			{Params{Concurrency: 2, Groups: 2, DupsPer: 1}, 2},
			{Params{Concurrency: 3, Groups: 2, DupsPer: 1}, 2},
			{Params{Concurrency: 2, Groups: 2, DupsPer: 2}, 2},
			{cross(2, 2, 1, 2, true), 2},
			{cross(1, 2, 1, 2, false), 2},
			{cross(2, 3, 1, 0, false), 1},
			{cross(2, 2, 2, 2, true), 1},
			{cross(2, 3, 1, 2, true), 1},
			{cross(3, 2, 1, 2, true), 1},
			{cross(2, 2, 1, 3, true), 1},
		}
	}
	var named []vexplore.Named
	for _, p := range ps {
		named = append(named, vexplore.Named{S: scenario(p.p), Params: p.p, Bound: p.b, UseBound: true})
	}
	vexplore.Drive(r, named, 2, func(c vexplore.Case) *vexplore.Scenario {
		var p Params
		if err := json.Unmarshal(c.Params, &p); err != nil {
			return nil
		}
		return scenario(p)
	})
}
