// Store-gateway rig shared (by copy) between C10, C09, C08, C07: small real TSDB blocks written by the
// Prometheus head + leveled compactor, uploaded with block.Upload into an in-memory bucket, served by a real
// store.BucketStore; the same block directories are read with tsdb.OpenBlock for the reference.
package c10

import (
	"context"
	"fmt"
	"os"
	"path/filepath"
	"sort"
	"strings"
	"sync"

	"github.com/go-kit/log"
	"github.com/oklog/ulid/v2"
	"github.com/prometheus/client_golang/prometheus"
	"github.com/prometheus/prometheus/model/labels"
	"github.com/prometheus/prometheus/storage"
	"github.com/prometheus/prometheus/tsdb"
	"github.com/prometheus/prometheus/tsdb/chunkenc"
	"github.com/thanos-io/objstore"

	"github.com/thanos-io/thanos/pkg/block"
	"github.com/thanos-io/thanos/pkg/block/metadata"
	"github.com/thanos-io/thanos/pkg/store"
	storecache "github.com/thanos-io/thanos/pkg/store/cache"
	"github.com/thanos-io/thanos/pkg/store/labelpb"
	"github.com/thanos-io/thanos/pkg/store/storepb"
)

// ---------- block universe ----------

type SeriesSpec struct {
	L []string // name, value, name, value ... (any order)
	T []int64  // sample timestamps, ascending
}

type BlockSpec struct {
	Ext        []string // external labels name,value,...
	MinT, MaxT int64    // block range [MinT, MaxT)
	ChunkRange int64    // head chunk range: one chunk per aligned window that has samples
	Series     []SeriesSpec
}

type builtBlock struct {
	spec BlockSpec
	id   ulid.ULID
	dir  string
	ext  labels.Labels
	tsdb *tsdb.Block
}

type universe struct {
	name    string
	blocks  []*builtBlock
	bkt     objstore.Bucket
	nSeries int // distinct series (with external labels) in the whole universe
}

func lbls(kv []string) labels.Labels { return labels.FromStrings(kv...) }

// buildBlock writes one block exactly the way Thanos' own test utilities do (head -> LeveledCompactor.Write ->
// InjectThanos) but with full control over which series has samples at which timestamps.
func buildBlock(ctx context.Context, dir string, spec BlockSpec) (*builtBlock, error) {
	opts := tsdb.DefaultHeadOptions()
	opts.ChunkDirRoot = filepath.Join(dir, "headchunks")
	opts.ChunkRange = spec.ChunkRange
	h, err := tsdb.NewHead(nil, nil, nil, nil, opts, nil)
	if err != nil {
		return nil, err
	}
	// all timestamps in ascending order over all series (the head rejects out of order samples per series only,
	// but keep one appender per timestamp like a scrape loop)
	tsSet := map[int64]struct{}{}
	for _, s := range spec.Series {
		for _, t := range s.T {
			tsSet[t] = struct{}{}
		}
	}
	var tss []int64
	for t := range tsSet {
		tss = append(tss, t)
	}
	sort.Slice(tss, func(i, j int) bool { return tss[i] < tss[j] })
	for _, t := range tss {
		app := h.Appender(ctx)
		for _, s := range spec.Series {
			for _, st := range s.T {
				if st == t {
					// the value depends on labels and time only: the same series in two blocks has identical chunk bytes
					if _, err := app.Append(0, lbls(s.L), t, float64(lbls(s.L).Hash()%1000)+float64(t)/7); err != nil {
						return nil, fmt.Errorf("append: %w", err)
					}
				}
			}
		}
		if err := app.Commit(); err != nil {
			return nil, err
		}
	}
	c, err := tsdb.NewLeveledCompactor(ctx, nil, nil, []int64{spec.MaxT - spec.MinT}, nil, nil)
	if err != nil {
		return nil, err
	}
	ids, err := c.Write(dir, h, spec.MinT, spec.MaxT, nil)
	if err != nil {
		return nil, err
	}
	if len(ids) != 1 {
		return nil, fmt.Errorf("compactor wrote %d blocks", len(ids))
	}
	if err := h.Close(); err != nil {
		return nil, err
	}
	_ = os.RemoveAll(opts.ChunkDirRoot)
	id := ids[0]
	bdir := filepath.Join(dir, id.String())
	meta, err := metadata.ReadFromDir(bdir)
	if err != nil {
		return nil, err
	}
	stats, err := block.GatherIndexHealthStats(ctx, log.NewNopLogger(), filepath.Join(bdir, block.IndexFilename), meta.MinTime, meta.MaxTime)
	if err != nil {
		return nil, err
	}
	ext := lbls(spec.Ext)
	if _, err := metadata.InjectThanos(log.NewNopLogger(), bdir, metadata.Thanos{
		Labels:     ext.Map(),
		Downsample: metadata.ThanosDownsample{Resolution: 0},
		Source:     metadata.TestSource,
		IndexStats: metadata.IndexStats{SeriesMaxSize: stats.SeriesMaxSize, ChunkMaxSize: stats.ChunkMaxSize},
	}, nil); err != nil {
		return nil, err
	}
	tb, err := tsdb.OpenBlock(nil, bdir, nil, nil)
	if err != nil {
		return nil, err
	}
	return &builtBlock{spec: spec, id: id, dir: bdir, ext: ext, tsdb: tb}, nil
}

func buildUniverse(ctx context.Context, root, name string, specs []BlockSpec) (*universe, error) {
	u := &universe{name: name, bkt: objstore.NewInMemBucket()}
	dir := filepath.Join(root, name)
	if err := os.MkdirAll(dir, 0o755); err != nil {
		return nil, err
	}
	for _, sp := range specs {
		b, err := buildBlock(ctx, dir, sp)
		if err != nil {
			return nil, fmt.Errorf("universe %s: %w", name, err)
		}
		if len(sp.Ext) == 0 {
			err = block.UploadPromBlock(ctx, log.NewNopLogger(), u.bkt, b.dir, metadata.NoneFunc)
		} else {
			err = block.Upload(ctx, log.NewNopLogger(), u.bkt, b.dir, metadata.NoneFunc)
		}
		if err != nil {
			return nil, fmt.Errorf("upload: %w", err)
		}
		u.blocks = append(u.blocks, b)
	}
	all := map[string]struct{}{}
	for _, b := range u.blocks {
		for _, s := range b.spec.Series {
			bld := labels.NewBuilder(lbls(s.L))
			b.ext.Range(func(l labels.Label) { bld.Set(l.Name, l.Value) })
			all[bld.Labels().String()] = struct{}{}
		}
	}
	u.nSeries = len(all)
	return u, nil
}

func (u *universe) close() {
	for _, b := range u.blocks {
		_ = b.tsdb.Close()
	}
}

// ---------- answers ----------

type chunkRec struct {
	MinT, MaxT int64
	Enc        int
	Data       string
}

func (c chunkRec) String() string {
	return fmt.Sprintf("[%d,%d]enc%d:%x", c.MinT, c.MaxT, c.Enc, c.Data)
}

// answer maps the series label set (labels.Labels.String()) to its chunks in response order.
type answer map[string][]chunkRec

func sortedChunks(in []chunkRec) []chunkRec {
	out := append([]chunkRec(nil), in...)
	sort.Slice(out, func(i, j int) bool {
		if out[i].MinT != out[j].MinT {
			return out[i].MinT < out[j].MinT
		}
		if out[i].MaxT != out[j].MaxT {
			return out[i].MaxT < out[j].MaxT
		}
		return out[i].Data < out[j].Data
	})
	return out
}

func dedupChunks(in []chunkRec) []chunkRec {
	var out []chunkRec
	for i, c := range in {
		if i > 0 && c == in[i-1] {
			continue
		}
		out = append(out, c)
	}
	return out
}

// ---------- reference: Prometheus TSDB reader on the same block directories ----------

// extFilter evaluates matchers on external label names against the block's external labels (the series of the
// block carry them, so a matcher on such a name is decided per block) and returns the remaining matchers.
func extFilter(ext labels.Labels, ms []*labels.Matcher) (rest []*labels.Matcher, ok bool) {
	for _, m := range ms {
		if v := ext.Get(m.Name); v != "" {
			if !m.Matches(v) {
				return nil, false
			}
			continue
		}
		rest = append(rest, m)
	}
	return rest, true
}

// refSeries reads one block with the Prometheus chunk querier (trimming disabled: whole chunks overlapping the
// closed range) and returns stored labels -> chunks.
func refBlock(ctx context.Context, b *builtBlock, ms []*labels.Matcher, mint, maxt int64) (map[string]labels.Labels, answer, error) {
	q, err := tsdb.NewBlockChunkQuerier(b.tsdb, mint, maxt)
	if err != nil {
		return nil, nil, err
	}
	defer q.Close()
	lsets := map[string]labels.Labels{}
	out := answer{}
	ss := q.Select(ctx, true, &storage.SelectHints{Start: mint, End: maxt, DisableTrimming: true}, ms...)
	for ss.Next() {
		s := ss.At()
		var recs []chunkRec
		it := s.Iterator(nil)
		for it.Next() {
			m := it.At()
			recs = append(recs, chunkRec{MinT: m.MinTime, MaxT: m.MaxTime, Enc: int(m.Chunk.Encoding()), Data: string(m.Chunk.Bytes())})
		}
		if err := it.Err(); err != nil {
			return nil, nil, err
		}
		if len(recs) == 0 {
			continue
		}
		k := s.Labels().String()
		lsets[k] = s.Labels().Copy()
		out[k] = recs
	}
	return lsets, out, ss.Err()
}

// reference = union over the blocks of the universe of the direct TSDB read, every series extended by the
// block's external labels (external labels win on a name clash) minus `drop`.
func (u *universe) reference(ctx context.Context, ms []*labels.Matcher, mint, maxt int64, drop map[string]struct{}) (answer, error) {
	out := answer{}
	if mint > maxt {
		return out, nil
	}
	for _, b := range u.blocks {
		rest, ok := extFilter(b.ext, ms)
		if !ok {
			continue
		}
		lsets, a, err := refBlock(ctx, b, rest, mint, maxt)
		if err != nil {
			return nil, err
		}
		for k, recs := range a {
			bld := labels.NewBuilder(lsets[k])
			b.ext.Range(func(l labels.Label) { bld.Set(l.Name, l.Value) })
			for n := range drop {
				bld.Del(n)
			}
			fk := bld.Labels().String()
			out[fk] = append(out[fk], recs...)
		}
	}
	for k := range out {
		out[k] = sortedChunks(out[k])
	}
	return out, nil
}

// ---------- the store gateway under test ----------

type Config struct {
	Sampling int `json:"sampling"` // index-header postings offset table sampling
	Lazy     int `json:"lazy"`     // 0 off, 1 on ratio 0.5, 2 on ratio 1.0, 3 on ratio 0.5 + max key/series ratio 0.01
	Est      int `json:"est"`      // max series/chunk size estimates: 0 package defaults, 1 from the block's index stats (as cmd/thanos does), 2 debug flags set to 16 bytes (refetches)
	Batch    int `json:"batch"`    // series batch size
	Cache    int `json:"cache"`    // 0 none, 1 in-memory, 2 in-memory small (evicts)
	Gap      int `json:"gap"`      // partitioner max gap: 0 -> 0 bytes, 1 -> default 512KiB
}

func (c Config) String() string {
	return fmt.Sprintf("samp%d-lazy%d-est%d-batch%d-cache%d-gap%d", c.Sampling, c.Lazy, c.Est, c.Batch, c.Cache, c.Gap)
}

// swapCache lets one store instance be used with a fresh index cache per query history.
type swapCache struct {
	mu    sync.RWMutex
	inner storecache.IndexCache
	kind  int
	hits  [3]int64 // postings, expanded postings, series
	hmu   sync.Mutex
}

func newIndexCache(kind int) storecache.IndexCache {
	switch kind {
	case 1:
		c, err := storecache.NewInMemoryIndexCacheWithConfig(log.NewNopLogger(), nil, nil, storecache.InMemoryIndexCacheConfig{MaxSize: 64 << 20, MaxItemSize: 32 << 20})
		if err != nil {
			panic(err)
		}
		return c
	case 2:
		// a few hundred bytes: items are evicted constantly, some are too big to be stored at all
		c, err := storecache.NewInMemoryIndexCacheWithConfig(log.NewNopLogger(), nil, nil, storecache.InMemoryIndexCacheConfig{MaxSize: 400, MaxItemSize: 120})
		if err != nil {
			panic(err)
		}
		return c
	}
	return nil
}

func (s *swapCache) reset() {
	s.mu.Lock()
	s.inner = newIndexCache(s.kind)
	s.mu.Unlock()
}
func (s *swapCache) get() storecache.IndexCache { s.mu.RLock(); defer s.mu.RUnlock(); return s.inner }
func (s *swapCache) hit(i int, n int) {
	if n > 0 {
		s.hmu.Lock()
		s.hits[i] += int64(n)
		s.hmu.Unlock()
	}
}
func (s *swapCache) StorePostings(b ulid.ULID, l labels.Label, v []byte, tenant string) {
	s.get().StorePostings(b, l, v, tenant)
}
func (s *swapCache) FetchMultiPostings(ctx context.Context, b ulid.ULID, keys []labels.Label, tenant string) (map[labels.Label][]byte, []labels.Label) {
	h, m := s.get().FetchMultiPostings(ctx, b, keys, tenant)
	s.hit(0, len(h))
	return h, m
}
func (s *swapCache) StoreExpandedPostings(b ulid.ULID, ms []*labels.Matcher, v []byte, tenant string) {
	s.get().StoreExpandedPostings(b, ms, v, tenant)
}
func (s *swapCache) FetchExpandedPostings(ctx context.Context, b ulid.ULID, ms []*labels.Matcher, tenant string) ([]byte, bool) {
	v, ok := s.get().FetchExpandedPostings(ctx, b, ms, tenant)
	if ok {
		s.hit(1, 1)
	}
	return v, ok
}
func (s *swapCache) StoreSeries(b ulid.ULID, id storage.SeriesRef, v []byte, tenant string) {
	s.get().StoreSeries(b, id, v, tenant)
}
func (s *swapCache) FetchMultiSeries(ctx context.Context, b ulid.ULID, ids []storage.SeriesRef, tenant string) (map[storage.SeriesRef][]byte, []storage.SeriesRef) {
	h, m := s.get().FetchMultiSeries(ctx, b, ids, tenant)
	s.hit(2, len(h))
	return h, m
}

type gateway struct {
	st    *store.BucketStore
	cache *swapCache
	dir   string
}

type limits struct {
	series, chunks uint64
}

// dir holds the index-header files; it may be shared by many stores of the same universe (the files are
// written by the first store and only mapped read-only by the later ones).
func newGateway(ctx context.Context, u *universe, cfg Config, lim limits, dir string, reg *prometheus.Registry) (*gateway, error) {
	ibkt := objstore.WithNoopInstr(u.bkt)
	f, err := block.NewRawMetaFetcher(log.NewNopLogger(), ibkt, block.NewConcurrentLister(log.NewNopLogger(), ibkt))
	if err != nil {
		return nil, err
	}
	gap := uint64(store.PartitionerMaxGapSize)
	if cfg.Gap == 0 {
		gap = 0
	}
	g := &gateway{dir: dir}
	opts := []store.BucketStoreOption{store.WithSeriesBatchSize(cfg.Batch)}
	if reg != nil {
		opts = append(opts, store.WithRegistry(reg))
	}
	if cfg.Cache != 0 {
		g.cache = &swapCache{kind: cfg.Cache}
		g.cache.reset()
		opts = append(opts, store.WithIndexCache(g.cache))
	}
	switch cfg.Lazy {
	case 1:
		opts = append(opts, store.WithLazyExpandedPostings(true), store.WithSeriesMatchRatio(0.5))
	case 2:
		opts = append(opts, store.WithLazyExpandedPostings(true), store.WithSeriesMatchRatio(1.0))
	case 3:
		opts = append(opts, store.WithLazyExpandedPostings(true), store.WithSeriesMatchRatio(0.5), store.WithPostingGroupMaxKeySeriesRatio(0.01))
	}
	if cfg.Est != 0 {
		// same rule as cmd/thanos/store.go: the block's index stats bound the estimate from above, otherwise the
		// flag value (--debug.estimated-max-series-size / --debug.estimated-max-chunk-size) is used.
		// Est 1: default flag values; Est 2: flags set to 16 bytes, so that most entries need a refetch.
		flagSeries, flagChunk := uint64(store.EstimatedMaxSeriesSize), uint64(store.EstimatedMaxChunkSize)
		if cfg.Est == 2 {
			flagSeries, flagChunk = 16, 16
		}
		opts = append(opts,
			store.WithBlockEstimatedMaxSeriesFunc(func(m metadata.Meta) uint64 {
				if m.Thanos.IndexStats.SeriesMaxSize > 0 && uint64(m.Thanos.IndexStats.SeriesMaxSize) < flagSeries {
					return uint64(m.Thanos.IndexStats.SeriesMaxSize)
				}
				return flagSeries
			}),
			store.WithBlockEstimatedMaxChunkFunc(func(m metadata.Meta) uint64 {
				if m.Thanos.IndexStats.ChunkMaxSize > 0 && uint64(m.Thanos.IndexStats.ChunkMaxSize) < flagChunk {
					return uint64(m.Thanos.IndexStats.ChunkMaxSize)
				}
				return flagChunk
			}))
	}
	st, err := store.NewBucketStore(ibkt, f, dir,
		store.NewChunksLimiterFactory(lim.chunks), store.NewSeriesLimiterFactory(lim.series), store.NewBytesLimiterFactory(0),
		store.NewGapBasedPartitioner(gap), 2, cfg.Sampling, false, false, 0, opts...)
	if err != nil {
		return nil, err
	}
	if err := st.SyncBlocks(ctx); err != nil {
		return nil, err
	}
	g.st = st
	return g, nil
}

func (g *gateway) close() {
	_ = g.st.Close()
}

// seriesServer collects a Series stream; it copies chunk payloads when they are sent, like gRPC marshalling does.
type seriesServer struct {
	storepb.Store_SeriesServer
	ctx      context.Context
	series   []*storepb.Series
	warnings []string
}

func (s *seriesServer) Context() context.Context { return s.ctx }
func (s *seriesServer) add(in *storepb.Series) {
	c := &storepb.Series{Labels: append([]labelpb.ZLabel(nil), in.Labels...)}
	for i := range c.Labels {
		c.Labels[i].Name = strings.Clone(c.Labels[i].Name)
		c.Labels[i].Value = strings.Clone(c.Labels[i].Value)
	}
	for _, ch := range in.Chunks {
		cc := ch
		if ch.Raw != nil {
			cc.Raw = &storepb.Chunk{Type: ch.Raw.Type, Hash: ch.Raw.Hash, Data: append([]byte(nil), ch.Raw.Data...)}
		}
		c.Chunks = append(c.Chunks, cc)
	}
	s.series = append(s.series, c)
}
func (s *seriesServer) Send(r *storepb.SeriesResponse) error {
	if w := r.GetWarning(); w != "" {
		s.warnings = append(s.warnings, w)
		return nil
	}
	if x := r.GetSeries(); x != nil {
		s.add(x)
		return nil
	}
	if b := r.GetBatch(); b != nil {
		for _, x := range b.Series {
			s.add(x)
		}
	}
	return nil
}

type result struct {
	ans      answer
	dupes    []string // label sets sent more than once
	unsorted bool
	warnings []string
	nSeries  int
	nChunks  int
}

func encOf(t storepb.Chunk_Encoding) int {
	switch t {
	case storepb.Chunk_XOR:
		return int(chunkenc.EncXOR)
	case storepb.Chunk_HISTOGRAM:
		return int(chunkenc.EncHistogram)
	case storepb.Chunk_FLOAT_HISTOGRAM:
		return int(chunkenc.EncFloatHistogram)
	}
	return -1
}

func (g *gateway) series(ctx context.Context, req *storepb.SeriesRequest) (res *result, err error) {
	// a panic of the code under test (on the calling goroutine) is an answer that differs from the TSDB read
	defer func() {
		if p := recover(); p != nil {
			res, err = nil, fmt.Errorf("panic in BucketStore.Series: %v", p)
		}
	}()
	srv := &seriesServer{ctx: ctx}
	if err := g.st.Series(req, srv); err != nil {
		return nil, err
	}
	res = &result{ans: answer{}, warnings: srv.warnings}
	var prev labels.Labels
	for i, s := range srv.series {
		l := labelpb.ZLabelsToPromLabels(s.Labels)
		if i > 0 && labels.Compare(prev, l) > 0 {
			res.unsorted = true
		}
		prev = l
		k := l.String()
		if _, ok := res.ans[k]; ok {
			res.dupes = append(res.dupes, k)
		}
		var recs []chunkRec
		for _, c := range s.Chunks {
			r := chunkRec{MinT: c.MinTime, MaxT: c.MaxTime, Enc: -2}
			if c.Raw != nil {
				r.Enc = encOf(c.Raw.Type)
				r.Data = string(c.Raw.Data)
			}
			recs = append(recs, r)
		}
		res.nSeries++
		res.nChunks += len(recs)
		res.ans[k] = append(res.ans[k], recs...)
	}
	return res, nil
}

// ---------- matchers ----------

type M struct {
	T int    `json:"t"` // 0 =, 1 !=, 2 =~, 3 !~
	N string `json:"n"`
	V string `json:"v"`
}

func (m M) String() string {
	return m.N + []string{"=", "!=", "=~", "!~"}[m.T] + fmt.Sprintf("%q", m.V)
}

func promMatchers(ms []M) []*labels.Matcher {
	var out []*labels.Matcher
	for _, m := range ms {
		out = append(out, labels.MustNewMatcher(labels.MatchType(m.T), m.N, m.V))
	}
	return out
}

func pbMatchers(ms []M) []storepb.LabelMatcher {
	var out []storepb.LabelMatcher
	for _, m := range ms {
		out = append(out, storepb.LabelMatcher{Type: storepb.LabelMatcher_Type(m.T), Name: m.N, Value: m.V})
	}
	return out
}

// diffAnswers describes the first difference between what the gateway sent and the reference ("" if equal).
// Chunks of a series are compared as sorted lists; when the reference itself holds byte-identical chunks for a
// series (the same data in two blocks) the comparison is on the sets of distinct chunks.
func diffAnswers(got, want answer) (sig, desc string) {
	var keys []string
	for k := range want {
		keys = append(keys, k)
	}
	sort.Strings(keys)
	for _, k := range keys {
		g, ok := got[k]
		if !ok {
			return "series-missing", fmt.Sprintf("series %s (%d chunks in the TSDB read) is missing from the gateway answer", k, len(want[k]))
		}
		w := want[k]
		gs := sortedChunks(g)
		if len(dedupChunks(w)) != len(w) {
			w, gs = dedupChunks(w), dedupChunks(gs)
		}
		if len(gs) != len(w) {
			return "chunk-count-differs", fmt.Sprintf("series %s: gateway %d chunks %v, TSDB %d chunks %v", k, len(gs), brief(gs), len(w), brief(w))
		}
		for i := range w {
			if gs[i] != w[i] {
				if gs[i].MinT != w[i].MinT || gs[i].MaxT != w[i].MaxT {
					return "chunk-range-differs", fmt.Sprintf("series %s chunk %d: gateway [%d,%d], TSDB [%d,%d]", k, i, gs[i].MinT, gs[i].MaxT, w[i].MinT, w[i].MaxT)
				}
				return "chunk-bytes-differ", fmt.Sprintf("series %s chunk %d [%d,%d]: gateway %s, TSDB %s", k, i, w[i].MinT, w[i].MaxT, gs[i], w[i])
			}
		}
	}
	var extra []string
	for k := range got {
		if _, ok := want[k]; !ok {
			extra = append(extra, k)
		}
	}
	if len(extra) > 0 {
		sort.Strings(extra)
		return "series-extra", fmt.Sprintf("gateway returned series %s which the TSDB read does not give", extra[0])
	}
	return "", ""
}

func brief(cs []chunkRec) []string {
	var out []string
	for _, c := range cs {
		out = append(out, fmt.Sprintf("[%d,%d]", c.MinT, c.MaxT))
	}
	return out
}
