// C10: the store gateway (store.BucketStore) answers Series exactly like a direct Prometheus TSDB read of the
// same blocks, for every configuration of index cache (none / cold / warm / evicting), lazy posting expansion,
// series batch size, index-header sampling, size estimates and partitioner gap.
//
// Engine E4 (bounded-exhaustive products of requests x configurations) + E3-style query histories on one
// store instance sharing one in-memory index cache (all sequences of <= 3 queries).
package c10

import (
	"context"
	"fmt"
	"iter"
	"math"
	"os"
	"path/filepath"
	"strings"
	"sync"
	"sync/atomic"
	"testing"

	"github.com/prometheus/client_golang/prometheus"
	"github.com/thanos-io/thanos/pkg/store/storepb"

	"verif/vlib"
)

// ---------- universes ----------

var (
	dense = []int64{0, 50, 100, 150, 200, 250} // chunks [0,50] [100,150] [200,250] with chunk range 100
)

func universeSpecs() map[string][]BlockSpec {
	e1 := []string{"e", "1"}
	e2 := []string{"e", "2"}
	u0 := []BlockSpec{{Ext: e1, MinT: 0, MaxT: 300, ChunkRange: 100, Series: []SeriesSpec{
		{L: []string{"a", "x"}, T: dense},
		{L: []string{"a", "x", "b", "p"}, T: []int64{150}},
		{L: []string{"a", "y", "b", "p"}, T: []int64{0}},
		{L: []string{"a", "y", "b", "q"}, T: []int64{0, 250}},
		{L: []string{"a", "z", "c", "r"}, T: []int64{250}},
		{L: []string{"b", "q"}, T: dense},
		{L: []string{"a", "x", "b", "q", "c", "r"}, T: []int64{100, 150}},
	}}}
	u1 := []BlockSpec{
		{Ext: e1, MinT: 0, MaxT: 300, ChunkRange: 100, Series: []SeriesSpec{
			{L: []string{"a", "x"}, T: dense},
			{L: []string{"a", "x", "b", "p"}, T: []int64{150}},
			{L: []string{"a", "y", "b", "q"}, T: []int64{0, 250}},
		}},
		{Ext: e1, MinT: 300, MaxT: 600, ChunkRange: 100, Series: []SeriesSpec{
			{L: []string{"a", "x"}, T: []int64{300, 350, 400}},
			{L: []string{"a", "y", "b", "q"}, T: []int64{599}},
			{L: []string{"a", "w"}, T: []int64{300}},
		}},
		{Ext: e2, MinT: 0, MaxT: 300, ChunkRange: 100, Series: []SeriesSpec{
			{L: []string{"a", "x"}, T: dense},
			{L: []string{"b", "p"}, T: []int64{50}},
		}},
		// overlaps the first block (same external labels, same range): {a="x"} repeats its first chunk
		// byte for byte, {a="y"} exists only here.
		{Ext: e1, MinT: 0, MaxT: 300, ChunkRange: 100, Series: []SeriesSpec{
			{L: []string{"a", "x"}, T: []int64{0, 50}},
			{L: []string{"a", "y"}, T: []int64{100}},
		}},
	}
	var wide []SeriesSpec
	for i := 0; i < 40; i++ {
		l := []string{"n", fmt.Sprintf("v%02d", i), "a", []string{"x", "y"}[i%2]}
		if i%3 == 0 {
			l = append(l, "b", "p")
		}
		t := [][]int64{dense, {0}, {150}, {250}}[i%4]
		wide = append(wide, SeriesSpec{L: l, T: t})
	}
	u2 := []BlockSpec{{Ext: e1, MinT: 0, MaxT: 300, ChunkRange: 100, Series: wide}}
	return map[string][]BlockSpec{"u0": u0, "u1": u1, "u2": u2}
}

var universeNames = []string{"u0", "u1", "u2"}

// ---------- request alphabets ----------

type Query struct {
	Ms   []M   `json:"ms"`
	MinT int64 `json:"mint"`
	MaxT int64 `json:"maxt"`
}

func (q Query) String() string {
	var s []string
	for _, m := range q.Ms {
		s = append(s, m.String())
	}
	return fmt.Sprintf("{%s}@[%d,%d]", strings.Join(s, ","), q.MinT, q.MaxT)
}

// one symbol per branch of toPostingGroup / mergeKeys / the lazy path
func nameAlphabet(n, v1, v2, miss string, full bool) []M {
	out := []M{
		{0, n, v1},            // equal, existing value: one add key
		{0, n, v2},            // equal, a value that is not the first of the label
		{0, n, ""},            // ="" : add all, remove every value
		{1, n, v1},            // != : add all, remove one key
		{1, n, ""},            // !="" : add every value
		{2, n, v1 + "|" + v2}, // set matcher: add keys
		{2, n, ".+"},          // add every value
		{2, n, ".*"},          // add all, no keys
		{2, n, v1 + ".*"},     // generic regex: scan label values, add matching
		{3, n, v1 + "|" + v2}, // negated set: add all, remove keys
		{2, n, v1 + "|"},      // regex that also matches "": add all, remove non-matching
	}
	if full {
		out = append(out,
			M{0, n, miss},            // equal, value absent from the block: empty group shortcut
			M{2, n, v1 + "|" + miss}, // set with an absent key
			M{3, n, ".+"},            // add all, remove every value
			M{3, n, ".*"},            // matches nothing
			M{3, n, v1 + ".*"},       // negated generic regex
			M{2, n, ""},              // =~"" same as =""
			M{3, n, ""},              // !~"" same as !=""
		)
	}
	return out
}

func matcherAlphabet(u string, full bool) []M {
	var out []M
	if u == "u2" {
		out = append(out, nameAlphabet("n", "v05", "v33", "v99", full)...)
		out = append(out, M{0, "n", "v00"}, M{0, "n", "v32"}, M{0, "n", "v39"}, M{2, "n", "v3.+"})
		out = append(out, nameAlphabet("a", "x", "y", "m", full)...)
	} else {
		out = append(out, nameAlphabet("a", "x", "y", "m", full)...)
		out = append(out, nameAlphabet("b", "p", "q", "m", full)...)
	}
	out = append(out, M{0, "e", "1"}, M{1, "e", "1"})
	if full {
		out = append(out, M{2, "e", "1|2"}, M{2, "e", "2|1"})
		for _, nv := range universeNamesVals(u) {
			out = append(out, orderSymbols(u, nv, false)...)
		}
	}
	return out
}

// ---------- set matchers as written + several matchers on one label name ----------
//
// A set matcher is an ordered list of alternatives in the request (`l=~"c|a"`), the posting groups built from
// it are merged pairwise with the groups of the other matchers on the same label name (mergeKeys: two-pointer
// walks over add keys / remove keys) and looked up in the index-header in one pass (PostingsOffsets). The
// symbols below write the alternatives in an order that is NOT lexicographic (lo < mid < hi), with a repeated
// alternative, through the regexp parser instead of the literal fast path, and with >= 16 alternatives
// (Prometheus then keeps them in a map: SetMatches comes back in random order).
func orderAlphabet(n, lo, mid, hi string, full bool) []M {
	out := []M{
		{3, n, hi + "|" + lo},              // l!~"c|a": remove keys written out of order, leaves mid
		{2, n, hi + "|" + lo},              // l=~"c|a": add keys written out of order
		{2, n, mid + "|" + lo + "|" + hi},  // l=~"b|a|c"
		{3, n, mid + "|" + lo},             // l!~"b|a": leaves hi
		{2, n, mid + "|" + lo + "|" + mid}, // l=~"b|a|b": an alternative written twice
	}
	if full {
		out = append(out,
			M{3, n, mid + "|" + lo + "|" + hi},  // l!~"b|a|c"
			M{2, n, "(" + hi + "|" + lo + ")"},  // same set through the regexp parser (group)
			M{3, n, mid + "|" + lo + "|" + mid}, // negated, an alternative written twice
		)
	}
	return out
}

// bigSet: 17 existing values of label n of u2 in descending order (>= 16 alternatives: map-backed set matcher).
func bigSet() string {
	var vs []string
	for i := 38; i >= 6; i -= 2 {
		vs = append(vs, fmt.Sprintf("v%02d", i))
	}
	return strings.Join(vs, "|")
}

type nameVals struct{ n, v1, v2, miss, lo, mid, hi string }

func universeNamesVals(u string) []nameVals {
	switch u {
	case "u2":
		return []nameVals{{"n", "v05", "v33", "v99", "v05", "v20", "v33"}, {"a", "x", "y", "m", "x", "y", "z"}}
	case "u1": // label a has the values w, x, y there (w only in the second block)
		return []nameVals{{"a", "x", "y", "m", "w", "x", "y"}, {"b", "p", "q", "m", "p", "q", "s"}}
	}
	// u0: a in {x,y,z}; b in {p,q} (s is absent: a set that mentions a value the block does not have)
	return []nameVals{{"a", "x", "y", "m", "x", "y", "z"}, {"b", "p", "q", "m", "p", "q", "s"}}
}

func orderSymbols(u string, nv nameVals, full bool) []M {
	out := orderAlphabet(nv.n, nv.lo, nv.mid, nv.hi, full)
	if u == "u2" && nv.n == "n" {
		out = append(out, M{2, "n", bigSet()}, M{3, "n", bigSet()})
		if full {
			out = append(out, M{2, "n", "v(33|05|20)"}) // set found by the regexp parser under a common prefix
		}
	}
	return out
}

// sameNameSets: the requests of the "samename" part.
//   - every order symbol alone
//   - every pair {order symbol, any other symbol on the SAME label name} (mergeKeys on a group with unsorted input)
//   - pairs {order symbol, partner on the OTHER label name} (two groups: lazy posting selection looks the keys of
//     both up in the index-header in one pass) and {order symbol, order symbol} across names
//   - every set of THREE matchers on one label name over a 7-symbol alphabet (the result of one mergeKeys is merged
//     again; the store walks the matchers of one name in map order, so all merge orders occur)
func sameNameSets(u string, full bool) [][]M {
	var out [][]M
	nvs := universeNamesVals(u)
	ord := make([][]M, len(nvs))
	for i, nv := range nvs {
		ord[i] = orderSymbols(u, nv, full)
	}
	for i, nv := range nvs {
		for _, o := range ord[i] {
			out = append(out, []M{o})
		}
		base := nameAlphabet(nv.n, nv.v1, nv.v2, nv.miss, full)
		for k, o := range ord[i] {
			for _, b := range base {
				out = append(out, []M{o, b})
			}
			for _, o2 := range ord[i][k+1:] {
				out = append(out, []M{o, o2})
			}
		}
	}
	for i := range nvs {
		for j := range nvs {
			if i == j {
				continue
			}
			nv := nvs[j]
			partners := []M{{0, nv.n, nv.v1}, {1, nv.n, ""}, {1, nv.n, nv.v1}}
			for _, o := range ord[i] {
				for _, p := range partners {
					out = append(out, []M{o, p})
				}
				if i < j {
					for _, o2 := range ord[j] {
						out = append(out, []M{o, o2})
					}
				}
			}
		}
	}
	for _, nv := range nvs {
		t := []M{
			{1, nv.n, nv.lo},                              // add all, remove lo
			{1, nv.n, nv.hi},                              // add all, remove hi
			{3, nv.n, nv.mid + "|" + nv.lo},               // add all, remove {mid, lo}
			{2, nv.n, ".+"},                               // add every value
			{2, nv.n, nv.mid + "|" + nv.hi + "|" + nv.lo}, // add keys, written out of order
			{1, nv.n, ""},                                 // add every value
			{0, nv.n, nv.mid},                             // one add key
		}
		for a := 0; a < len(t); a++ {
			for b := a + 1; b < len(t); b++ {
				for c := b + 1; c < len(t); c++ {
					out = append(out, []M{t[a], t[b], t[c]})
				}
			}
		}
	}
	return out
}

// all non-empty sets of at most 2 matchers (order is irrelevant: the store sorts them)
func matcherSets(alpha []M) [][]M {
	var out [][]M
	for i := range alpha {
		out = append(out, []M{alpha[i]})
	}
	for i := range alpha {
		for j := i + 1; j < len(alpha); j++ {
			out = append(out, []M{alpha[i], alpha[j]})
		}
	}
	return out
}

// a few three-matcher sets (two on one name plus one on another: mergeKeys followed by intersection)
func tripleSets(u string) [][]M {
	if u == "u2" {
		return [][]M{
			{{2, "n", "v0.*"}, {1, "n", "v05"}, {0, "a", "y"}},
			{{1, "n", "v00"}, {1, "n", "v39"}, {2, "a", "x|y"}},
			{{2, "n", ".+"}, {3, "n", "v05|v33"}, {0, "b", "p"}},
		}
	}
	return [][]M{
		{{2, "a", "x|y"}, {1, "a", "x"}, {0, "b", "q"}},
		{{1, "a", "x"}, {1, "a", "y"}, {2, "b", ".*"}},
		{{2, "a", ".+"}, {3, "a", "x|y"}, {1, "b", "p"}},
		{{0, "a", "x"}, {0, "b", ""}, {0, "c", ""}},
		{{0, "a", "x"}, {2, "b", "p|q"}, {0, "c", "r"}},
	}
}

// matcher sets for the chunk-side product: they select different subsets of the series
func chunkSideSets(u string) [][]M {
	if u == "u2" {
		return [][]M{
			{{2, "n", ".+"}}, {{0, "a", "x"}}, {{0, "b", "p"}, {0, "a", "y"}}, {{2, "n", "v0.*"}}, {{0, "n", "v00"}},
			{{2, "n", "v04|v08|v36"}}, {{0, "b", ""}, {2, "a", "x|y"}},
		}
	}
	return [][]M{
		{{2, "a", ".*"}}, {{0, "a", "x"}}, {{2, "a", ".+"}}, {{0, "b", "q"}}, {{0, "a", "y"}, {2, "b", "p|q"}},
		{{0, "a", ""}}, {{0, "a", "x"}, {0, "b", ""}}, {{2, "a", "x|y|z|w"}, {1, "c", "r"}}, {{0, "a", "x"}, {0, "e", "1"}},
		{{0, "c", "r"}},
	}
}

// time ranges: every comparison of decodeSeriesForTime / getFor at, just before and just after a chunk or block edge
var allRanges = [][2]int64{
	{0, 1000},                      // 0 everything
	{math.MinInt64, math.MaxInt64}, // 1 everything, extreme bounds
	{0, 0},                         // 2 first sample only
	{50, 100},                      // 3 touches maxt of chunk 1 and mint of chunk 2
	{51, 99},                       // 4 between two chunks of the dense series
	{150, 150},                     // 5 the lone sample of the sparse series
	{151, 199},                     // 6 gap
	{250, 400},                     // 7 last chunk, crosses the block boundary of u1
	{251, 299},                     // 8 inside the block, after its last sample
	{299, 300},                     // 9 block boundary
	{300, 300},                     // 10 first instant of the second block
	{350, 399},                     // 11 touches maxt of a chunk in the second block
	{600, 700},                     // 12 after everything
	{-5, -1},                       // 13 before everything
}
var productRanges = []int{0, 7}

var historyQueries = map[string][]Query{
	"u0": {
		{Ms: []M{{0, "a", "x"}}, MinT: 0, MaxT: 1000},
		{Ms: []M{{0, "a", "x"}}, MinT: 51, MaxT: 99},
		{Ms: []M{{0, "a", "x"}, {0, "b", "p"}}, MinT: 0, MaxT: 1000},
		{Ms: []M{{0, "a", "x"}, {0, "b", "p"}}, MinT: 0, MaxT: 0},
		{Ms: []M{{2, "a", "x|y"}, {1, "b", "q"}}, MinT: 0, MaxT: 1000},
		{Ms: []M{{0, "b", "p"}}, MinT: 0, MaxT: 1000},
		{Ms: []M{{0, "a", "x"}, {0, "b", ""}}, MinT: 0, MaxT: 1000},
		{Ms: []M{{2, "a", ".+"}, {2, "b", "p|q"}}, MinT: 150, MaxT: 150},
		// thorough only from here
		{Ms: []M{{0, "a", "x"}, {2, "b", ".*"}}, MinT: 0, MaxT: 1000},
		{Ms: []M{{1, "a", "x"}, {0, "b", "q"}}, MinT: 0, MaxT: 1000},
		{Ms: []M{{2, "a", ".+"}, {2, "b", "p|q"}}, MinT: 0, MaxT: 1000},
		{Ms: []M{{0, "a", "x"}, {0, "b", "q"}, {0, "c", "r"}}, MinT: 200, MaxT: 250},
		{Ms: []M{{0, "a", "y"}}, MinT: 0, MaxT: 1000},
	},
	"u1": {
		{Ms: []M{{0, "a", "x"}}, MinT: 0, MaxT: 1000},
		{Ms: []M{{0, "a", "x"}}, MinT: 300, MaxT: 300},
		{Ms: []M{{0, "a", "x"}, {0, "b", "p"}}, MinT: 0, MaxT: 1000},
		{Ms: []M{{0, "a", "y"}, {0, "b", "q"}}, MinT: 251, MaxT: 299},
		{Ms: []M{{2, "a", "x|y|w"}, {1, "b", "q"}}, MinT: 0, MaxT: 1000},
		{Ms: []M{{0, "a", "x"}, {0, "e", "1"}}, MinT: 0, MaxT: 1000},
		{Ms: []M{{0, "a", "x"}, {0, "b", ""}}, MinT: 250, MaxT: 400},
		{Ms: []M{{2, "a", ".+"}, {2, "b", "p|q"}}, MinT: 0, MaxT: 1000},
		// thorough only from here
		{Ms: []M{{0, "a", "w"}}, MinT: 0, MaxT: 1000},
		{Ms: []M{{0, "a", "x"}, {0, "e", "2"}}, MinT: 0, MaxT: 1000},
		{Ms: []M{{0, "a", "y"}, {0, "b", "q"}}, MinT: 0, MaxT: 1000},
		{Ms: []M{{2, "a", ".+"}, {2, "b", "p|q"}}, MinT: 599, MaxT: 599},
		{Ms: []M{{0, "b", "p"}}, MinT: 0, MaxT: 1000},
	},
}

// ---------- configuration products ----------

var (
	samplings = []int{1, 2, 32}
	batches   = []int{1, 2, 10000}
)

func postingsConfigs(ncache int) []Config { // sampling x lazy x est x cache
	var out []Config
	for _, s := range samplings {
		for lazy := 0; lazy < 4; lazy++ {
			// the package-default estimates (est 0) are left to the chunk-side product in the quick tier (ncache == 2)
			for est := 3 - ncache; est < 3; est++ {
				for cache := 0; cache < ncache; cache++ {
					out = append(out, Config{Sampling: s, Lazy: lazy, Est: est, Batch: 10000, Cache: cache, Gap: 1})
				}
			}
		}
	}
	return out
}

// sameNameConfigs: quick = sampling x lazy x estimates{index stats, 16 bytes} with the in-memory cache (cold, then
// warm; the cold call takes every path of a store without cache); sampling 2 only for the 40-value label of u2
// (labels with <= 3 values have the same offset table for 2 and 32). Thorough = the whole postings-side product.
func sameNameConfigs(u string, ncache int) []Config {
	if ncache > 2 {
		return postingsConfigs(ncache)
	}
	var out []Config
	for _, s := range samplings {
		if s == 2 && u != "u2" {
			continue
		}
		for lazy := 0; lazy < 4; lazy++ {
			for est := 1; est < 3; est++ {
				out = append(out, Config{Sampling: s, Lazy: lazy, Est: est, Batch: 10000, Cache: 1, Gap: 1})
			}
		}
	}
	return out
}

func chunkConfigs(ncache int) []Config { // batch x gap x est x lazy{off, always} x cache
	var out []Config
	for _, b := range batches {
		for gap := 0; gap < 2; gap++ {
			for est := 0; est < 3; est++ {
				for _, lazy := range []int{0, 2} {
					for cache := 0; cache < ncache; cache++ {
						out = append(out, Config{Sampling: 32, Lazy: lazy, Est: est, Batch: b, Cache: cache, Gap: gap})
					}
				}
			}
		}
	}
	return out
}

func fullConfigs() []Config {
	var out []Config
	for _, s := range samplings {
		for lazy := 0; lazy < 4; lazy++ {
			for est := 0; est < 3; est++ {
				for _, b := range batches {
					for cache := 0; cache < 3; cache++ {
						for gap := 0; gap < 2; gap++ {
							out = append(out, Config{Sampling: s, Lazy: lazy, Est: est, Batch: b, Cache: cache, Gap: gap})
						}
					}
				}
			}
		}
	}
	return out
}

func historyConfigs() []Config { // cache{in-memory, evicting} x lazy x est{stats, tiny} x batch
	var out []Config
	for cache := 1; cache < 3; cache++ {
		for lazy := 0; lazy < 4; lazy++ {
			for est := 1; est < 3; est++ {
				for _, b := range batches {
					out = append(out, Config{Sampling: 32, Lazy: lazy, Est: est, Batch: b, Cache: cache, Gap: 1})
				}
			}
		}
	}
	return out
}

// ---------- cases ----------

type Case struct {
	Part  string  `json:"part"` // postings | chunks | full | history
	U     int     `json:"u"`
	Cfg   Config  `json:"cfg"`
	First int     `json:"first,omitempty"` // history: index of the first query; all continuations are explored
	Qs    []Query `json:"qs,omitempty"`    // explicit requests (counter-examples): run exactly these
}

type env struct {
	r      *vlib.R
	unis   []*universe
	hdr    []string // per universe: directory holding the index-headers (shared, read-only after warm-up)
	root   string
	seq    atomic.Int64
	full   bool
	histN  int
	depth  int
	ncache int // cache kinds in the postings/chunk side products: 2 = {none, in-memory}, 3 = + evicting

	refs sync.Map // universe|request -> answer of the direct TSDB read (does not depend on the store configuration)

	calls, sameCalls, lazyExp, refetchS, refetchC, hitP, hitE, hitS atomic.Int64
	notedEmpty                                                      sync.Once
}

func (e *env) requests(part string, u int) []Query {
	name := universeNames[u]
	var out []Query
	switch part {
	case "postings":
		sets := append(matcherSets(matcherAlphabet(name, e.full)), tripleSets(name)...)
		for _, ms := range sets {
			out = append(out, Query{Ms: ms, MinT: allRanges[0][0], MaxT: allRanges[0][1]})
		}
	case "samename":
		for _, ms := range sameNameSets(name, e.full) {
			out = append(out, Query{Ms: ms, MinT: allRanges[0][0], MaxT: allRanges[0][1]})
		}
	case "chunks":
		for _, ms := range chunkSideSets(name) {
			for _, rg := range allRanges {
				out = append(out, Query{Ms: ms, MinT: rg[0], MaxT: rg[1]})
			}
		}
	case "full":
		sets := append(matcherSets(matcherAlphabet(name, false)), tripleSets(name)...)
		for _, ms := range sets {
			for _, ri := range productRanges {
				out = append(out, Query{Ms: ms, MinT: allRanges[ri][0], MaxT: allRanges[ri][1]})
			}
		}
	}
	return out
}

func (e *env) gen() iter.Seq[Case] {
	return func(yield func(Case) bool) {
		// the newest family first: on an overloaded machine the deadline cuts the tail of the older ones
		for u := range e.unis {
			for _, c := range sameNameConfigs(universeNames[u], e.ncache) {
				if !yield(Case{Part: "samename", U: u, Cfg: c}) {
					return
				}
			}
		}
		for u := range e.unis {
			for _, c := range postingsConfigs(e.ncache) {
				if !yield(Case{Part: "postings", U: u, Cfg: c}) {
					return
				}
			}
			for _, c := range chunkConfigs(e.ncache) {
				if !yield(Case{Part: "chunks", U: u, Cfg: c}) {
					return
				}
			}
		}
		for u := range e.unis {
			if _, ok := historyQueries[universeNames[u]]; !ok {
				continue
			}
			for _, c := range historyConfigs() {
				for f := 0; f < e.histN; f++ {
					if !yield(Case{Part: "history", U: u, Cfg: c, First: f}) {
						return
					}
				}
			}
		}
		if e.full {
			for u := range e.unis {
				for _, c := range fullConfigs() {
					if !yield(Case{Part: "full", U: u, Cfg: c}) {
						return
					}
				}
			}
		}
	}
}

func counterValue(reg *prometheus.Registry, name string) int64 {
	mfs, err := reg.Gather()
	if err != nil {
		return 0
	}
	var n float64
	for _, mf := range mfs {
		if mf.GetName() != name {
			continue
		}
		for _, m := range mf.Metric {
			if m.Counter != nil {
				n += m.Counter.GetValue()
			}
		}
	}
	return int64(n)
}

// repeatsAlternative: some regexp matcher of q is a plain `v1|v2|...` list in which one alternative occurs twice.
// Only used to give violations on such requests their own (narrow) signature.
func repeatsAlternative(q Query) bool {
	for _, m := range q.Ms {
		if m.T < 2 {
			continue
		}
		seen := map[string]bool{}
		for _, v := range strings.Split(strings.Trim(m.V, "()"), "|") {
			if seen[v] {
				return true
			}
			seen[v] = true
		}
	}
	return false
}

// hasStoredMatcher: at least one matcher is on a label that is not an external label of some block. Requests
// without one are rejected by the querier-facing proxy ("no matchers specified (excluding external labels)");
// the bucket store itself answers them with nothing.
func hasStoredMatcher(q Query) bool {
	for _, m := range q.Ms {
		if m.N != "e" {
			return true
		}
	}
	return false
}

// reference returns the direct TSDB read for q on u; computed once per (universe, request), read-only afterwards.
func (e *env) reference(ctx context.Context, u *universe, q Query) answer {
	k := u.name + "|" + q.String()
	if v, ok := e.refs.Load(k); ok {
		return v.(answer)
	}
	want, err := u.reference(ctx, promMatchers(q.Ms), q.MinT, q.MaxT, nil)
	if err != nil {
		panic(fmt.Sprintf("HARNESS-ERROR reference read failed: %v", err))
	}
	v, _ := e.refs.LoadOrStore(k, want)
	return v.(answer)
}

func (e *env) eval(c Case) {
	r := e.r
	ctx := context.Background()
	if c.U < 0 || c.U >= len(e.unis) {
		panic(fmt.Sprintf("HARNESS-ERROR bad universe %d", c.U))
	}
	u := e.unis[c.U]
	reg := prometheus.NewRegistry()
	g, err := newGateway(ctx, u, c.Cfg, limits{}, e.hdr[c.U], reg)
	if err != nil {
		r.Violation("store-does-not-start", err.Error(), c)
		return
	}
	defer func() {
		e.lazyExp.Add(counterValue(reg, "thanos_bucket_store_lazy_expanded_postings_total"))
		e.refetchS.Add(counterValue(reg, "thanos_bucket_store_series_refetches_total"))
		e.refetchC.Add(counterValue(reg, "thanos_bucket_store_chunk_refetches_total"))
		if g.cache != nil {
			e.hitP.Add(g.cache.hits[0])
			e.hitE.Add(g.cache.hits[1])
			e.hitS.Add(g.cache.hits[2])
		}
		g.close()
	}()

	ncalls := int64(0)
	// one returns false when the answer differs from the direct TSDB read
	one := func(q Query, phase string, narrowed Case) bool {
		want := e.reference(ctx, u, q)
		res, err := g.series(ctx, &storepb.SeriesRequest{MinTime: q.MinT, MaxTime: q.MaxT, Matchers: pbMatchers(q.Ms)})
		ncalls++
		if err != nil {
			r.Violation(phase+"series-call-fails", fmt.Sprintf("%s on %s %s: %v", q, u.name, c.Cfg, err), narrowed)
			return false
		}
		if len(want) > 0 && len(want) < u.nSeries {
			r.Nontrivial(fmt.Sprintf("%d|%s", c.U, q))
		}
		if len(res.warnings) > 0 {
			r.Violation(phase+"warning-instead-of-data", fmt.Sprintf("%s on %s %s: warnings %v", q, u.name, c.Cfg, res.warnings), narrowed)
			return false
		}
		if len(res.dupes) > 0 {
			r.Violation(phase+"series-sent-twice", fmt.Sprintf("%s on %s %s: %s sent more than once", q, u.name, c.Cfg, res.dupes[0]), narrowed)
			return false
		}
		if sig, desc := diffAnswers(res.ans, want); sig != "" {
			if repeatsAlternative(q) {
				sig += "-set-alternative-repeated"
			}
			if c.Cfg.Lazy != 0 {
				sig += "-lazy-postings-on"
			}
			r.Violation(phase+sig, fmt.Sprintf("%s on %s %s: %s", q, u.name, c.Cfg, desc), narrowed)
			return false
		}
		return true
	}
	skip := func(q Query, narrowed Case) {
		want := e.reference(ctx, u, q)
		res, err := g.series(ctx, &storepb.SeriesRequest{MinTime: q.MinT, MaxTime: q.MaxT, Matchers: pbMatchers(q.Ms), SkipChunks: true})
		ncalls++
		if err != nil {
			r.Violation("skip-chunks-series-call-fails", fmt.Sprintf("%s on %s %s: %v", q, u.name, c.Cfg, err), narrowed)
			return
		}
		if len(res.dupes) > 0 {
			r.Violation("skip-chunks-series-sent-twice", fmt.Sprintf("%s on %s %s: %s sent more than once", q, u.name, c.Cfg, res.dupes[0]), narrowed)
			return
		}
		for k := range want {
			if _, ok := res.ans[k]; !ok {
				r.Violation("skip-chunks-series-missing", fmt.Sprintf("%s on %s %s: series %s of the TSDB read is missing", q, u.name, c.Cfg, k), narrowed)
				return
			}
		}
		for k, chks := range res.ans {
			if _, ok := want[k]; !ok {
				r.Violation("skip-chunks-series-extra", fmt.Sprintf("%s on %s %s: series %s is not in the TSDB read", q, u.name, c.Cfg, k), narrowed)
				return
			}
			if len(chks) > 0 {
				r.Violation("skip-chunks-returns-chunks", fmt.Sprintf("%s on %s %s: series %s carries %d chunks", q, u.name, c.Cfg, k, len(chks)), narrowed)
				return
			}
		}
	}
	reset := func() {
		if g.cache != nil {
			g.cache.reset()
		}
	}

	switch c.Part {
	case "postings", "chunks", "full", "samename":
		qs := c.Qs
		if qs == nil {
			qs = e.requests(c.Part, c.U)
		}
		for _, q := range qs {
			if !hasStoredMatcher(q) {
				continue
			}
			n := c
			n.Qs = []Query{q}
			reset()
			if one(q, "", n) && g.cache != nil {
				one(q, "warm-cache-", n)
			}
			if c.Part == "chunks" {
				// the same request without chunks: exactly the series of the TSDB read, no chunks
				reset()
				skip(q, n)
			}
		}
	case "history":
		if c.Qs != nil {
			reset()
			for _, q := range c.Qs {
				if !one(q, "history-", c) {
					break
				}
			}
			break
		}
		hq := historyQueries[u.name][:e.histN]
		var rec func(seq []Query)
		rec = func(seq []Query) {
			n := c
			n.Qs = seq
			reset()
			ok := true
			for _, q := range seq {
				if !one(q, "history-", n) {
					ok = false
					break
				}
			}
			r.AddTraces(1)
			r.Depth(len(seq))
			if !ok || len(seq) >= e.depth {
				return
			}
			for _, q := range hq {
				rec(append(append([]Query(nil), seq...), q))
			}
		}
		rec([]Query{hq[c.First]})
	default:
		panic(fmt.Sprintf("HARNESS-ERROR unknown part %q", c.Part))
	}
	e.calls.Add(ncalls)
	if c.Part == "samename" {
		e.sameCalls.Add(ncalls)
	}
	if ncalls > 1 {
		r.Eval(ncalls - 1) // ForEach counts the case itself as one evaluation
	}
}

func TestCheck(t *testing.T) {
	r := vlib.New(t, "C10")
	defer r.Finish()
	r.Rule("Series calls on a real BucketStore over real TSDB blocks (3 block universes: 7 series/1 block; 4 blocks incl. adjacent, " +
		"other external labels and an overlapping block repeating a chunk; 40-value label for index-header sampling) compared with " +
		"tsdb.OpenBlock+ChunkQuerier. Products: postings side = all sets of <=2 matchers (+triples) x sampling{1,2,32} x lazy{off,0.5,1.0,key-ratio} x " +
		"size-estimates{index-stats,16 bytes; thorough also package defaults} x cache{none,cold+warm; thorough also evicting}; chunk side = matcher sets x 14 time ranges (with and without chunks) x " +
		"batch{1,2,1e4} x gap{0,512K} x estimates{default,index-stats,16 bytes} x lazy{off,always} x cache; " +
		"histories = every sequence of <=3 queries (5 queries quick, 10 thorough) on one store sharing one index cache x cache{in-memory,evicting} x lazy x estimates x batch; " +
		"same-name part = set matchers written out of lexicographic order / with a repeated alternative / with 17 alternatives (map-backed), alone, paired with every other " +
		"matcher symbol on the SAME label name and with matchers on the other name, plus every set of 3 matchers on one label name over 7 symbols, x sampling x lazy x estimates, cold+warm cache; " +
		"thorough adds the full configuration product (648 configurations) on 2 time ranges. " +
		"non-trivial = distinct (universe, request) whose reference answer is a non-empty strict subset of the series")
	r.Assume("float (XOR) chunks only; one segment file per block; raw resolution blocks only (downsampled blocks are C15's subject)",
		"requests carry at least one matcher on a non-external label (the proxy rejects others; the bucket store answers them with nothing)",
		"no collision between stored label names and external label names and no replica-label dropping (C08's subject)",
		"the index cache is swapped through a forwarding wrapper so that one store can be reused with a fresh cache per history")

	ctx := context.Background()
	root := t.TempDir()
	e := &env{r: r, root: root, full: r.Thorough(), histN: vlib.Pick(r, 5, 10), depth: 3, ncache: vlib.Pick(r, 2, 3)}
	specs := universeSpecs()
	for i, name := range universeNames {
		u, err := buildUniverse(ctx, root, name, specs[name])
		if err != nil {
			t.Fatalf("HARNESS-ERROR %v", err)
		}
		defer u.close()
		e.unis = append(e.unis, u)
		// warm-up store: writes the index-header files that all later stores of this universe map read-only
		hdr := filepath.Join(root, "hdr-"+name)
		g, err := newGateway(ctx, u, Config{Sampling: 32, Batch: 10000, Gap: 1}, limits{}, hdr, nil)
		if err != nil {
			t.Fatalf("HARNESS-ERROR warm-up store for %s: %v", name, err)
		}
		g.close()
		e.hdr = append(e.hdr, hdr)
		_ = i
	}
	vlib.ForEach(r, e.gen(), func(c Case) {
		r.Sample(c)
		e.eval(c)
	})
	r.Set("series_calls", e.calls.Load())
	r.Set("series_calls_same_name_part", e.sameCalls.Load())
	r.Set("lazy_expansions", e.lazyExp.Load())
	r.Set("series_refetches", e.refetchS.Load())
	r.Set("chunk_refetches", e.refetchC.Load())
	r.Set("cache_hits_postings", e.hitP.Load())
	r.Set("cache_hits_expanded_postings", e.hitE.Load())
	r.Set("cache_hits_series", e.hitS.Load())
	if !r.Replaying() {
		if e.lazyExp.Load() == 0 || e.hitE.Load() == 0 || e.hitP.Load() == 0 || e.hitS.Load() == 0 || e.refetchS.Load() == 0 || e.refetchC.Load() == 0 {
			r.Cap("a code path was never exercised (lazy expansion / cache hit / refetch counters are zero)")
		}
	}
	_ = os.Remove
}
