// C24: the remote-write concurrency gate is never exceeded, also under cancellations while queued.
package c24

import (
	"context"
	"encoding/json"
	"fmt"
	"io"
	"net/http"
	"net/http/httptest"
	"strings"
	"testing"
	"time"

	"github.com/go-kit/log"

	"github.com/thanos-io/thanos/pkg/receive"

	"verif/vexplore"
	"verif/vlib"
	"verif/vsync"
)

type Params struct {
	Max      int    `json:"max"`      // max_concurrency
	Requests int    `json:"requests"` // number of request threads
	Cancel   []bool `json:"cancel"`   // per request: a cancel event exists
	OTLP     []bool `json:"otlp"`     // per request: OTLP endpoint instead of protobuf
}

func (p Params) name() string { b, _ := json.Marshal(p); return string(b) }

type content struct{ b []byte }

func (c content) Content() ([]byte, error) { return c.b, nil }
func (c content) Path() string             { return "" }

type state struct {
	inflight, maxSeen int
	bodyReads         int
}

type body struct {
	st *state
}

func (b *body) Read(p []byte) (int, error) {
	b.st.inflight++
	b.st.bodyReads++
	if b.st.inflight > b.st.maxSeen {
		b.st.maxSeen = b.st.inflight
	}
	vsync.Point("request-body-read")
	b.st.inflight--
	return 0, io.EOF
}
func (b *body) Close() error { return nil }

func scenario(p Params) *vexplore.Scenario {
	return &vexplore.Scenario{
		Name:     p.name(),
		MaxSteps: 5000,
		New: func() (func(e *vsync.Exec), func(), func(e *vsync.Exec) (string, string, string)) {
			cfg := fmt.Sprintf("write:\n  global:\n    max_concurrency: %d\n", p.Max)
			lim, err := receive.NewLimiter(content{[]byte(cfg)}, nil, receive.RouterIngestor, log.NewNopLogger(), time.Hour)
			if err != nil {
				panic(err)
			}
			h := receive.NewHandler(log.NewNopLogger(), &receive.Options{
				Limiter: lim, ReceiverMode: receive.RouterIngestor, ReplicationFactor: 1, DefaultTenantID: "t",
				TenantHeader: "THANOS-TENANT", ForwardTimeout: time.Hour,
			})
			st := &state{}
			codes := make([]int, p.Requests)
			bodyFn := func() {
				var hs []vsync.Handle
				for i := 0; i < p.Requests; i++ {
					i := i
					ctx, cancel := context.WithCancel(context.Background())
					if p.Cancel[i] {
						hs = append(hs, vsync.Spawn(fmt.Sprintf("cancel%d", i), func() {
							vsync.Point("cancel")
							cancel()
						}))
					}
					hs = append(hs, vsync.Spawn(fmt.Sprintf("req%d", i), func() {
						req := httptest.NewRequest(http.MethodPost, "/api/v1/receive", nil).WithContext(ctx)
						req.Body = &body{st}
						req.ContentLength = -1
						rec := httptest.NewRecorder()
						if p.OTLP[i] {
							req.Header.Set("Content-Type", "application/x-protobuf")
							h.VerifReceiveOTLPHTTP(rec, req)
						} else {
							h.VerifReceiveHTTP(rec, req)
						}
						codes[i] = rec.Code
					}))
					_ = cancel
				}
				for _, hd := range hs {
					vsync.Join(hd)
				}
			}
			check := func(e *vsync.Exec) (string, string, string) {
				outcome := fmt.Sprintf("%s codes=%v max_inflight=%d body_reads=%d", e.Outcome(), codes, st.maxSeen, st.bodyReads)
				switch {
				case len(e.Panics) > 0:
					return "request-panicked", strings.Join(e.Panics, "; "), outcome
				case st.maxSeen > p.Max:
					return "gate-exceeded", fmt.Sprintf("%d requests inside the gated region with max_concurrency %d", st.maxSeen, p.Max), outcome
				case e.Deadlock:
					return "deadlock", e.DeadlockMsg, outcome
				case e.Horizon:
					return "step-horizon-exceeded", "", outcome
				}
				return "", "", outcome
			}
			return nil, bodyFn, check
		},
	}
}

func scenarios(r *vlib.R) []Params {
	f, t := false, true
	out := []Params{
		{Max: 1, Requests: 2, Cancel: []bool{f, t}, OTLP: []bool{f, f}},
		{Max: 1, Requests: 3, Cancel: []bool{f, t, f}, OTLP: []bool{f, f, f}},
		{Max: 1, Requests: 3, Cancel: []bool{f, t, f}, OTLP: []bool{t, t, t}},
		{Max: 2, Requests: 3, Cancel: []bool{f, f, t}, OTLP: []bool{f, t, f}},
	}
	if r.Thorough() {
		out = append(out,
			Params{Max: 1, Requests: 3, Cancel: []bool{t, t, f}, OTLP: []bool{f, f, f}},
			Params{Max: 1, Requests: 3, Cancel: []bool{t, t, t}, OTLP: []bool{f, t, f}},
			Params{Max: 2, Requests: 4, Cancel: []bool{f, f, t, t}, OTLP: []bool{f, f, t, t}},
			Params{Max: 2, Requests: 4, Cancel: []bool{f, t, f, t}, OTLP: []bool{t, f, f, t}},
			Params{Max: 1, Requests: 3, Cancel: []bool{f, f, f}, OTLP: []bool{f, t, f}},
		)
	}
	return out
}

func TestCheck(t *testing.T) {
	r := vlib.New(t, "C24")
	defer r.Finish()
	r.Rule("scenarios = (max_concurrency, 2-4 requests on the protobuf/OTLP endpoints, which requests have a cancel event) x every schedule within the deviation bound; " +
		"distinct_nontrivial = distinct (scenario, status codes, max in-flight) observations")
	var named []vexplore.Named
	for _, p := range scenarios(r) {
		named = append(named, vexplore.Named{S: scenario(p), Params: p})
	}
	vexplore.Drive(r, named, vlib.Pick(r, 2, 3), func(c vexplore.Case) *vexplore.Scenario {
		var p Params
		if err := json.Unmarshal(c.Params, &p); err != nil {
			return nil
		}
		return scenario(p)
	})
}
