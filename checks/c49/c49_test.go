// C49: memcached key placement by MemcachedJumpHashSelector is consistent: alone == in a batch, independent of
// the order servers are listed in, and pushing a server (one that sorts last in natural order) only moves keys
// onto the new server.
//
// Engine E4: bounded-exhaustive enumeration of server lists (4 naming families, 1..16 servers, every permutation
// for n<=5, all rotations x reversal x interleavings above) x all keys up to length 3 (thorough 4) over a 6-letter
// alphabet, on the real selector.
package c49

import (
	"fmt"
	"iter"
	"net"
	"testing"

	"github.com/thanos-io/thanos/pkg/cacheutil"

	"verif/vlib"
)

type Case struct {
	Kind string `json:"kind"` // "order": list order independence + alone-vs-batch; "grow": n -> n+1 servers
	Fam  int    `json:"fam"`  // server naming family
	N    int    `json:"n"`    // number of servers (before growth)
	Perm []int  `json:"perm"` // order in which the servers are listed (indices into the family, 0..N-1, may repeat one)
}

// naming families. name(i) for i = 0..; the first two sort naturally by i (i < j => name(i) before name(j)).
var families = []struct {
	name     string
	natural  bool // natural sort order == index order and every further index sorts last: growth is a push
	serverOf func(i int) string
}{
	{"ipv4-last-octet", true, func(i int) string { return fmt.Sprintf("10.0.0.%d:11211", i+1) }},
	{"unix-statefulset", true, func(i int) string { return fmt.Sprintf("/sock/memcached-%d.memcached.thanos.svc/s.sock", i) }},
	{"ipv4-ports", true, func(i int) string { return fmt.Sprintf("127.0.0.1:%d", 9+i*1001) }}, // 9, 1010, 2011 ... (lexicographic != numeric)
	{"mixed", false, func(i int) string {
		switch i % 4 {
		case 0:
			return fmt.Sprintf("10.%d.0.1:11211", i)
		case 1:
			return fmt.Sprintf("[fd00::%x]:11211", i+9)
		case 2:
			return fmt.Sprintf("/sock/m%d", i)
		default:
			return fmt.Sprintf("192.168.%d.%d:%d", i, 60-i, 11000+i)
		}
	}},
}

var keys []string

func buildKeys(maxLen int) []string {
	alpha := []string{"a", "b", "0", "1", ":", "-"}
	out := []string{}
	cur := []string{""}
	for l := 1; l <= maxLen; l++ {
		var next []string
		for _, p := range cur {
			for _, a := range alpha {
				next = append(next, p+a)
			}
		}
		out = append(out, next...)
		cur = next
	}
	return out
}

func servers(fam int, idx []int) []string {
	out := make([]string, len(idx))
	for i, x := range idx {
		out[i] = families[fam].serverOf(x)
	}
	return out
}

func ident(n int) []int {
	p := make([]int, n)
	for i := range p {
		p[i] = i
	}
	return p
}

// picks returns PickServer(k) for every key (as address strings).
func picks(r *vlib.R, c Case, list []string) ([]string, bool) {
	var s cacheutil.MemcachedJumpHashSelector
	if err := s.SetServers(list...); err != nil {
		r.T.Fatalf("HARNESS-ERROR SetServers(%v): %v", list, err)
	}
	out := make([]string, len(keys))
	for i, k := range keys {
		a, err := s.PickServer(k)
		if err != nil {
			r.Violation("pick-server-error", fmt.Sprintf("PickServer(%q) on %d servers: %v", k, len(list), err), c)
			return nil, false
		}
		out[i] = a.String()
	}
	return out, true
}

func checkBatch(r *vlib.R, c Case, s *cacheutil.MemcachedJumpHashSelector, batch []string, alone map[string]string) {
	m, err := s.PickServerForKeys(batch)
	if err != nil {
		r.Violation("pick-server-for-keys-error", fmt.Sprintf("PickServerForKeys(%d keys): %v", len(batch), err), c)
		return
	}
	want := map[string]int{}
	for _, k := range batch {
		want[k]++
	}
	seen := map[string]int{}
	for addr, ks := range m {
		for _, k := range ks {
			seen[k]++
			if want[k] == 0 {
				r.Violation("batch-returns-unknown-key", fmt.Sprintf("batch %q: key %q filed under %s was not asked for", batch, k, addr), c)
				continue
			}
			if alone[k] != addr {
				r.Violation("key-placed-differently-alone-and-in-batch",
					fmt.Sprintf("key %q: PickServer -> %s, PickServerForKeys(batch of %d) -> %s", k, alone[k], len(batch), addr), c)
			}
		}
	}
	for k, n := range want {
		if seen[k] != n {
			r.Violation("batch-loses-or-duplicates-key", fmt.Sprintf("batch of %d keys: key %q asked %d times, filed %d times", len(batch), k, n, seen[k]), c)
		}
	}
}

func eval(r *vlib.R, c Case) {
	r.Sample(c)
	switch c.Kind {
	case "order":
		list := servers(c.Fam, c.Perm)
		got, ok := picks(r, c, list)
		if !ok {
			return
		}
		// baseline: the same multiset of servers listed in index order.
		base := append([]int(nil), c.Perm...)
		for i := range base { // insertion sort of indices
			for j := i; j > 0 && base[j-1] > base[j]; j-- {
				base[j-1], base[j] = base[j], base[j-1]
			}
		}
		want, ok := picks(r, c, servers(c.Fam, base))
		if !ok {
			return
		}
		distinct := map[string]bool{}
		valid := map[string]bool{}
		var probe cacheutil.MemcachedJumpHashSelector
		_ = probe.SetServers(list...)
		_ = probe.Each(func(a net.Addr) error {
			valid[a.String()] = true
			return nil
		})
		alone := map[string]string{}
		for i, k := range keys {
			distinct[got[i]] = true
			alone[k] = got[i]
		}
		for i, k := range keys {
			if got[i] != want[i] {
				r.Violation("placement-depends-on-server-list-order",
					fmt.Sprintf("key %q -> %s with servers listed as %v but -> %s when listed in index order", k, got[i], list, want[i]), c)
				break
			}
			if !valid[got[i]] {
				r.Violation("picked-server-not-in-list", fmt.Sprintf("key %q -> %s which is not one of %v", k, got[i], list), c)
				break
			}
		}
		if len(distinct) >= 2 {
			r.Nontrivial(fmt.Sprint(c))
		}
		// alone vs batch on the same selector instance.
		var s cacheutil.MemcachedJumpHashSelector
		_ = s.SetServers(list...)
		checkBatch(r, c, &s, keys, alone)
		rev := make([]string, len(keys))
		for i, k := range keys {
			rev[len(keys)-1-i] = k
		}
		checkBatch(r, c, &s, rev, alone)
		for i := range keys {
			checkBatch(r, c, &s, keys[i:i+1], alone)
			if i+3 <= len(keys) {
				checkBatch(r, c, &s, keys[i:i+3], alone)
			}
		}
		checkBatch(r, c, &s, []string{keys[0], keys[1], keys[0]}, alone)
	case "grow":
		before, ok := picks(r, c, servers(c.Fam, c.Perm))
		if !ok {
			return
		}
		grown := append(append([]int(nil), c.Perm...), c.N) // the new server is listed last ...
		after, ok := picks(r, c, servers(c.Fam, grown))
		if !ok {
			return
		}
		grownFirst := append([]int{c.N}, c.Perm...) // ... or first: must not matter
		after2, ok := picks(r, c, servers(c.Fam, grownFirst))
		if !ok {
			return
		}
		newAddr := ""
		{
			var s cacheutil.MemcachedJumpHashSelector
			_ = s.SetServers(families[c.Fam].serverOf(c.N))
			a, _ := s.PickServer("x")
			newAddr = a.String()
		}
		moved, stayed := 0, 0
		for i, k := range keys {
			if after[i] != after2[i] {
				r.Violation("placement-depends-on-server-list-order", fmt.Sprintf("key %q after growth: %s vs %s depending on where the new server is listed", k, after[i], after2[i]), c)
				break
			}
			switch {
			case after[i] == before[i]:
				stayed++
			case after[i] == newAddr:
				moved++
			default:
				r.Violation("pushing-a-server-moves-key-between-old-servers",
					fmt.Sprintf("key %q: %s with %d servers, %s after adding %s (which sorts last)", k, before[i], c.N, after[i], newAddr), c)
			}
		}
		if moved > 0 && stayed > 0 {
			r.Nontrivial(fmt.Sprint(c))
		}
	default:
		r.T.Fatalf("HARNESS-ERROR unknown case kind %q", c.Kind)
	}
}

func gen(r *vlib.R) iter.Seq[Case] {
	maxN := vlib.Pick(r, 16, 24)
	return func(yield func(Case) bool) {
		for fam := range families {
			for n := 1; n <= maxN; n++ {
				if n <= vlib.Pick(r, 5, 6) {
					for p := range vlib.Perms(n) {
						if !yield(Case{Kind: "order", Fam: fam, N: n, Perm: p}) {
							return
						}
					}
				} else {
					// every rotation, forwards and reversed, plus an odd/even interleaving of each rotation
					for rot := 0; rot < n; rot++ {
						fw := make([]int, n)
						for i := range fw {
							fw[i] = (i + rot) % n
						}
						bw := make([]int, n)
						for i := range bw {
							bw[i] = fw[n-1-i]
						}
						il := make([]int, 0, n)
						for i := 0; i < n; i += 2 {
							il = append(il, fw[i])
						}
						for i := 1; i < n; i += 2 {
							il = append(il, fw[i])
						}
						for _, p := range [][]int{fw, bw, il} {
							if !yield(Case{Kind: "order", Fam: fam, N: n, Perm: p}) {
								return
							}
						}
					}
				}
				// one server listed twice ("more weight"), at every pair of positions for small n
				if n >= 2 && n <= 4 {
					for dup := 0; dup < n; dup++ {
						for p := range vlib.Perms(n + 1) {
							q := make([]int, len(p))
							for i, x := range p {
								if x == n {
									x = dup
								}
								q[i] = x
							}
							if !yield(Case{Kind: "order", Fam: fam, N: n, Perm: q}) {
								return
							}
						}
					}
				}
				// ... and for sizes where sort.Sort switches algorithm (>12 elements): a repeated server in rotated lists
				if n == 12 || n == 16 {
					for _, dup := range []int{0, n / 2, n - 1} {
						for rot := 0; rot <= n; rot++ {
							fw := make([]int, n+1)
							for i := range fw {
								x := (i + rot) % (n + 1)
								if x == n {
									x = dup
								}
								fw[i] = x
							}
							bw := make([]int, n+1)
							for i := range bw {
								bw[i] = fw[n-i]
							}
							for _, p := range [][]int{fw, bw} {
								if !yield(Case{Kind: "order", Fam: fam, N: n, Perm: p}) {
									return
								}
							}
						}
					}
				}
				if families[fam].natural {
					for _, p := range [][]int{ident(n), reversed(n)} {
						if !yield(Case{Kind: "grow", Fam: fam, N: n, Perm: p}) {
							return
						}
					}
				}
			}
		}
	}
}

func reversed(n int) []int {
	p := make([]int, n)
	for i := range p {
		p[i] = n - 1 - i
	}
	return p
}

func TestCheck(t *testing.T) {
	r := vlib.New(t, "C49")
	defer r.Finish()
	keys = buildKeys(vlib.Pick(r, 3, 4))
	r.Rule(fmt.Sprintf("4 server naming families (10.0.0.k:11211, statefulset-like unix socket names, one IP with ports 9,1010,2011.., mixed IPv4/IPv6/unix) x 1..16 (thorough 24) servers x "+
		"every permutation of the list for n<=5 (6) / every rotation forwards, reversed and interleaved above, lists with one server listed twice (n<=4 all orders, n=12,16 rotations), "+
		"growth n->n+1 by the server that sorts last; every case evaluates all %d keys (all strings of length 1..3 (4) over {a,b,0,1,:,-}) alone and in batches "+
		"(whole set, reversed, every singleton, every window of 3, a batch with a repeated key). Non-trivial = distinct cases whose keys spread over >=2 servers / growth cases where some keys move and some stay", len(keys)))
	r.Assume("server names are IP:port literals or unix socket paths (host names would need DNS); keys are short strings over a 6-letter alphabet hashed with the real xxhash",
		"'adding a server' is asserted for the documented push case only (the new server sorts last in natural order); inserting in the middle is documented as unsupported by the selector and not asserted")
	vlib.ForEach(r, gen(r), func(c Case) { eval(r, c) })
}
