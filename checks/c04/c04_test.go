// C04: deduplicated queries return each logical series once with replica data (full read path).
// Engine E4: logical series x replicas x replica-label configuration x per-replica chunk cuts (partitions and
// overlapping covers) x placement of replicas (and of their chunks) on stores x store capabilities x framing x
// dedup on/off, served by fake store clients through the real store.ProxyStore and the real
// query.NewQueryableCreator(...).Querier(...).Select.
// Second family (Case.Copies): the SAME replica (same labels incl. replica labels, same samples) is served by two
// (thorough: three) stores with a different chunk cut on each store, so that the chunk list the proxy merges for that one
// series contains duplicates, partial overlaps and chunks nested in earlier, longer chunks followed by newer chunks.
// Third family (Case.TSDB, tsdb_test.go): the stores are REAL store.TSDBStore instances over real tsdb.DB heads with a
// frame budget so small that one series is sent in several frames.
package c04

import (
	"context"
	"fmt"
	"iter"
	"math"
	"os"
	"sort"
	"strings"
	"sync/atomic"
	"testing"
	"time"

	"github.com/prometheus/prometheus/model/labels"
	"github.com/prometheus/prometheus/tsdb/chunkenc"
	"google.golang.org/grpc"

	"github.com/thanos-io/thanos/pkg/component"
	"github.com/thanos-io/thanos/pkg/dedup"
	"github.com/thanos-io/thanos/pkg/query"
	"github.com/thanos-io/thanos/pkg/store"
	"github.com/thanos-io/thanos/pkg/store/labelpb"
	"github.com/thanos-io/thanos/pkg/store/storepb"
	storetestutil "github.com/thanos-io/thanos/pkg/store/storepb/testutil"

	"verif/vlib"
)

type Case struct {
	L             int   `json:"l"`               // logical series
	PairAfter     bool  `json:"pair_after"`      // L=2: the two differ in label z (sorts after the replica labels) instead of a (before)
	LabelCfg      int   `json:"label_cfg"`       // 0: replica labels {replica}; 1: {r, replica}
	Cuts          []int `json:"cuts"`            // per replica: index into the cut alphabet
	Place         []int `json:"place"`           // per replica: home store
	Spread        bool  `json:"spread"`          // chunk j of a replica is served by store (home+j) mod S
	Supports      bool  `json:"supports"`        // stores implement SeriesRequest.WithoutReplicaLabels themselves
	Dedup         bool  `json:"dedup"`           // deduplication on
	Identical     bool  `json:"identical"`       // replicas hold identical samples (else values encode the replica)
	ChunkPerFrame bool  `json:"chunk_per_frame"` // a series is streamed as one frame per chunk instead of one frame
	Step          int64 `json:"step"`
	Lazy          bool  `json:"lazy"`  // proxy retrieval strategy
	Batch         int   `json:"batch"` // querier seriesResponseBatchSize
	// Copies: further copies of a replica. The same series (labels incl. replica labels, samples of replica Replica) cut
	// by cut Cut is ALSO served by store Store (e.g. sidecar + store gateway, or two gateways over differently compacted blocks).
	Copies []Copy `json:"copies,omitempty"`
	// TSDB: (family C) some stores are real store.TSDBStore instances over real tsdb.DB heads, see tsdb_test.go.
	TSDB *TSDBCfg `json:"tsdb,omitempty"`
	// Shape: label names of the logical series. 0: all carry {__name__, a, z} (L=1..2, see PairAfter). 1, 2: prefix-shaped
	// label sets {__name__,a} and {__name__,a,X} [L=3: and {__name__,a,z}], X = "pod" (1: sorts before every replica /
	// external label name) or "zone" (2: sorts after all of them). Extending a prefix pair by the same further label
	// changes its order iff the name of that label sorts after X.
	Shape int `json:"shape,omitempty"`
	// Region: every series also carries the NON-replica label region="eu", which the stores holding it have as an external
	// label (real TSDBStores: in their external label set; fake stores serve it as part of the label set). It stays in the
	// result with deduplication on.
	Region bool `json:"region,omitempty"`
}

type Copy struct {
	Replica int `json:"replica"`
	Cut     int `json:"cut"`
	Store   int `json:"store"`
}

const (
	nSamples = 6
	base     = int64(1000000)
)

// A cut is a list of chunks, a chunk an inclusive interval of sample indices; the union is 0..5.
type ival struct{ lo, hi int }

var cutAlphabet = buildCuts()

func buildCuts() [][]ival {
	var out [][]ival
	// all compositions of 6 samples into <= 3 consecutive chunks (16)
	for comp := range vlib.Compositions(nSamples, 3) {
		var c []ival
		lo := 0
		for _, n := range comp {
			c = append(c, ival{lo, lo + n - 1})
			lo += n
		}
		out = append(out, c)
	}
	// overlapping covers: shifted boundary, contained chunk, one shared sample, chain
	out = append(out,
		[]ival{{0, 3}, {2, 5}},
		[]ival{{0, 5}, {2, 3}},
		[]ival{{0, 2}, {2, 5}},
		[]ival{{0, 2}, {1, 4}, {3, 5}},
	)
	// indices 0..19 above are the base alphabet (stable: replay artefacts refer to them). Extension, used for R=1 and for
	// the copies of a replica on further stores: the 16 compositions into 4..6 chunks (much finer cuts) ...
	for comp := range vlib.Compositions(nSamples, nSamples) {
		if len(comp) <= 3 {
			continue
		}
		var c []ival
		lo := 0
		for _, n := range comp {
			c = append(c, ival{lo, lo + n - 1})
			lo += n
		}
		out = append(out, c)
	}
	// ... and covers with chunks nested in an earlier chunk that are followed by a chunk with newer samples.
	out = append(out,
		[]ival{{0, 3}, {1, 2}, {4, 5}},
		[]ival{{0, 4}, {1, 1}, {3, 3}, {5, 5}},
	)
	return out
}

const baseCuts = 20 // cutAlphabet[:baseCuts] is the alphabet of the replica family (R=2), the whole alphabet that of R=1 and of copies

// selfOverlap: the chunks of the cut overlap each other (they are not a partition of the samples).
func selfOverlap(ci int) bool {
	hi := -1
	for _, iv := range cutAlphabet[ci] {
		if iv.lo <= hi {
			return true
		}
		hi = iv.hi
	}
	return false
}

// smallCuts / mediumCuts: indices into cutAlphabet used where the full alphabet is too large (R=3: quick / thorough).
var smallCuts = pickCuts([][]ival{
	{{0, 5}}, {{0, 2}, {3, 5}}, {{0, 1}, {2, 3}, {4, 5}}, {{0, 3}, {2, 5}}, {{0, 5}, {2, 3}},
})

// tripleCuts: cuts of a replica served by three stores (thorough).
var tripleCuts = pickCuts([][]ival{
	{{0, 5}}, {{0, 2}, {3, 5}}, {{0, 0}, {1, 5}}, {{0, 4}, {5, 5}}, {{0, 1}, {2, 3}, {4, 5}}, {{0, 0}, {1, 1}, {2, 5}}, {{0, 2}, {3, 3}, {4, 5}}, {{0, 3}, {4, 4}, {5, 5}},
	{{0, 0}, {1, 1}, {2, 2}, {3, 3}, {4, 4}, {5, 5}}, {{0, 0}, {1, 2}, {3, 3}, {4, 5}},
	{{0, 3}, {2, 5}}, {{0, 5}, {2, 3}}, {{0, 2}, {1, 4}, {3, 5}}, {{0, 3}, {1, 2}, {4, 5}},
})

var mediumCuts = pickCuts([][]ival{
	{{0, 5}}, {{0, 2}, {3, 5}}, {{0, 0}, {1, 5}}, {{0, 4}, {5, 5}}, {{0, 1}, {2, 3}, {4, 5}}, {{0, 0}, {1, 1}, {2, 5}}, {{0, 2}, {3, 3}, {4, 5}}, {{0, 3}, {4, 4}, {5, 5}},
	{{0, 3}, {2, 5}}, {{0, 5}, {2, 3}}, {{0, 2}, {2, 5}}, {{0, 2}, {1, 4}, {3, 5}},
})

func pickCuts(want [][]ival) []int {
	var out []int
	for _, w := range want {
		for i, c := range cutAlphabet {
			if fmt.Sprint(c) == fmt.Sprint(w) {
				out = append(out, i)
			}
		}
	}
	if len(out) != len(want) {
		panic("cut not in alphabet")
	}
	return out
}

type smp struct {
	T int64
	V float64
}

func (c Case) replicaLabelNames() []string {
	if c.LabelCfg == 0 {
		return []string{"replica"}
	}
	return []string{"r", "replica"}
}

func (c Case) logicalLabels(l int) labels.Labels {
	var kv []string
	if c.Shape == 0 {
		a, z := "1", "x"
		if l == 1 {
			if c.PairAfter {
				z = "y"
			} else {
				a = "2"
			}
		}
		kv = []string{"__name__", "m", "a", a, "z", z}
	} else {
		kv = []string{"__name__", "m", "a", "1"}
		switch l {
		case 1:
			kv = append(kv, shapeLabel(c.Shape), "p")
		case 2:
			kv = append(kv, "z", "x")
		}
	}
	if c.Region {
		kv = append(kv, regionLabel, "eu")
	}
	return labels.FromStrings(kv...)
}

// regionLabel: the non-replica external label. Its name sorts after the series label names a, pod and the replica label r,
// and before the replica label replica and the series label names z, zone.
const regionLabel = "region"

func shapeLabel(shape int) string {
	if shape == 2 {
		return "zone"
	}
	return "pod"
}

func (c Case) validateShape() {
	if c.Shape < 0 || c.Shape > 2 || c.L < 1 || (c.Shape == 0 && c.L > 2) || (c.Shape > 0 && (c.L < 2 || c.L > 3 || c.PairAfter)) {
		panic("HARNESS-ERROR inconsistent label shape of the case")
	}
}

func (c Case) fullLabels(l, k int) labels.Labels {
	b := labels.NewBuilder(c.logicalLabels(l))
	if c.LabelCfg == 0 {
		b.Set("replica", fmt.Sprint(k))
	} else {
		b.Set("r", fmt.Sprint(k/2))
		b.Set("replica", fmt.Sprint(k%2))
	}
	return b.Labels()
}

func (c Case) value(l, k, i int) float64 {
	v := float64(100*l + i)
	if !c.Identical {
		v += float64(1000 * (k + 1))
	}
	return v
}

func (c Case) samples(l, k int) []smp {
	out := make([]smp, nSamples)
	for i := range out {
		out[i] = smp{base + int64(i)*c.Step, c.value(l, k, i)}
	}
	return out
}

func (c Case) stores() int {
	s := 0
	for _, p := range c.Place {
		if p+1 > s {
			s = p + 1
		}
	}
	for _, cp := range c.Copies {
		if cp.Store+1 > s {
			s = cp.Store + 1
		}
	}
	return s
}

// allCuts: the cut of every served copy of replica k (its own and those in Copies).
func (c Case) allCuts(k int) []int {
	out := []int{c.Cuts[k]}
	for _, cp := range c.Copies {
		if cp.Replica == k {
			out = append(out, cp.Cut)
		}
	}
	return out
}

// mergedChunks: the distinct chunks of replica k over all its copies in the order the proxy chains them (min time, max time).
func (c Case) mergedChunks(k int) []ival {
	seen := map[ival]bool{}
	var out []ival
	for _, ci := range c.allCuts(k) {
		for _, iv := range cutAlphabet[ci] {
			if !seen[iv] {
				seen[iv] = true
				out = append(out, iv)
			}
		}
	}
	sort.Slice(out, func(a, b int) bool {
		if out[a].lo != out[b].lo {
			return out[a].lo < out[b].lo
		}
		return out[a].hi < out[b].hi
	})
	return out
}

// nestedThenNewer: the merged chunk list of replica k has a chunk that lies completely inside what earlier chunks cover
// and a later chunk that brings newer samples.
func (c Case) nestedThenNewer(k int) bool {
	hi, nested := -1, false
	for _, iv := range c.mergedChunks(k) {
		if iv.hi <= hi {
			nested = true
			continue
		}
		if nested && hi >= 0 {
			return true
		}
		hi = iv.hi
	}
	return false
}

type fakeSeries struct {
	lset labels.Labels
	chks []storepb.AggrChunk
}

// fakeStore serves a fixed list of series the way a conforming StoreAPI does: sorted by labels; when it claims
// support for WithoutReplicaLabels and the request carries them, replica labels are removed and the series re-sorted.
type fakeStore struct {
	storepb.StoreClient
	series        []fakeSeries
	supports      bool
	chunkPerFrame bool
}

func (f *fakeStore) Series(ctx context.Context, req *storepb.SeriesRequest, _ ...grpc.CallOption) (storepb.Store_SeriesClient, error) {
	ss := make([]fakeSeries, len(f.series))
	copy(ss, f.series)
	if f.supports && len(req.WithoutReplicaLabels) > 0 {
		for i := range ss {
			b := labels.NewBuilder(ss[i].lset)
			for _, n := range req.WithoutReplicaLabels {
				b.Del(n)
			}
			ss[i].lset = b.Labels()
		}
	}
	sort.SliceStable(ss, func(i, j int) bool { return labels.Compare(ss[i].lset, ss[j].lset) < 0 })
	var resp []*storepb.SeriesResponse
	for _, s := range ss {
		if f.chunkPerFrame {
			for _, ch := range s.chks {
				resp = append(resp, storepb.NewSeriesResponse(&storepb.Series{Labels: labelpb.ZLabelsFromPromLabels(s.lset), Chunks: []storepb.AggrChunk{ch}}))
			}
			continue
		}
		resp = append(resp, storepb.NewSeriesResponse(&storepb.Series{Labels: labelpb.ZLabelsFromPromLabels(s.lset), Chunks: append([]storepb.AggrChunk(nil), s.chks...)}))
	}
	return &storetestutil.StoreSeriesClient{Ctx: ctx, RespSet: resp}, nil
}

func encode(ss []smp) storepb.AggrChunk {
	c := chunkenc.NewXORChunk()
	app, err := c.Appender()
	if err != nil {
		panic(err)
	}
	for _, s := range ss {
		app.Append(s.T, s.V)
	}
	return storepb.AggrChunk{MinTime: ss[0].T, MaxTime: ss[len(ss)-1].T, Raw: &storepb.Chunk{Type: storepb.Chunk_XOR, Data: c.Bytes()}}
}

func (c Case) buildClients(rec *frameRec) []store.Client {
	S := c.stores()
	c.validateShape()
	if c.TSDB != nil {
		c.validateTSDB()
	}
	per := make([]map[string]*fakeSeries, S)
	for i := range per {
		per[i] = map[string]*fakeSeries{}
	}
	for l := 0; l < c.L; l++ {
		for k := range c.Cuts {
			lset := c.fullLabels(l, k)
			ss := c.samples(l, k)
			for j, iv := range cutAlphabet[c.Cuts[k]] {
				st := c.Place[k]
				if c.Spread {
					st = (st + j) % S
				}
				key := lset.String()
				fs := per[st][key]
				if fs == nil {
					fs = &fakeSeries{lset: lset}
					per[st][key] = fs
				}
				fs.chks = append(fs.chks, encode(ss[iv.lo:iv.hi+1]))
			}
		}
		for _, cp := range c.Copies {
			lset := c.fullLabels(l, cp.Replica)
			ss := c.samples(l, cp.Replica)
			key := lset.String()
			fs := per[cp.Store][key]
			if fs == nil {
				fs = &fakeSeries{lset: lset}
				per[cp.Store][key] = fs
			}
			for _, iv := range cutAlphabet[cp.Cut] {
				fs.chks = append(fs.chks, encode(ss[iv.lo:iv.hi+1]))
			}
		}
	}
	var out []store.Client
	for i := 0; i < S; i++ {
		if c.real(i) {
			out = append(out, c.realClient(i, rec))
			continue
		}
		f := &fakeStore{supports: c.Supports, chunkPerFrame: c.ChunkPerFrame}
		for _, fs := range per[i] {
			// chunks of a series are sorted by min time, as stores send them
			sort.SliceStable(fs.chks, func(a, b int) bool {
				if fs.chks[a].MinTime != fs.chks[b].MinTime {
					return fs.chks[a].MinTime < fs.chks[b].MinTime
				}
				return fs.chks[a].MaxTime < fs.chks[b].MaxTime
			})
			f.series = append(f.series, *fs)
		}
		// deterministic base order (Series sorts again)
		sort.Slice(f.series, func(a, b int) bool { return labels.Compare(f.series[a].lset, f.series[b].lset) < 0 })
		out = append(out, &storetestutil.TestClient{
			Name: fmt.Sprintf("store-%d", i), StoreClient: f,
			MinTime: math.MinInt64, MaxTime: math.MaxInt64, WithoutReplicaLabelsEnabled: c.Supports,
		})
	}
	return out
}

type gotSeries struct {
	lset string
	lbls labels.Labels
	ss   []smp
}

func (c Case) run(rec *frameRec) ([]gotSeries, error) {
	cls := c.buildClients(rec)
	strategy := store.EagerRetrieval
	if c.Lazy {
		strategy = store.LazyRetrieval
	}
	proxy := store.NewProxyStore(nil, nil, func() []store.Client { return cls }, component.Query, labels.EmptyLabels(), 0, strategy)
	creator := query.NewQueryableCreator(nil, nil, proxy, 4, 10*time.Minute, dedup.AlgorithmPenalty, c.Batch)
	q := creator(c.Dedup, c.replicaLabelNames(), nil, 0, false, false, nil, query.NoopSeriesStatsReporter)
	mint, maxt := base, base+int64(nSamples-1)*c.Step
	qr, err := q.Querier(mint, maxt)
	if err != nil {
		return nil, err
	}
	defer qr.Close()
	set := qr.Select(context.Background(), false, nil, labels.MustNewMatcher(labels.MatchEqual, "__name__", "m"))
	var out []gotSeries
	for set.Next() {
		s := set.At()
		g := gotSeries{lset: s.Labels().String(), lbls: s.Labels().Copy()}
		it := s.Iterator(nil)
		for len(g.ss) <= 4*nSamples {
			vt := it.Next()
			if vt == chunkenc.ValNone {
				break
			}
			t, v := it.At()
			g.ss = append(g.ss, smp{t, v})
		}
		if it.Err() != nil {
			return out, it.Err()
		}
		out = append(out, g)
	}
	if set.Err() != nil {
		return out, set.Err()
	}
	if w := set.Warnings(); len(w) > 0 {
		return out, fmt.Errorf("warnings: %v", w.AsErrors())
	}
	return out, nil
}

func eqS(a, b []smp) bool {
	if len(a) != len(b) {
		return false
	}
	for i := range a {
		if a[i] != b[i] {
			return false
		}
	}
	return true
}

// surjections of n replicas onto stores 0..s-1 for every s <= n.
func placements(n int) [][]int {
	var out [][]int
	for s := 1; s <= n; s++ {
		for t := range vlib.Tuples(n, s) {
			seen := map[int]bool{}
			for _, x := range t {
				seen[x] = true
			}
			if len(seen) == s {
				out = append(out, t)
			}
		}
	}
	return out
}

func gen(r *vlib.R) iter.Seq[Case] {
	ext := make([]int, len(cutAlphabet)) // whole alphabet
	for i := range ext {
		ext[i] = i
	}
	all := ext[:baseCuts]
	type lv struct {
		l     int
		after bool
	}
	lvs := []lv{{1, false}, {2, true}, {2, false}}
	return func(yield func(Case) bool) {
		// family C (real TSDBStores) first: it is the smallest family, so an overloaded machine that hits the deadline cuts
		// the tail of the large fake-store families, never the only family that drives the real store.
		if !genTSDB(r.Thorough(), yield) || !genTSDBExt(r.Thorough(), yield) || !genShapes(r.Thorough(), yield) ||
			os.Getenv("VERIF_C04_ONLY") == "tsdb" { // (env: measuring aid, families C, C', D alone)
			return
		}
		for R := 1; R <= 3; R++ {
			cuts := all
			if R == 1 {
				cuts = ext
			}
			if R == 3 {
				cuts = vlib.Pick(r, smallCuts, mediumCuts)
			}
			steps := []int64{10000, 1000}
			if R == 3 {
				steps = steps[:1]
			}
			lazies := []bool{false}
			batches := []int{1}
			if r.Thorough() && R <= 2 {
				lazies = []bool{false, true}
				batches = []int{1, 3}
			}
			for ct := range vlib.Tuples(R, len(cuts)) {
				cc := make([]int, R)
				for i, x := range ct {
					cc[i] = cuts[x]
				}
				for _, pl := range placements(R) {
					for _, v := range lvs {
						for labelCfg := 0; labelCfg < 2; labelCfg++ {
							for mode := 0; mode < 3; mode++ { // dedup on + identical, dedup on + distinct, dedup off + distinct
								for _, flags := range [][3]bool{{false, false, false}, {true, false, false}, {false, true, false}, {true, true, false}, {false, false, true}, {true, false, true}, {false, true, true}, {true, true, true}} {
									spread, supports, cpf := flags[0], flags[1], flags[2]
									if spread && len(pl) > 0 && maxOf(pl) == 0 {
										continue // one store: nothing to spread over
									}
									for si, step := range steps {
										if si > 0 && mode != 0 {
											break // the step only matters to the penalty merge of identical replicas
										}
										for _, lazy := range lazies {
											for _, batch := range batches {
												c := Case{L: v.l, PairAfter: v.after, LabelCfg: labelCfg, Cuts: cc, Place: pl, Spread: spread, Supports: supports,
													Dedup: mode < 2, Identical: mode == 0, ChunkPerFrame: cpf, Step: step, Lazy: lazy, Batch: batch}
												if !yield(c) {
													return
												}
											}
										}
									}
								}
							}
						}
					}
				}
			}
		}
		genCopies(r, ext, yield)
	}
}

// genCopies: replica 0 is served by store 0 and ALSO, with another cut, by store 1 (thorough: and by store 2): every ordered
// pair of cuts of the whole alphabet (equal cuts included: the proxy then drops the identical chunks); alone (R=1) or next to a
// second replica (R=2) that lives on one of those stores or on its own.
func genCopies(r *vlib.R, ext []int, yield func(Case) bool) bool {
	type lv struct {
		l     int
		after bool
	}
	lvs := []lv{{1, false}, {2, true}, {2, false}}
	type shape struct {
		cuts   []int  // cuts of the replicas
		place  []int  // their home stores
		copies []Copy // copies of replica 0
		wide   bool   // R=1 with two stores: also step 1 s [t: lazy, batch 3]
	}
	emit := func(sh shape) bool {
		steps := []int64{10000}
		lazies, batches := []bool{false}, []int{1}
		if sh.wide {
			steps = []int64{10000, 1000}
			if r.Thorough() {
				lazies, batches = []bool{false, true}, []int{1, 3}
			}
		}
		for _, v := range lvs {
			for labelCfg := 0; labelCfg < 2; labelCfg++ {
				for mode := 0; mode < 3; mode++ {
					for fl := 0; fl < 4; fl++ {
						for si, step := range steps {
							if si > 0 && mode != 0 {
								break
							}
							for _, lazy := range lazies {
								for _, batch := range batches {
									c := Case{L: v.l, PairAfter: v.after, LabelCfg: labelCfg, Cuts: sh.cuts, Place: sh.place, Copies: sh.copies,
										Supports: fl&1 != 0, ChunkPerFrame: fl&2 != 0, Dedup: mode < 2, Identical: mode == 0, Step: step, Lazy: lazy, Batch: batch}
									if !yield(c) {
										return false
									}
								}
							}
						}
					}
				}
			}
		}
		return true
	}
	// second replica: cut x home store (0 = with the first copy, 1 = with the second copy, 2 = its own store)
	type second struct{ cut, store int }
	var seconds []second
	for _, ci := range vlib.Pick(r, pickCuts([][]ival{{{0, 2}, {3, 5}}}), smallCuts) {
		for _, st := range vlib.Pick(r, []int{0, 2}, []int{0, 1, 2}) {
			seconds = append(seconds, second{ci, st})
		}
	}
	// next to a second replica, quick: pairs over the base alphabet + the finest cut + the 2 nested covers (23) instead of all 38
	withSecond := map[int]bool{}
	for _, ci := range vlib.Pick(r, append(append([]int{}, ext[:baseCuts]...), pickCuts([][]ival{
		{{0, 0}, {1, 1}, {2, 2}, {3, 3}, {4, 4}, {5, 5}}, {{0, 3}, {1, 2}, {4, 5}}, {{0, 4}, {1, 1}, {3, 3}, {5, 5}}})...), ext) {
		withSecond[ci] = true
	}
	for _, c0 := range ext {
		for _, c1 := range ext {
			if !emit(shape{cuts: []int{c0}, place: []int{0}, copies: []Copy{{0, c1, 1}}, wide: true}) {
				return false
			}
			if !withSecond[c0] || !withSecond[c1] {
				continue
			}
			for _, s2 := range seconds {
				if !emit(shape{cuts: []int{c0, s2.cut}, place: []int{0, s2.store}, copies: []Copy{{0, c1, 1}}}) {
					return false
				}
			}
		}
	}
	if r.Thorough() {
		for _, c0 := range tripleCuts {
			for _, c1 := range tripleCuts {
				for _, c2 := range tripleCuts {
					if !emit(shape{cuts: []int{c0}, place: []int{0}, copies: []Copy{{0, c1, 1}, {0, c2, 2}}}) {
						return false
					}
				}
			}
		}
	}
	return true
}

func maxOf(xs []int) int {
	m := 0
	for _, x := range xs {
		if x > m {
			m = x
		}
	}
	return m
}

func TestCheck(t *testing.T) {
	r := vlib.New(t, "C04")
	defer r.Finish()
	r.Rule("replicas R=1..3 x per-replica chunk cut of a 6-sample series (R=2: all 16 compositions into <=3 chunks + 4 overlapping covers; R=1: those + the 16 compositions into 4..6 chunks " +
		"+ 2 covers with nested chunks followed by a newer chunk = 38; R=3: q 5 cuts, t 12 cuts) " +
		"x all surjective placements of replicas on 1..R stores x chunks spread over stores or not x logical series {1, 2 differing before, 2 differing after the replica labels} " +
		"x replica labels {replica},{r,replica} x stores with/without WithoutReplicaLabels support x series-per-frame / chunk-per-frame " +
		"x {dedup on identical replicas, dedup on distinct replicas, dedup off} x step {10s; 1s for identical replicas, R<=2} [t, R<=2: x lazy/eager x batch 1/3]; " +
		"PLUS the same replica served by two stores: every ordered pair of the 38 cuts (store 0, store 1) x {alone; next to a second replica (q: pairs of 23 of the 38 cuts) with cut q 1 / t 5 on store q {0, own} / t {0,1,own}} " +
		"x logical series x replica labels x support x framing x the three dedup modes (alone: x step 1s [t: x lazy x batch]) [t: the same replica on three stores, all triples of 14 cuts]; " +
		"PLUS real stores (enumerated first): R=1..2 replicas held by real store.TSDBStore instances over real tsdb.DB heads, one or two stores, head chunk range per store q {1,2,3,big} (second store {1,3}) / t {1,2,3,4,6,big} sample intervals " +
		"(= cuts 6x1, 2-2-2, 2-3-1, 4-2, 2-4, 6) x TSDBStore frame budget {1 chunk, 2 chunks, [t: 3 chunks,] production 1 MiB} x replica labels {external labels of the store, labels of the stored series (replicas may share a store), r external + replica stored} " +
		"x logical series x replica label sets x the three dedup modes (identical: x step 1s) x (response batch size, retrieval) q {(1,eager),(3,eager),(1,lazy)} / t {1,3}x{eager,lazy} x {no further store; a fake store serving replica 0 again cut " +
		"q {3-3 with, 6x1 without WithoutReplicaLabels support} / t {3-3, 6x1, 6} x support}; " +
		"PLUS (after seeded defect C04-r3 escaped; enumerated right after the real stores) the label dimension: every series carries a NON-replica external label region (real TSDBStores: in their external label set, merged into every series; " +
		"its name sorts after the series label names a, pod and the replica label r, before replica, z, zone) and/or the logical series have prefix-shaped label sets {a},{a,pod} / {a},{a,pod},{a,z} / {a},{a,zone} " +
		"(merging the same further label into a prefix pair changes its order iff the extra series label sorts before it) = 9 label variants x the real-store product above " +
		"(q: chunk ranges {1,big} (second store {3}) x budget 1 chunk (6 frames / 1 frame per series) x {no copy, 3-3 copy with support} x step 10s; t: chunk ranges {1,2,3,big} (second store {1,3}), every other alphabet of the thorough product, step 10s) " +
		"and x fake stores: R=2, every pair of 3 partition cuts, one or two stores x replica labels x dedup modes x support x framing x eager/lazy [t: x batch 1/3]; " +
		"non-trivial = distinct real-store cases where merging the remaining external labels changes the order of two series of one store, distinct dedup-on cases with >= 2 replicas whose chunk cuts differ or overlap, distinct cases (any dedup mode) where one replica is served by several stores with different cuts, " +
		"and distinct cases where a real TSDBStore sent one stored series in >= 2 frames (observed on the stream between store and proxy) " +
		"(extra counters: cases_same_replica_on_several_stores, cases_dedup_off_nested_chunk_then_newer_chunk, cases_real_tsdbstore, cases_real_tsdbstore_series_in_several_frames, max_frames_per_series_from_real_tsdbstore, cases_non_replica_external_label, cases_prefix_shaped_label_sets, " +
		"cases_real_tsdbstore_external_labels_change_series_order[_lazy_dedup_on_two_stores], results_not_sorted_by_labels_not_asserted)")
	r.Assume("stores are fakes that behave like a conforming StoreAPI (series sorted by labels, chunks by min time; with WithoutReplicaLabels support they strip the labels and re-sort), " +
		"or real TSDBStores used in process (storepb.ServerAsClient, as receive and query do) whose unexported frame budget maxBytesPerFrame is set through a thin in-package adapter; " +
		"the chunk cut of a real store is the one its tsdb head makes (chunk range = MinBlockDuration), verified when the head is built; " +
		"the non-replica external label has the same value on every store (otherwise the replicas would not be the same logical series); the order of the returned series is counted, not asserted (the statement does not promise one); " +
		"raw XOR float chunks; query range = exactly the sample range; penalty dedup; partial response disabled")
	dbRoot = t.TempDir()
	defer closeDBs()
	vlib.ForEach(r, gen(r), func(c Case) { evalCase(r, c) })
	r.Set("cases_real_tsdbstore", nTSDB.Load())
	r.Set("cases_real_tsdbstore_series_in_several_frames", nFramed.Load())
	r.Set("max_frames_per_series_from_real_tsdbstore", maxFrames.Load())
	r.Set("tsdb_heads_built", dbCount.Load())
	r.Set("cases_non_replica_external_label", nRegion.Load())
	r.Set("cases_prefix_shaped_label_sets", nPrefix.Load())
	r.Set("cases_real_tsdbstore_external_labels_change_series_order", nExtReorder.Load())
	r.Set("cases_real_tsdbstore_external_labels_change_series_order_lazy_dedup_on_two_stores", nExtReorderLazy.Load())
	r.Set("results_not_sorted_by_labels_not_asserted", nUnsorted.Load())
	r.Set("cases_same_replica_on_several_stores", nCopies.Load())
	r.Set("cases_dedup_off_nested_chunk_then_newer_chunk", nNestedOff.Load())
}

// counters for the evidence file: cases with Copies; dedup-off cases among them whose merged chunk list has a nested chunk followed by a newer one
var nCopies, nNestedOff atomic.Int64

// family C: cases with real TSDBStores; those where a real store sent one series in >= 2 frames; the largest number of frames
var nTSDB, nFramed, maxFrames atomic.Int64

// cases with a non-replica external label / prefix-shaped label sets; real-store cases where merging the remaining external
// labels changes the order of two series of one store; results that were not sorted by labels (informational, not asserted)
var nRegion, nPrefix, nExtReorder, nExtReorderLazy, nUnsorted atomic.Int64

func evalCase(r *vlib.R, c Case) {
	r.Sample(c)
	R := len(c.Cuts)
	rec := newFrameRec()
	got, err := func() (got []gotSeries, err error) {
		defer func() {
			if p := recover(); p != nil {
				if s, ok := p.(string); ok && strings.HasPrefix(s, "HARNESS-ERROR") {
					panic(p)
				}
				err = fmt.Errorf("panic in the read path: %v", p)
			}
		}()
		return c.run(rec)
	}()
	if err != nil {
		sig := "select-error"
		if strings.HasPrefix(err.Error(), "panic in the read path") {
			sig = "select-panic"
		}
		r.Violation(sig, err.Error(), c)
		return
	}
	// family C: frames = the largest number of frames in which a real TSDBStore sent one series
	frames := 0
	if c.TSDB != nil {
		nTSDB.Add(1)
		frames = c.framesPerSeries(rec)
		if frames >= 2 {
			nFramed.Add(1)
			r.Nontrivial(caseKey(c))
		}
		for {
			m := maxFrames.Load()
			if int64(frames) <= m || maxFrames.CompareAndSwap(m, int64(frames)) {
				break
			}
		}
	}
	if c.Region {
		nRegion.Add(1)
	}
	if c.Shape > 0 {
		nPrefix.Add(1)
	}
	// family C: extReorder = one real TSDBStore holds two series whose TSDB order differs from the order of the label sets it
	// has to send, only because the remaining external labels are merged into them
	extReorder := c.TSDB != nil && c.extReorders()
	if extReorder {
		nExtReorder.Add(1)
		r.Nontrivial(caseKey(c))
		if c.Lazy && c.Dedup && c.stores() >= 2 {
			nExtReorderLazy.Add(1)
		}
	}
	for i := 1; i < len(got); i++ {
		if labels.Compare(got[i-1].lbls, got[i].lbls) > 0 {
			nUnsorted.Add(1) // the statement does not promise an order: counted only
			break
		}
	}
	// narrow class suffix: a real TSDBStore sent one series in several frames
	framed := func(sig string) string {
		if frames >= 2 {
			return sig + "-tsdbstore-series-in-several-frames"
		}
		return sig
	}
	// narrow class suffix (for series returned more than once only): merging the external labels reorders the series of a real TSDBStore
	reordered := func(sig string) string {
		if extReorder {
			return sig + "-tsdbstore-external-labels-change-series-order"
		}
		return sig
	}
	if c.Dedup && R >= 2 {
		diff := false
		for k := range c.Cuts {
			if c.Cuts[k] != c.Cuts[0] || selfOverlap(c.Cuts[k]) {
				diff = true
			}
		}
		if diff {
			r.Nontrivial(caseKey(c))
		}
	}
	// copies: multiStore[k] = replica k is served by several stores with different cuts
	multiStore := make([]bool, R)
	nested := make([]bool, R)
	for _, cp := range c.Copies {
		if cp.Cut != c.Cuts[cp.Replica] {
			multiStore[cp.Replica] = true
		}
	}
	if len(c.Copies) > 0 {
		nCopies.Add(1)
		anyMulti, anyNested := false, false
		for k := range multiStore {
			nested[k] = c.nestedThenNewer(k)
			anyMulti = anyMulti || multiStore[k]
			anyNested = anyNested || (multiStore[k] && nested[k])
		}
		if anyMulti {
			r.Nontrivial(caseKey(c))
		}
		if anyNested && !c.Dedup {
			nNestedOff.Add(1)
		}
	}
	byLset := map[string][]gotSeries{}
	var order []string
	for _, g := range got {
		if _, ok := byLset[g.lset]; !ok {
			order = append(order, g.lset)
		}
		byLset[g.lset] = append(byLset[g.lset], g)
	}
	describe := func() string {
		var sb strings.Builder
		for _, g := range got {
			fmt.Fprintf(&sb, "%s=%v ", g.lset, g.ss)
		}
		return sb.String()
	}
	if c.Dedup {
		for l := 0; l < c.L; l++ {
			want := c.logicalLabels(l).String()
			gs := byLset[want]
			switch {
			case len(gs) == 0:
				r.Violation(framed("dedup-on-logical-series-missing"), fmt.Sprintf("no series %s in the result: %s", want, describe()), c)
			case len(gs) > 1:
				r.Violation(framed(reordered("dedup-on-logical-series-returned-more-than-once")), fmt.Sprintf("%d series %s in the result: %s", len(gs), want, describe()), c)
			case c.Identical && !eqS(gs[0].ss, c.samples(l, 0)):
				sig := "dedup-on-identical-replicas-samples-changed"
				if len(gs[0].ss) < nSamples {
					sig = "dedup-on-identical-replicas-samples-lost"
				}
				overl := false
				for k := range c.Cuts {
					for _, ci := range c.allCuts(k) {
						if selfOverlap(ci) {
							overl = true
						}
					}
				}
				if overl {
					// narrow class: the chunks that one store serves for one replica overlap each other
					sig += "-replica-with-self-overlapping-chunks"
				}
				if !overl && len(c.Copies) > 0 {
					// narrow class: every store serves a clean partition, but one replica is served by several stores
					sig += "-same-replica-on-several-stores"
				}
				if !overl && c.Step < 5000 {
					// narrow class: scrape interval below the 5000 ms initial penalty of the penalty algorithm
					sig += "-interval-below-initial-penalty"
				}
				r.Violation(framed(sig), fmt.Sprintf("series %s: got %v want %v", want, gs[0].ss, c.samples(l, 0)), c)
			}
			delete(byLset, want)
		}
		for extra := range byLset {
			r.Violation(framed("dedup-on-unexpected-series"), fmt.Sprintf("series %s returned (replica labels %v should be removed): %s", extra, c.replicaLabelNames(), describe()), c)
		}
		return
	}
	for l := 0; l < c.L; l++ {
		for k := 0; k < R; k++ {
			want := c.fullLabels(l, k).String()
			gs := byLset[want]
			switch {
			case len(gs) == 0:
				r.Violation(framed("dedup-off-replica-series-missing"), fmt.Sprintf("no series %s in the result: %s", want, describe()), c)
			case len(gs) > 1:
				r.Violation(framed(reordered("dedup-off-replica-series-returned-more-than-once")), fmt.Sprintf("%d series %s: %s", len(gs), want, describe()), c)
			case !eqS(gs[0].ss, c.samples(l, k)):
				sig := "dedup-off-replica-samples-changed"
				if multiStore[k] {
					// narrow classes: the replica is served by several stores with different chunk cuts [and the merged chunk
					// list has a chunk nested in earlier ones followed by a chunk with newer samples]
					sig += "-same-replica-on-several-stores"
					if nested[k] {
						sig += "-nested-chunk-then-newer-chunk"
					}
				}
				r.Violation(framed(sig), fmt.Sprintf("series %s: got %v want %v", want, gs[0].ss, c.samples(l, k)), c)
			}
			delete(byLset, want)
		}
	}
	for extra := range byLset {
		r.Violation(framed("dedup-off-unexpected-series"), fmt.Sprintf("series %s returned: %s", extra, describe()), c)
	}
}
