// Family C (Case.TSDB): the stores behind the proxy are REAL store.TSDBStore instances over real tsdb.DB heads (what receive,
// ruler and sidecar-less TSDBs serve), with a frame budget small enough that one series is sent in several frames, optionally
// next to a fake store that serves a further copy of replica 0 with another chunk cut.
package c04

import (
	"context"
	"fmt"
	"math"
	"os"
	"path/filepath"
	"sort"
	"strings"
	"sync"

	"github.com/prometheus/prometheus/model/labels"
	"github.com/prometheus/prometheus/tsdb"
	"go.uber.org/atomic"
	"google.golang.org/grpc"

	"github.com/thanos-io/thanos/pkg/component"
	"github.com/thanos-io/thanos/pkg/store"
	"github.com/thanos-io/thanos/pkg/store/labelpb"
	"github.com/thanos-io/thanos/pkg/store/storepb"
	storetestutil "github.com/thanos-io/thanos/pkg/store/storepb/testutil"
)

// TSDBCfg: which stores are real TSDBStores and how they are configured.
type TSDBCfg struct {
	// Widths, per store: 0 = fake store; w > 0 = real TSDBStore over a tsdb.DB head whose chunk range is w sample
	// intervals (the head cuts a chunk at every multiple of w*step), which fixes the chunk cut of the replicas it holds.
	Widths []int `json:"widths"`
	// Layout, where the replica labels of the series of a real store live: 0 = external labels of the TSDBStore (one
	// replica per store), 1 = labels of the stored series (replicas may share a store), 2 = label cfg {r,replica} only:
	// r external, replica stored.
	Layout int `json:"layout"`
	// Frame: TSDBStore frame budget left for chunks (maxBytesPerFrame minus the bytes of the labels); 0 = production limit.
	Frame int `json:"frame"`
}

// head chunk ranges (in sample intervals) of the real stores and the cut of the 6 samples each one produces
// (base = 100 / 1000 sample intervals): 1 -> 6 chunks, 2 -> [0-1][2-3][4-5], 3 -> [0-1][2-4][5-5], 4 -> [0-3][4-5],
// 6 -> [0-1][2-5], bigWidth -> [0-5].
const bigWidth = 1 << 20

var tsdbWidths = []int{1, 2, 3, 4, 6, bigWidth}

// frame budgets for chunks: an AggrChunk of 1..6 samples measures 35..50 bytes here, so 1 -> every chunk its own frame,
// 51 -> 2 chunks per frame, 101 -> 3 chunks per frame, 0 -> the production limit (everything in one frame).
var tsdbFrames = []int{1, 51, 101, 0}

// cutOfWidth: the cut (intervals of sample indices) a head with chunk range w*step makes of the samples base+i*step.
func cutOfWidth(w int, step int64) []ival {
	var out []ival
	for i := 0; i < nSamples; i++ {
		g := (base + int64(i)*step) / (int64(w) * step)
		if i > 0 && g == (base+int64(i-1)*step)/(int64(w)*step) {
			out[len(out)-1].hi = i
			continue
		}
		out = append(out, ival{i, i})
	}
	return out
}

type widthStep struct {
	w    int
	step int64
}

var (
	cutIdxMtx sync.Mutex
	cutIdx    = map[widthStep]int{}
)

func cutIndexOfWidth(w int, step int64) int {
	if w <= 0 || step <= 0 {
		panic("HARNESS-ERROR bad chunk range")
	}
	cutIdxMtx.Lock()
	defer cutIdxMtx.Unlock()
	i, ok := cutIdx[widthStep{w, step}]
	if !ok {
		i = pickCuts([][]ival{cutOfWidth(w, step)})[0]
		cutIdx[widthStep{w, step}] = i
	}
	return i
}

func (c Case) real(st int) bool {
	return c.TSDB != nil && st < len(c.TSDB.Widths) && c.TSDB.Widths[st] > 0
}

// extNames: the label names that are external labels of a real store: replica labels according to the layout and the
// non-replica label region.
func (c Case) extNames() []string {
	var out []string
	switch c.TSDB.Layout {
	case 0:
		out = append(out, c.replicaLabelNames()...)
	case 2:
		out = append(out, "r")
	}
	if c.Region {
		out = append(out, regionLabel)
	}
	return out
}

// extReorders: some real TSDBStore of the case holds two series whose order by the labels known to its TSDB (minus the
// replica labels the request removes) differs from the order of the label sets the store has to send for them, i.e. merging
// the remaining external labels into the series changes their order (a store that streams in TSDB order is then unsorted).
func (c Case) extReorders() bool {
	ext := c.extNames()
	for st := 0; st < c.stores(); st++ {
		if !c.real(st) {
			continue
		}
		var inner, sent []labels.Labels
		for l := 0; l < c.L; l++ {
			for k, p := range c.Place {
				if p != st {
					continue
				}
				full := c.fullLabels(l, k)
				b := labels.NewBuilder(full)
				for _, n := range ext {
					b.Del(n)
				}
				out := full
				if c.Dedup {
					for _, n := range c.replicaLabelNames() {
						b.Del(n)
					}
					out = c.logicalLabels(l)
				}
				inner, sent = append(inner, b.Labels()), append(sent, out)
			}
		}
		for i := range inner {
			for j := range inner {
				if labels.Compare(inner[i], inner[j]) < 0 && labels.Compare(sent[i], sent[j]) > 0 {
					return true
				}
			}
		}
	}
	return false
}

// ---- pool of tsdb.DB heads, keyed by content (read only after the appends; shared by all cases) ----

type dbEntry struct {
	once sync.Once
	db   *tsdb.DB
}

var (
	dbPool  sync.Map // key -> *dbEntry
	dbRoot  string
	dbCount atomic.Int64
	dbMtx   sync.Mutex
	dbAll   []*tsdb.DB
)

type storedSeries struct {
	lset labels.Labels
	ss   []smp
}

func closeDBs() {
	dbMtx.Lock()
	defer dbMtx.Unlock()
	for _, db := range dbAll {
		_ = db.Close()
	}
	dbAll = nil
}

func getDB(width int, step int64, series []storedSeries) *tsdb.DB {
	sort.Slice(series, func(a, b int) bool { return labels.Compare(series[a].lset, series[b].lset) < 0 })
	var sb strings.Builder
	fmt.Fprintf(&sb, "w=%d step=%d", width, step)
	for _, s := range series {
		// the samples of a series are determined by the step, the first and the last value
		fmt.Fprintf(&sb, "|%s=%v..%v", s.lset.String(), s.ss[0].V, s.ss[nSamples-1].V)
	}
	e, _ := dbPool.LoadOrStore(sb.String(), &dbEntry{})
	ent := e.(*dbEntry)
	ent.once.Do(func() {
		if dbRoot == "" {
			panic("HARNESS-ERROR no scratch directory for tsdb heads")
		}
		dir := filepath.Join(dbRoot, fmt.Sprintf("db%d", dbCount.Add(1)))
		if err := os.MkdirAll(dir, 0o777); err != nil {
			panic("HARNESS-ERROR " + err.Error())
		}
		opts := tsdb.DefaultOptions()
		opts.MinBlockDuration = int64(width) * step
		opts.MaxBlockDuration = int64(width) * step
		opts.RetentionDuration = 0
		opts.WALSegmentSize = -1 // no WAL: the head is filled once and only read
		opts.StripeSize = 16
		db, err := tsdb.Open(dir, nil, nil, opts, nil)
		if err != nil {
			panic("HARNESS-ERROR tsdb.Open: " + err.Error())
		}
		db.DisableCompactions()
		ctx := context.Background()
		for i := 0; i < nSamples; i++ {
			app := db.Appender(ctx)
			for _, s := range series {
				if _, err := app.Append(0, s.lset, s.ss[i].T, s.ss[i].V); err != nil {
					panic("HARNESS-ERROR append: " + err.Error())
				}
			}
			if err := app.Commit(); err != nil {
				panic("HARNESS-ERROR commit: " + err.Error())
			}
		}
		// the head must have cut the chunks as the case claims (Cuts of the replicas on this store)
		want := fmt.Sprint(cutOfWidth(width, step))
		q, err := db.ChunkQuerier(math.MinInt64, math.MaxInt64)
		if err != nil {
			panic("HARNESS-ERROR " + err.Error())
		}
		set := q.Select(ctx, true, nil, labels.MustNewMatcher(labels.MatchEqual, "__name__", "m"))
		n := 0
		for set.Next() {
			n++
			var got []ival
			it := set.At().Iterator(nil)
			for it.Next() {
				m := it.At()
				got = append(got, ival{int((m.MinTime - base) / step), int((m.MaxTime - base) / step)})
			}
			if fmt.Sprint(got) != want {
				panic(fmt.Sprintf("HARNESS-ERROR tsdb head with chunk range %d cut %v, expected %s", width, got, want))
			}
		}
		_ = q.Close()
		if n != len(series) {
			panic("HARNESS-ERROR tsdb head does not hold the series")
		}
		dbMtx.Lock()
		dbAll = append(dbAll, db)
		dbMtx.Unlock()
		ent.db = db
	})
	if ent.db == nil {
		panic("HARNESS-ERROR tsdb head could not be built")
	}
	return ent.db
}

// ---- recording of the frames a real store sends ----

type frameRec struct {
	mtx    sync.Mutex
	frames map[string]int // store/labels -> frames (series responses, also inside batches) sent for it
}

func (f *frameRec) add(storeName string, s *storepb.Series) {
	key := storeName + "/" + labelpb.ZLabelsToPromLabels(s.Labels).String()
	f.mtx.Lock()
	f.frames[key]++
	f.mtx.Unlock()
}

// maxFrames: the largest number of frames store storeName sent under one label set.
func (f *frameRec) maxFrames(storeName string) int {
	f.mtx.Lock()
	defer f.mtx.Unlock()
	m := 0
	for k, n := range f.frames {
		if n > m && strings.HasPrefix(k, storeName+"/") {
			m = n
		}
	}
	return m
}

// framesPerSeries: the largest number of frames in which a real TSDBStore of the case sent one stored series. With
// deduplication on, the replicas held by one store are sent under the same label set (replica labels removed), so the
// frames counted under one label set are divided by the number of replicas on that store (they share the store's cut).
func (c Case) framesPerSeries(rec *frameRec) int {
	out := 0
	for st := 0; st < c.stores(); st++ {
		if !c.real(st) {
			continue
		}
		mult := 1
		if c.Dedup {
			mult = 0
			for _, p := range c.Place {
				if p == st {
					mult++
				}
			}
		}
		if n := (rec.maxFrames(fmt.Sprintf("store-%d", st)) + mult - 1) / mult; n > out {
			out = n
		}
	}
	return out
}

// caseKey: key of a case for the count of distinct non-trivial cases.
func caseKey(c Case) string {
	if c.TSDB == nil {
		return fmt.Sprintf("%+v", c)
	}
	t := *c.TSDB
	c.TSDB = nil
	return fmt.Sprintf("%+v %+v", c, t)
}

type recClient struct {
	storepb.StoreClient
	name string
	rec  *frameRec
}

func (c *recClient) Series(ctx context.Context, req *storepb.SeriesRequest, opts ...grpc.CallOption) (storepb.Store_SeriesClient, error) {
	cl, err := c.StoreClient.Series(ctx, req, opts...)
	if err != nil {
		return nil, err
	}
	return &recStream{Store_SeriesClient: cl, c: c}, nil
}

type recStream struct {
	storepb.Store_SeriesClient
	c *recClient
}

func (s *recStream) Recv() (*storepb.SeriesResponse, error) {
	resp, err := s.Store_SeriesClient.Recv()
	if resp != nil {
		if ser := resp.GetSeries(); ser != nil {
			s.c.rec.add(s.c.name, ser)
		}
		if b := resp.GetBatch(); b != nil {
			for _, ser := range b.Series {
				s.c.rec.add(s.c.name, ser)
			}
		}
	}
	return resp, err
}

// safeServer turns a panic of the store under test into an error of the Series call (reported as select-error: partial
// response is disabled), instead of a crash of the goroutine of the proxy that pulls the in-process stream.
type safeServer struct{ storepb.StoreServer }

func (s safeServer) Series(r *storepb.SeriesRequest, srv storepb.Store_SeriesServer) (err error) {
	defer func() {
		if p := recover(); p != nil {
			err = fmt.Errorf("panic in TSDBStore.Series: %v", p)
		}
	}()
	return s.StoreServer.Series(r, srv)
}

// validateTSDB panics on a case (replay artefact) that family C cannot build.
func (c Case) validateTSDB() {
	t := c.TSDB
	if len(t.Widths) != c.stores() || c.Spread || t.Layout < 0 || t.Layout > 2 || (t.Layout == 2 && c.LabelCfg != 1) || t.Frame < 0 {
		panic("HARNESS-ERROR inconsistent tsdb case")
	}
	for _, cp := range c.Copies {
		if c.real(cp.Store) {
			panic("HARNESS-ERROR copy of a replica on a real store")
		}
	}
	for st := range t.Widths {
		if !c.real(st) {
			continue
		}
		var ks []int
		for k, p := range c.Place {
			if p == st {
				ks = append(ks, k)
				if c.Cuts[k] != cutIndexOfWidth(t.Widths[st], c.Step) {
					panic("HARNESS-ERROR cut of a replica on a real store differs from the cut of its head")
				}
			}
		}
		if len(ks) == 0 || (t.Layout == 0 && len(ks) > 1) {
			panic("HARNESS-ERROR replicas do not fit the real store")
		}
		for _, k := range ks {
			if t.Layout == 2 && k/2 != ks[0]/2 {
				panic("HARNESS-ERROR replicas with different external labels on one real store")
			}
		}
	}
}

// realClient: store st as a real TSDBStore over a tsdb.DB head, used in-process like receive/query do (ServerAsClient).
func (c Case) realClient(st int, rec *frameRec) store.Client {
	ext := map[string]bool{}
	for _, n := range c.extNames() {
		ext[n] = true
	}
	var series []storedSeries
	extLset := labels.EmptyLabels()
	labelBytes := 0
	for l := 0; l < c.L; l++ {
		for k, p := range c.Place {
			if p != st {
				continue
			}
			full := c.fullLabels(l, k)
			sb, eb := labels.NewBuilder(full), labels.NewBuilder(labels.EmptyLabels())
			for n := range ext {
				eb.Set(n, full.Get(n))
				sb.Del(n)
			}
			extLset = eb.Labels()
			series = append(series, storedSeries{lset: sb.Labels(), ss: c.samples(l, k)})
			// bytes of the labels the store sends for a series: the largest label set of the store (label sets of the shapes 1
			// and 2 differ by one short label, far less than a chunk: the chunks per frame stay as documented at tsdbFrames)
			sent := full
			if c.Dedup {
				sent = c.logicalLabels(l)
			}
			n := 0
			for _, zl := range labelpb.ZLabelsFromPromLabels(sent) {
				n += zl.Size()
			}
			if n > labelBytes {
				labelBytes = n
			}
		}
	}
	db := getDB(c.TSDB.Widths[st], c.Step, series)
	ts := store.NewTSDBStore(nil, db, component.Receive, extLset)
	if c.TSDB.Frame > 0 {
		store.VerifC04SetMaxBytesPerFrame(ts, labelBytes+c.TSDB.Frame)
	}
	name := fmt.Sprintf("store-%d", st)
	tc := &storetestutil.TestClient{
		Name:        name,
		StoreClient: &recClient{StoreClient: storepb.ServerAsClient(safeServer{ts}, atomic.Bool{}), name: name, rec: rec},
		MinTime:     math.MinInt64, MaxTime: math.MaxInt64, WithoutReplicaLabelsEnabled: true,
	}
	if !extLset.IsEmpty() {
		tc.ExtLset = []labels.Labels{extLset}
	}
	return tc
}

// labelVariant: the logical series of a case (count, label-name shape, non-replica external label).
type labelVariant struct {
	l      int
	after  bool
	shape  int
	region bool
}

type tsdbCopy struct {
	cut      int // -1: no copy
	supports bool
}

type batchLazy struct {
	batch int
	lazy  bool
}

// tsdbSpace: one product of family C.
type tsdbSpace struct {
	variants         []labelVariant
	widths0, widths1 []int
	frames           []int
	copies           []tsdbCopy
	bls              []batchLazy
	steps            []int64 // the steps after the first only for identical replicas
}

var tsdbCopyCuts = pickCuts([][]ival{{{0, 2}, {3, 5}}, {{0, 0}, {1, 1}, {2, 2}, {3, 3}, {4, 4}, {5, 5}}, {{0, 5}}})

// genTSDB: family C. Replicas R=1..2 on real TSDBStores: chunk range per store x frame budget x layout of the replica
// labels x logical series x replica labels x dedup modes x (batch size, retrieval strategy), alone or with a further copy
// of replica 0 (other cut) on a fake store with / without WithoutReplicaLabels support.
// quick: chunk ranges {1,2,3,big} (second store {1,3}), budgets {1,51,production}, copy cuts {[0-2][3-5] with support,
// six single-sample chunks without}, (batch,lazy) {(1,eager),(3,eager),(1,lazy)}; thorough: all 6 chunk ranges for every
// store, all 4 budgets, 3 copy cuts x support, batch {1,3} x {eager, lazy}.
func genTSDB(thorough bool, yield func(Case) bool) bool {
	cc := tsdbCopyCuts
	sp := tsdbSpace{
		variants: []labelVariant{{l: 1}, {l: 2, after: true}, {l: 2}},
		widths0:  []int{1, 2, 3, bigWidth}, widths1: []int{1, 3},
		frames: []int{1, 51, 0},
		copies: []tsdbCopy{{-1, false}, {cc[0], true}, {cc[1], false}},
		bls:    []batchLazy{{1, false}, {3, false}, {1, true}},
		steps:  []int64{10000, 1000},
	}
	if thorough {
		sp.copies = []tsdbCopy{{-1, false}}
		for _, ci := range cc {
			sp.copies = append(sp.copies, tsdbCopy{ci, true}, tsdbCopy{ci, false})
		}
		sp.widths0, sp.widths1 = tsdbWidths, tsdbWidths
		sp.frames = tsdbFrames
		sp.bls = append(sp.bls, batchLazy{3, true})
	}
	return sp.gen(yield)
}

// extVariants: the label variants of the external-label dimension: the three variants of family C with the non-replica
// external label region on every store, and the prefix-shaped label sets {a},{a,pod} / {a},{a,pod},{a,z} / {a},{a,zone}
// without and with region.
var extVariants = []labelVariant{
	{l: 2, shape: 1, region: true}, {l: 3, shape: 1, region: true}, {l: 2, shape: 2, region: true},
	{l: 2, shape: 1}, {l: 3, shape: 1}, {l: 2, shape: 2},
	{l: 1, region: true}, {l: 2, after: true, region: true}, {l: 2, region: true},
}

// genTSDBExt: family C', added after seeded defect C04-r3 escaped: family C with the further dimension "the real stores have
// a NON-replica external label (region) that is merged into every series" x "label-name shape of the logical series"
// (prefix-shaped label sets, whose order that merge changes when the extra series label sorts before the external label).
// quick: chunk ranges {1,big} (second store {3}), budget 1 chunk (= 6 frames / 1 frame per series), {no copy; copy cut 3-3 with support}, step 10 s,
// (batch,lazy) as family C; thorough: chunk ranges {1,2,3,big} (second store {1,3}), all 4 budgets, 3 copy cuts x support, batch {1,3} x {eager,lazy}, step 10 s.
func genTSDBExt(thorough bool, yield func(Case) bool) bool {
	sp := tsdbSpace{
		variants: extVariants,
		widths0:  []int{1, bigWidth}, widths1: []int{3},
		frames: []int{1}, // with chunk range 1 a series takes 6 frames, with the big one a single frame
		copies: []tsdbCopy{{-1, false}, {tsdbCopyCuts[0], true}},
		bls:    []batchLazy{{1, false}, {3, false}, {1, true}},
		steps:  []int64{10000},
	}
	if thorough {
		sp.copies = []tsdbCopy{{-1, false}}
		for _, ci := range tsdbCopyCuts {
			sp.copies = append(sp.copies, tsdbCopy{ci, true}, tsdbCopy{ci, false})
		}
		// the chunk cut is orthogonal to the label dimension: the chunk ranges of the quick family C, every other alphabet in full
		sp.widths0, sp.widths1 = []int{1, 2, 3, bigWidth}, []int{1, 3}
		sp.frames = tsdbFrames
		sp.bls = append(sp.bls, batchLazy{3, true})
	}
	return sp.gen(yield)
}

func (sp tsdbSpace) gen(yield func(Case) bool) bool {
	// shapes: replica homes and layouts
	type shape struct {
		place  []int
		layout int
	}
	shapes := []shape{
		{[]int{0}, 0}, {[]int{0}, 1}, {[]int{0}, 2},
		{[]int{0, 1}, 0}, {[]int{0, 1}, 1}, {[]int{0, 1}, 2}, {[]int{0, 0}, 1}, {[]int{0, 0}, 2},
	}
	for _, sh := range shapes {
		nst := maxOf(sh.place) + 1
		var wts [][]int
		for _, w0 := range sp.widths0 {
			if nst == 1 {
				wts = append(wts, []int{w0})
				continue
			}
			for _, w1 := range sp.widths1 {
				wts = append(wts, []int{w0, w1})
			}
		}
		for _, wt := range wts {
			for _, frame := range sp.frames {
				for _, cpy := range sp.copies {
					for _, v := range sp.variants {
						for labelCfg := 0; labelCfg < 2; labelCfg++ {
							if sh.layout == 2 && labelCfg != 1 {
								continue
							}
							for mode := 0; mode < 3; mode++ {
								for si, step := range sp.steps {
									if si > 0 && mode != 0 {
										break
									}
									for _, b := range sp.bls {
										widths := append([]int(nil), wt...)
										cuts := make([]int, len(sh.place))
										for k, p := range sh.place {
											cuts[k] = cutIndexOfWidth(widths[p], step)
										}
										c := Case{L: v.l, PairAfter: v.after, Shape: v.shape, Region: v.region, LabelCfg: labelCfg, Cuts: cuts, Place: sh.place,
											Dedup: mode < 2, Identical: mode == 0, Step: step, Lazy: b.lazy, Batch: b.batch,
											TSDB: &TSDBCfg{Widths: widths, Layout: sh.layout, Frame: frame}}
										if cpy.cut >= 0 {
											c.Copies = []Copy{{0, cpy.cut, nst}}
											c.Supports = cpy.supports
											c.TSDB.Widths = append(c.TSDB.Widths, 0)
										}
										if !yield(c) {
											return false
										}
									}
								}
							}
						}
					}
				}
			}
		}
	}
	return true
}

// genShapes: family D, the same label dimension on FAKE stores (which serve region as part of the label sets): R=2 replicas with
// every pair of three partition cuts, on one store or on two, x the label variants of family C' x replica labels x the three
// dedup modes x store support for WithoutReplicaLabels x framing x eager / lazy retrieval [thorough: x batch 1/3].
func genShapes(thorough bool, yield func(Case) bool) bool {
	cuts := pickCuts([][]ival{{{0, 5}}, {{0, 2}, {3, 5}}, {{0, 1}, {2, 3}, {4, 5}}})
	batches := []int{1}
	if thorough {
		batches = []int{1, 3}
	}
	for _, c0 := range cuts {
		for _, c1 := range cuts {
			for _, pl := range [][]int{{0, 0}, {0, 1}} {
				for _, v := range extVariants {
					for labelCfg := 0; labelCfg < 2; labelCfg++ {
						for mode := 0; mode < 3; mode++ {
							for fl := 0; fl < 8; fl++ {
								for _, batch := range batches {
									c := Case{L: v.l, PairAfter: v.after, Shape: v.shape, Region: v.region, LabelCfg: labelCfg, Cuts: []int{c0, c1}, Place: pl,
										Supports: fl&1 != 0, ChunkPerFrame: fl&2 != 0, Lazy: fl&4 != 0, Dedup: mode < 2, Identical: mode == 0, Step: 10000, Batch: batch}
									if !yield(c) {
										return false
									}
								}
							}
						}
					}
				}
			}
		}
	}
	return true
}

func newFrameRec() *frameRec { return &frameRec{frames: map[string]int{}} }
