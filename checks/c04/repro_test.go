package c04

// Plain reproduction (informational, never fails) of the sample loss with deduplication on when one series is served
// as partially overlapping chunks [s0..s3] and [s2..s5] (one replica, one store):
//   go test -tags slicelabels,verif -vet=off -count=1 -run TestRepro -v ./checks/c04/
import (
	"math"
	"testing"

	"github.com/prometheus/prometheus/model/labels"
	"github.com/prometheus/prometheus/tsdb/chunkenc"

	"github.com/thanos-io/thanos/pkg/dedup"
	"github.com/thanos-io/thanos/pkg/query"
	"github.com/thanos-io/thanos/pkg/store/storepb"
)

func TestReproOverlappingChunksLoseSamples(t *testing.T) {
	c := Case{L: 1, Cuts: pickCuts([][]ival{{{0, 3}, {2, 5}}}), Place: []int{0}, Supports: true, Identical: true, Step: 15000, Batch: 1}
	for _, dd := range []bool{false, true} {
		c.Dedup = dd
		got, err := c.run(newFrameRec())
		if err != nil {
			t.Fatal(err)
		}
		t.Logf("dedup=%v: %+v", dd, got)
	}
}

// The same without any store: exactly the three calls of querier.selectFn on one series with the two chunks.
func TestReproOverlapSplitPlusPenalty(t *testing.T) {
	c := Case{L: 1, Cuts: []int{0}, Place: []int{0}, Identical: true, Step: 15000}
	ss := c.samples(0, 0)
	one := &oneSeries{lset: c.logicalLabels(0), chks: []storepb.AggrChunk{encode(ss[0:4]), encode(ss[2:6])}}
	set := dedup.NewSeriesSet(query.NewPromSeriesSet(dedup.NewOverlapSplit(one), math.MinInt64, math.MaxInt64,
		[]storepb.Aggr{storepb.Aggr_COUNT, storepb.Aggr_SUM}, nil), "", dedup.AlgorithmPenalty)
	for set.Next() {
		it := set.At().Iterator(nil)
		var ts []int64
		for it.Next() != chunkenc.ValNone {
			ts = append(ts, it.AtT())
		}
		t.Logf("chunks [s0..s3] + [s2..s5] -> %d samples %v (6 expected)", len(ts), ts)
	}
}

type oneSeries struct {
	lset labels.Labels
	chks []storepb.AggrChunk
	done bool
}

func (o *oneSeries) Next() bool                               { d := o.done; o.done = true; return !d }
func (o *oneSeries) At() (labels.Labels, []storepb.AggrChunk) { return o.lset, o.chks }
func (o *oneSeries) Err() error                               { return nil }

// Longer series: 12 samples served as [s0..s5] + [s4..s11] -> a two sample hole (s6, s7) at the hand-over.
func TestReproHoleAtHandOver(t *testing.T) {
	var ss []smp
	for i := 0; i < 12; i++ {
		ss = append(ss, smp{base + int64(i)*15000, float64(i)})
	}
	one := &oneSeries{lset: labels.FromStrings("a", "1"), chks: []storepb.AggrChunk{encode(ss[0:6]), encode(ss[4:12])}}
	set := dedup.NewSeriesSet(query.NewPromSeriesSet(dedup.NewOverlapSplit(one), math.MinInt64, math.MaxInt64,
		[]storepb.Aggr{storepb.Aggr_COUNT, storepb.Aggr_SUM}, nil), "", dedup.AlgorithmPenalty)
	for set.Next() {
		it := set.At().Iterator(nil)
		var vs []float64
		for it.Next() != chunkenc.ValNone {
			_, v := it.At()
			vs = append(vs, v)
		}
		t.Logf("chunks [s0..s5] + [s4..s11] -> samples %v", vs)
	}
}
