// C45: Rules API label filters follow Prometheus semantics (OR over match[] sets, AND inside a set,
// templated label values ignored) and replicas of a rule are deduplicated to one.
//
// Engine E4: bounded-exhaustive enumeration of (rules, selector sets, replica label lists, replica
// layouts) driven through the exported rules.NewGRPCClientWithDedup(...).Rules over a fake RulesServer.
package c45

import (
	"context"
	"fmt"
	"iter"
	"sort"
	"strconv"
	"strings"
	"testing"
	"time"

	"github.com/prometheus/prometheus/model/labels"

	"github.com/thanos-io/thanos/pkg/rules"
	"github.com/thanos-io/thanos/pkg/rules/rulespb"
	"github.com/thanos-io/thanos/pkg/store/labelpb"

	"verif/vlib"
)

// RuleSpec is one logical rule, delivered by Reps replicas.
type RuleSpec struct {
	Kind int `json:"kind"` // 0 alerting, 1 recording
	A    int `json:"a"`    // index into vals for label "a" (0 = label absent)
	B    int `json:"b"`    // index into vals for label "b"
	Reps int `json:"reps"` // number of replicas delivering the rule (>=1)
}

type Case struct {
	Sweep  int        `json:"sweep"`  // 0 filter sweep, 1 dedup sweep
	Rules  []RuleSpec `json:"rules"`  // all in group file "f", name "g"
	Sets   [][]int    `json:"sets"`   // selector sets; each a list of indices into matcherAlphabet
	RL     int        `json:"rl"`     // index into replicaLabelLists
	Tag    int        `json:"tag"`    // how replicas differ: 0 r=<i>; 1 no difference at all; 2 r=<i>,q=<i>
	Layout int        `json:"layout"` // 0 one group message per replica, 1 everything in one group message
}

// Label values: absent, two plain values, then templated values: "{{ $labels.z }}" (text/template reports an
// undefined variable: the parse-error branch), "x{{ .Value }}" (parses; text node followed by an action node),
// "{{ .Labels.z }}" (parses; a single action node).
var vals = []string{"", "x", "y", "{{ $labels.z }}", "x{{ .Value }}", "{{ .Labels.z }}"}

func templated(v string) bool { return strings.Contains(v, "{{") }

// Matcher alphabet: per label name one symbol per matcher type and per interesting relation to the values
// (equal to a value, empty, regex matching both/any/empty, literal equal to the templated text).
var matcherOps = []struct {
	t labels.MatchType
	v string
}{
	{labels.MatchEqual, "x"}, {labels.MatchEqual, ""}, {labels.MatchNotEqual, "x"}, {labels.MatchNotEqual, ""},
	{labels.MatchRegexp, "x|y"}, {labels.MatchRegexp, ".*"}, {labels.MatchNotRegexp, "x.*"}, {labels.MatchEqual, "{{ $labels.z }}"},
}
var matcherNames = []string{"a", "b"}

func matcherText(i int) string {
	o := matcherOps[i%len(matcherOps)]
	return matcherNames[i/len(matcherOps)] + o.t.String() + strconv.Quote(o.v)
}

func matcherRef(i int) *labels.Matcher {
	o := matcherOps[i%len(matcherOps)]
	return labels.MustNewMatcher(o.t, matcherNames[i/len(matcherOps)], o.v)
}

func selectorText(set []int) string {
	p := make([]string, len(set))
	for i, m := range set {
		p[i] = matcherText(m)
	}
	return "{" + strings.Join(p, ",") + "}"
}

var replicaLabelLists = [][]string{nil, {"r"}, {"r", "q"}}

// fake RulesServer: sends the prepared group messages.
type fakeServer struct {
	groups []*rulespb.RuleGroup
}

func (f *fakeServer) Rules(_ *rulespb.RulesRequest, srv rulespb.Rules_RulesServer) error {
	for _, g := range f.groups {
		if err := srv.Send(rulespb.NewRuleGroupRulesResponse(g)); err != nil {
			return err
		}
	}
	return nil
}

var t0 = time.Unix(1700000000, 0).UTC()

func (c Case) ruleLabels(rs RuleSpec, rep int) labels.Labels {
	b := labels.NewBuilder(labels.EmptyLabels())
	if rs.A != 0 {
		b.Set("a", vals[rs.A])
	}
	if rs.B != 0 {
		b.Set("b", vals[rs.B])
	}
	switch c.Tag {
	case 0:
		b.Set("r", fmt.Sprint(rep))
	case 2:
		b.Set("r", fmt.Sprint(rep))
		b.Set("q", fmt.Sprint(rep))
	}
	return b.Labels()
}

func mkRule(rs RuleSpec, ls labels.Labels, rep int) *rulespb.Rule {
	zl := labelpb.ZLabelSet{Labels: labelpb.ZLabelsFromPromLabels(ls.Copy())}
	// replicas differ in evaluation time and alert state (which replica wins is not asserted).
	ev := t0.Add(time.Duration((rep*7)%3) * time.Second)
	if rs.Kind == 0 {
		return rulespb.NewAlertingRule(&rulespb.Alert{
			Name: "n", Query: "up == 0", DurationSeconds: 60, Labels: zl,
			State: rulespb.AlertState(rep % 3), LastEvaluation: ev, Health: "ok",
		})
	}
	return rulespb.NewRecordingRule(&rulespb.RecordingRule{
		Name: "n", Query: "up == 0", Labels: zl, LastEvaluation: ev, Health: "ok",
	})
}

type inRule struct {
	id  string
	sel bool // selected by the reference semantics
	sat int  // number of selector sets satisfied
}

// identity of a rule once the configured replica labels are ignored (what "one per rule" counts).
func identity(kind int, ls labels.Labels, rl []string) string {
	b := labels.NewBuilder(ls)
	for _, n := range rl {
		b.Del(n)
	}
	return fmt.Sprintf("kind=%d %s", kind, b.Labels().String())
}

// reference semantics: labels with templated values are ignored; a rule is selected iff there is no
// selector set, or all matchers of at least one set accept the remaining labels.
func refSelected(ls labels.Labels, sets [][]*labels.Matcher) (sel bool, nSat int) {
	if len(sets) == 0 {
		return true, 0
	}
	get := func(name string) string {
		v := ls.Get(name)
		if templated(v) {
			return ""
		}
		return v
	}
	for _, set := range sets {
		ok := true
		for _, m := range set {
			if !m.Matches(get(m.Name)) {
				ok = false
			}
		}
		if ok {
			nSat++
		}
	}
	return nSat > 0, nSat
}

func eval(r *vlib.R, c Case) {
	rl := replicaLabelLists[c.RL]
	// the request carries selector text; the reference builds the matchers directly (no parser involved).
	req := &rulespb.RulesRequest{}
	var sets [][]*labels.Matcher
	for _, s := range c.Sets {
		txt := selectorText(s)
		req.MatcherString = append(req.MatcherString, txt)
		var ms []*labels.Matcher
		for _, mi := range s {
			ms = append(ms, matcherRef(mi))
		}
		sets = append(sets, ms)
	}

	// build the replica messages and the expectation.
	var ins []inRule
	maxReps := 0
	for _, rs := range c.Rules {
		if rs.Reps > maxReps {
			maxReps = rs.Reps
		}
	}
	perReplica := make([][]*rulespb.Rule, maxReps)
	for _, rs := range c.Rules {
		for rep := 0; rep < rs.Reps; rep++ {
			ls := c.ruleLabels(rs, rep)
			perReplica[rep] = append(perReplica[rep], mkRule(rs, ls, rep))
			sel, sat := refSelected(ls, sets)
			ins = append(ins, inRule{id: identity(rs.Kind, ls, rl), sel: sel, sat: sat})
		}
	}
	srv := &fakeServer{}
	if c.Layout == 0 {
		for rep := range perReplica {
			srv.groups = append(srv.groups, &rulespb.RuleGroup{Name: "g", File: "f", Interval: 60, Rules: perReplica[rep]})
		}
	} else {
		g := &rulespb.RuleGroup{Name: "g", File: "f", Interval: 60}
		for rep := range perReplica {
			g.Rules = append(g.Rules, perReplica[rep]...)
		}
		srv.groups = append(srv.groups, g)
	}

	expected := map[string]bool{}  // identities that must be returned exactly once
	partial := map[string]bool{}   // ... selected while satisfying some but not all sets
	unselected := map[string]bool{} // identities none of whose replicas is selected
	collapsing := false
	for _, in := range ins {
		if in.sel {
			if expected[in.id] {
				collapsing = true
			}
			expected[in.id] = true
			if in.sat < len(sets) {
				partial[in.id] = true
			}
		}
	}
	for _, in := range ins {
		if !expected[in.id] {
			unselected[in.id] = true
		}
	}

	r.Sample(c)
	if len(partial) > 0 {
		r.Nontrivial("or:" + fmt.Sprint(c))
	}
	if collapsing {
		r.Nontrivial("dedup:" + fmt.Sprint(c))
	}

	out, _, err := rules.NewGRPCClientWithDedup(srv, rl).Rules(context.Background(), req)
	if err != nil {
		r.Violation("rules-request-error", fmt.Sprintf("Rules returned error %v for selectors %v", err, req.MatcherString), c)
		return
	}
	got := map[string]int{}
	for _, g := range out.Groups {
		for _, ru := range g.Rules {
			kind := 1
			if ru.GetAlert() != nil {
				kind = 0
			}
			got[identity(kind, ru.GetLabels(), rl)]++
		}
	}
	ids := make([]string, 0, len(expected))
	for id := range expected {
		ids = append(ids, id)
	}
	sort.Strings(ids)
	for _, id := range ids {
		switch n := got[id]; {
		case n == 0 && allPartialOnly(id, ins, len(sets)):
			r.Violation("rule-satisfying-one-selector-set-but-not-all-dropped",
				fmt.Sprintf("rule %s satisfies all selectors of at least one (not every) set of %v but is not returned (got %v)", id, req.MatcherString, got), c)
		case n == 0:
			r.Violation("matching-rule-dropped", fmt.Sprintf("rule %s satisfies the selector sets %v but is not returned (got %v)", id, req.MatcherString, got), c)
		case n > 1:
			r.Violation("replica-duplicates-not-deduplicated", fmt.Sprintf("rule %s returned %d times with replica labels %v (got %v)", id, n, rl, got), c)
		}
	}
	gids := make([]string, 0, len(got))
	for id := range got {
		gids = append(gids, id)
	}
	sort.Strings(gids)
	for _, id := range gids {
		if expected[id] {
			continue
		}
		if unselected[id] {
			r.Violation("non-matching-rule-returned", fmt.Sprintf("rule %s satisfies no selector set of %v but is returned", id, req.MatcherString), c)
		} else {
			r.Violation("unknown-rule-returned", fmt.Sprintf("rule %s was never sent by a replica (selectors %v, replica labels %v)", id, req.MatcherString, rl), c)
		}
	}
}

// allPartialOnly: every selected replica of id satisfies some but not all sets (so an AND-over-sets filter
// explains the loss); false when a replica satisfying every set was lost as well.
func allPartialOnly(id string, ins []inRule, nsets int) bool {
	for _, in := range ins {
		if in.id == id && in.sel && in.sat == nsets {
			return false
		}
	}
	return true
}

// selector sets: all non-empty subsets of size <= maxLen of the first nm matcher symbols per name.
func selectorSets(ops []int, maxLen int) [][]int {
	var syms []int
	for n := range matcherNames {
		for _, o := range ops {
			syms = append(syms, n*len(matcherOps)+o)
		}
	}
	var out [][]int
	for i := range syms {
		out = append(out, []int{syms[i]})
	}
	if maxLen >= 2 {
		for i := range syms {
			for j := i + 1; j < len(syms); j++ {
				out = append(out, []int{syms[i], syms[j]})
			}
		}
	}
	return out
}

func gen(r *vlib.R) iter.Seq[Case] {
	allOps := []int{0, 1, 2, 3, 4, 5, 6, 7}
	nv := vlib.Pick(r, 5, 6)
	return func(yield func(Case) bool) {
		// ---- sweep 0: filter semantics, no replicas ----
		sets := selectorSets(allOps, 2)
		var combos [][][]int
		combos = append(combos, nil)
		for _, s := range sets {
			combos = append(combos, [][]int{s})
		}
		for i, s1 := range sets {
			for j, s2 := range sets {
				if r.Thorough() || i <= j { // quick: unordered pairs of sets
					combos = append(combos, [][]int{s1, s2})
				}
			}
		}
		if r.Thorough() {
			// three sets of one matcher each
			one := selectorSets(allOps, 1)
			for _, s1 := range one {
				for _, s2 := range one {
					for _, s3 := range one {
						combos = append(combos, [][]int{s1, s2, s3})
					}
				}
			}
		}
		for kind := 0; kind < vlib.Pick(r, 1, 2); kind++ { // quick: alerting only here (both kinds in the 2-rule pass)
			for a := 0; a < nv; a++ {
				for b := 0; b < nv; b++ {
					for _, cb := range combos {
						c := Case{Sweep: 0, Rules: []RuleSpec{{Kind: kind, A: a, B: b, Reps: 1}}, Sets: cb, Tag: 1, Layout: 1}
						if !yield(c) {
							return
						}
					}
				}
			}
		}
		// two rules in the group (the filter compacts the slice in place): every pair of label sets, smaller selector space.
		small := selectorSets([]int{0, 1, 3, 6}, 1)
		var combos2 [][][]int
		for _, s := range small {
			combos2 = append(combos2, [][]int{s})
		}
		for _, s1 := range small {
			for _, s2 := range small {
				combos2 = append(combos2, [][]int{s1, s2})
			}
		}
		for v := range vlib.Tuples(4, nv) {
			for k := 0; k < 2; k++ {
				if v[0] == v[2] && v[1] == v[3] && k == 0 {
					continue // two identical rules: that is the dedup sweep
				}
				for _, cb := range combos2 {
					c := Case{Sweep: 0, Rules: []RuleSpec{{Kind: 0, A: v[0], B: v[1], Reps: 1}, {Kind: k, A: v[2], B: v[3], Reps: 1}}, Sets: cb, Tag: 1, Layout: 1}
					if !yield(c) {
						return
					}
				}
			}
		}
		// ---- sweep 1: replicas x replica label lists x layouts x (no | one | two selector sets) ----
		var combos3 [][][]int
		combos3 = append(combos3, nil)
		if !r.Thorough() {
			small = small[:4] // quick: matchers on label a only
		}
		for _, s := range small {
			combos3 = append(combos3, [][]int{s})
		}
		for i, s1 := range small {
			for j, s2 := range small {
				if i < j {
					combos3 = append(combos3, [][]int{s1, s2})
				}
			}
		}
		maxReps := vlib.Pick(r, 3, 4)
		nv1 := vlib.Pick(r, 3, 4)
		for rl := range replicaLabelLists {
			for tag := 0; tag < 3; tag++ {
				for layout := 0; layout < 2; layout++ {
					// one logical rule
					for kind := 0; kind < 2; kind++ {
						for a := 0; a < nv; a++ {
							for b := 0; b < nv; b++ {
								for reps := 1; reps <= maxReps; reps++ {
									for _, cb := range combos3 {
										c := Case{Sweep: 1, Rules: []RuleSpec{{Kind: kind, A: a, B: b, Reps: reps}}, Sets: cb, RL: rl, Tag: tag, Layout: layout}
										if !yield(c) {
											return
										}
									}
								}
							}
						}
					}
					// two logical rules differing in labels and/or kind, each with its own replica count
					for v := range vlib.Tuples(3, nv1) {
						for k := 0; k < 2; k++ {
							if v[0] == v[2] && k == 0 {
								continue
							}
							for reps := range vlib.Tuples(2, maxReps) {
								for _, cb := range combos3 {
									c := Case{Sweep: 1, Rules: []RuleSpec{{Kind: 0, A: v[0], B: v[1], Reps: reps[0] + 1}, {Kind: k, A: v[2], B: v[1], Reps: reps[1] + 1}},
										Sets: cb, RL: rl, Tag: tag, Layout: layout}
									if !yield(c) {
										return
									}
								}
							}
						}
					}
				}
			}
		}
	}
}

func TestCheck(t *testing.T) {
	r := vlib.New(t, "C45")
	defer r.Finish()
	r.Rule("sweep 0: every rule label set over a,b in {absent,x,y,templated...} (1 rule, or 2 rules in one group) x every list of 0..2 (thorough: ..3) " +
		"selector sets built from 16 matcher symbols (all 4 matcher types, empty/non-empty/regex/templated-literal values); " +
		"sweep 1: 1..2 logical rules x 1..3(4) replicas each x replica-label lists {none,[r],[r q]} x replica tagging {r, none, r+q} x delivery layout x 0..2 selector sets. " +
		"Non-trivial = distinct cases where a rule satisfies some but not all selector sets (OR vs AND observable) or where >=2 selected replicas collapse to one rule")
	r.Assume("fake RulesServer delivers rule groups directly (no gRPC transport, no proxy fan-out); selectors never name a configured replica label",
		"which replica's copy survives deduplication (state/evaluation time preference) is not part of the statement and not asserted",
		"'templated' label value = contains a {{ action }}; plain values are non-whitespace text")
	vlib.ForEach(r, gen(r), func(c Case) { eval(r, c) })
}
