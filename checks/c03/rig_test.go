// In-process rig for driving store.ProxyStore.Series: fake store.Clients that stream a scripted sequence
// of frames (optionally failing at a scripted point) and a collecting Store_SeriesServer.
// Everything is deterministic: no sleeps, no timers, no randomness. Real goroutines of the proxy decide
// the interleaving; nothing here depends on it.
package c03

import (
	"context"
	"fmt"
	"io"
	"strings"
	"sync"
	"sync/atomic"

	"github.com/cespare/xxhash/v2"
	"github.com/pkg/errors"
	"github.com/prometheus/prometheus/model/labels"
	"github.com/prometheus/prometheus/tsdb/chunkenc"
	"google.golang.org/grpc"

	"github.com/thanos-io/thanos/pkg/info/infopb"
	"github.com/thanos-io/thanos/pkg/store/labelpb"
	"github.com/thanos-io/thanos/pkg/store/storepb"
)

// ---- label universe -------------------------------------------------------------------------------

// ReplicaLabel is the default replica label name. It sorts before every other label name of the universe
// ("r" < "x" < "y"), so removing it reorders series only when its values differ.
const ReplicaLabel = "r"

// ReplicaNames are the replica label names the replica blocks use: one per position relative to the other
// label names of the universe (x, y). labels.Compare walks label sets position by position, so where the
// replica label sits decides what its removal does to the order:
//
//	"r"  before x and y: order changes only when replica values differ ({r=1,x=2} < {r=2,x=1});
//	"xz" between x and y: as "r" for y, and {x=1,xz=2} > {x=1,xz=1,y=1} while {x=1} < {x=1,y=1};
//	"z"  after x and y: order changes even when every series carries the same value, because a label set
//	     that ends where another continues meets the replica label earlier:
//	     {x=1,y=1,z=1} < {x=1,z=1} ("y" < "z") while {x=1} < {x=1,y=1}.
var ReplicaNames = []string{"r", "xz", "z"}

// finalLabels are the label sets of the universe without the replica label, in labels.Compare order
// (L1 extends L0: a proper-prefix pair).
var finalLabels = [][]string{
	{"x", "1"},
	{"x", "1", "y", "1"},
	{"x", "2"},
}

// lsetN builds label set L carrying the replica labels `names`; r is a base-3 number whose i-th digit is
// the value of names[i] (0 = that label is absent). No names = the single replica label "r".
func lsetN(l, r int, names []string) labels.Labels {
	key := lsetKey{l, r, strings.Join(names, ",")}
	if v, ok := lsetCache.Load(key); ok {
		return v.(labels.Labels).Copy() // a private copy: the code under test may modify what it is given
	}
	v, _ := lsetCache.LoadOrStore(key, buildLset(l, r, names))
	return v.(labels.Labels).Copy()
}

type lsetKey struct {
	l, r  int
	names string
}

var lsetCache sync.Map

func buildLset(l, r int, names []string) labels.Labels {
	kv := append([]string(nil), finalLabels[l]...)
	if len(names) == 0 {
		names = []string{ReplicaLabel}
	}
	for _, n := range names {
		if d := r % 3; d > 0 {
			kv = append(kv, n, fmt.Sprint(d))
		}
		r /= 3
	}
	if r != 0 {
		panic("HARNESS-ERROR replica value out of range")
	}
	return labels.FromStrings(kv...) // FromStrings sorts by name
}

// ---- chunk alphabet -------------------------------------------------------------------------------

const (
	ChC1  = 0 // raw [0,10]
	ChC1h = 1 // the same chunk as c1 (same bytes), Hash field populated by the store
	ChC2  = 2 // raw [11,20]
	ChC3  = 3 // raw [5,15], overlaps c1 and c2
	ChG   = 4 // aggregated (downsampled) chunk [0,10] with count and sum sub-chunks
	ChG2  = 5 // aggregated chunk [0,10]: the same count sub-chunk as g, a different sum (a distinct chunk)
	// ids >= ChUniq are raw chunks that are unique per id, window [1000+10*id, 1000+10*id+9]
	ChUniq = 100
)

func xorData(mint, maxt int64, salt float64) []byte {
	c := chunkenc.NewXORChunk()
	app, err := c.Appender()
	if err != nil {
		panic(err)
	}
	app.Append(mint, salt)
	app.Append(maxt, salt+0.5)
	return c.Bytes()
}

var (
	dataC1   = xorData(0, 10, 1)
	dataC2   = xorData(11, 20, 2)
	dataC3   = xorData(5, 15, 3)
	dataCnt  = xorData(0, 10, 4)
	dataSum  = xorData(0, 10, 5)
	dataSum2 = xorData(0, 10, 6)
)

func rawChunk(data []byte, hash bool) *storepb.Chunk {
	c := &storepb.Chunk{Type: storepb.Chunk_XOR, Data: data}
	if hash {
		c.Hash = xxhash.Sum64(data)
	}
	return c
}

// uniqData returns the (shared, never written) bytes of the unique raw chunk id.
var uniqCache sync.Map

func uniqData(id int) []byte {
	if d, ok := uniqCache.Load(id); ok {
		return d.([]byte)
	}
	lo := int64(1000 + 10*id)
	d, _ := uniqCache.LoadOrStore(id, xorData(lo, lo+9, float64(id)))
	return d.([]byte)
}

// identityOfID is chunkIdentity(mkChunk(id)), memoised.
var identityCache sync.Map

func identityOfID(id int) string {
	if s, ok := identityCache.Load(id); ok {
		return s.(string)
	}
	s, _ := identityCache.LoadOrStore(id, chunkIdentity(mkChunk(id)))
	return s.(string)
}

// mkChunk builds a fresh AggrChunk for a chunk id (the byte slices are shared and never written).
func mkChunk(id int) storepb.AggrChunk {
	switch {
	case id == ChC1:
		return storepb.AggrChunk{MinTime: 0, MaxTime: 10, Raw: rawChunk(dataC1, false)}
	case id == ChC1h:
		return storepb.AggrChunk{MinTime: 0, MaxTime: 10, Raw: rawChunk(dataC1, true)}
	case id == ChC2:
		return storepb.AggrChunk{MinTime: 11, MaxTime: 20, Raw: rawChunk(dataC2, false)}
	case id == ChC3:
		return storepb.AggrChunk{MinTime: 5, MaxTime: 15, Raw: rawChunk(dataC3, false)}
	case id == ChG:
		return storepb.AggrChunk{MinTime: 0, MaxTime: 10, Count: rawChunk(dataCnt, false), Sum: rawChunk(dataSum, false)}
	case id == ChG2:
		return storepb.AggrChunk{MinTime: 0, MaxTime: 10, Count: rawChunk(dataCnt, false), Sum: rawChunk(dataSum2, false)}
	case id >= ChUniq:
		lo := int64(1000 + 10*id)
		return storepb.AggrChunk{MinTime: lo, MaxTime: lo + 9, Raw: rawChunk(uniqData(id), false)}
	}
	panic(fmt.Sprintf("HARNESS-ERROR unknown chunk id %d", id))
}

// chunkIdentity is what makes two chunks "the same chunk": time range and the bytes of every
// sub-chunk. The Hash field is transport metadata and is ignored.
func chunkIdentity(c storepb.AggrChunk) string {
	s := fmt.Sprintf("[%d,%d]", c.MinTime, c.MaxTime)
	for i, f := range []*storepb.Chunk{c.Raw, c.Count, c.Sum, c.Min, c.Max, c.Counter} {
		if f != nil {
			s += fmt.Sprintf("|%d:%d:%x", i, f.Type, f.Data)
		}
	}
	return s
}

func isAggregate(c storepb.AggrChunk) bool { return c.Raw == nil }

// ---- scripted store -------------------------------------------------------------------------------

// Entry is one series message of a store's stream: label set L, replica value(s) R (see lsetN), chunk ids C.
type Entry struct {
	L int   `json:"l"`
	R int   `json:"r"`
	C []int `json:"c"`
}

// StoreSpec scripts one store. E is the stream in the order the store sends it. F cuts it into frames:
// 0 = next entry as a single Series response, k>0 = next k entries in one Batch response; an empty F
// means every entry as a single Series response.
// Fault (C06 only): "" none, "open" = Series() returns an error, "recv" = the At-th Recv (0-based)
// returns an error instead of a frame (At = number of frames: instead of EOF).
type StoreSpec struct {
	E     []Entry  `json:"e"`
	F     []int    `json:"f,omitempty"`
	NoWRL bool     `json:"nowrl,omitempty"` // store cannot strip replica labels
	RL    []string `json:"rl,omitempty"`    // names of the replica labels the entries' R values belong to (none = "r")
	Fault string   `json:"fault,omitempty"`
	At    int      `json:"at,omitempty"`
}

func (s StoreSpec) series(e Entry) *storepb.Series {
	ser := &storepb.Series{Labels: labelpb.ZLabelsFromPromLabels(lsetN(e.L, e.R, s.RL))}
	for _, id := range e.C {
		ser.Chunks = append(ser.Chunks, mkChunk(id))
	}
	return ser
}

// frames builds fresh response objects (the proxy may modify them in place).
func (s StoreSpec) frames() []*storepb.SeriesResponse {
	var out []*storepb.SeriesResponse
	i := 0
	cut := s.F
	if len(cut) == 0 {
		cut = make([]int, len(s.E))
	}
	for _, k := range cut {
		if k == 0 {
			out = append(out, storepb.NewSeriesResponse(s.series(s.E[i])))
			i++
			continue
		}
		var b []*storepb.Series
		for j := 0; j < k; j++ {
			b = append(b, s.series(s.E[i]))
			i++
		}
		out = append(out, storepb.NewBatchResponse(b))
	}
	if i != len(s.E) {
		panic("HARNESS-ERROR frame cut does not cover the stream")
	}
	return out
}

type fakeStore struct {
	name  string
	spec  StoreSpec
	asked atomic.Int32
}

func (c *fakeStore) LabelSets() []labels.Labels         { return nil }
func (c *fakeStore) TimeRange() (int64, int64)          { return -1 << 63, 1<<63 - 1 }
func (c *fakeStore) TSDBInfos() []infopb.TSDBInfo       { return nil }
func (c *fakeStore) SupportsSharding() bool             { return true }
func (c *fakeStore) SupportsWithoutReplicaLabels() bool { return !c.spec.NoWRL }
func (c *fakeStore) String() string                     { return c.name }
func (c *fakeStore) Addr() (string, bool)               { return c.name, false }
func (c *fakeStore) Matches([]*labels.Matcher) bool     { return true }

func (c *fakeStore) errorf(what string) error {
	return errors.Errorf("injected %s failure of %s", what, c.name)
}

func (c *fakeStore) Series(ctx context.Context, _ *storepb.SeriesRequest, _ ...grpc.CallOption) (storepb.Store_SeriesClient, error) {
	c.asked.Add(1)
	if c.spec.Fault == "open" {
		return nil, c.errorf("open")
	}
	st := &stream{ctx: ctx, frames: c.spec.frames(), failAt: -1}
	if c.spec.Fault == "recv" {
		st.failAt = c.spec.At
		st.err = c.errorf("recv")
	}
	return st, nil
}
func (c *fakeStore) LabelNames(context.Context, *storepb.LabelNamesRequest, ...grpc.CallOption) (*storepb.LabelNamesResponse, error) {
	return &storepb.LabelNamesResponse{}, nil
}
func (c *fakeStore) LabelValues(context.Context, *storepb.LabelValuesRequest, ...grpc.CallOption) (*storepb.LabelValuesResponse, error) {
	return &storepb.LabelValuesResponse{}, nil
}

// stream is the Store_SeriesClient of one call. It is used by one receiver goroutine only.
type stream struct {
	grpc.ClientStream
	ctx    context.Context
	frames []*storepb.SeriesResponse
	i      int
	failAt int
	err    error
}

func (s *stream) Recv() (*storepb.SeriesResponse, error) {
	if s.failAt == s.i {
		return nil, s.err
	}
	if s.i >= len(s.frames) {
		return nil, io.EOF
	}
	f := s.frames[s.i]
	s.i++
	return f, nil
}
func (s *stream) Context() context.Context { return s.ctx }
func (s *stream) CloseSend() error         { return nil }

// ---- collecting server ----------------------------------------------------------------------------

type collectServer struct {
	grpc.ServerStream
	ctx      context.Context
	series   []*storepb.Series
	warnings []string
	frames   []int // shape of what was sent: 0 single series, k batch of k, -1 warning, -2 other
}

func (s *collectServer) Context() context.Context { return s.ctx }
func (s *collectServer) Send(r *storepb.SeriesResponse) error {
	switch {
	case r.GetWarning() != "":
		s.warnings = append(s.warnings, r.GetWarning())
		s.frames = append(s.frames, -1)
	case r.GetSeries() != nil:
		s.series = append(s.series, r.GetSeries())
		s.frames = append(s.frames, 0)
	case r.GetBatch() != nil:
		s.series = append(s.series, r.GetBatch().Series...)
		s.frames = append(s.frames, len(r.GetBatch().Series))
	default:
		s.frames = append(s.frames, -2)
	}
	return nil
}
