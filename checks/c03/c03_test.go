// C03 (E4 part): StoreAPI fan-out merge returns each series once, sorted, with all chunks, for every
// retrieval strategy, lazy buffer size and response batch size.
//
// Seam: store.ProxyStore.Series over scripted in-process store.Clients (rig_test.go) and a collecting
// Store_SeriesServer. The schedule dimension of the property (E1, controlled scheduler) is a separate check;
// here real goroutines run and the oracle is schedule independent.
//
// Enumerated (see blocks()): store count 1..5, per store a label-sorted stream over a universe of 3 label
// sets (incl. a proper-prefix pair), the same label set repeated in consecutive entries (series split
// across frames), chunk lists from a menu built from {c1, c1 with Hash set, c2, overlapping c3, aggregated g,
// g2 sharing g's count sub-chunk, nothing}, every cut of the stream into single-series and Batch frames,
// duplicates placed in every store, and stores that can / cannot strip the replica label(s) of the request. The
// replica label name is taken from every position relative to the other label names ("r" before, "xz" between,
// "z" after them; also "r" and "z" together): removal of a leading replica label reorders series only when its
// values differ, removal of a trailing one reorders them even when every series carries the same value (a label
// set that ends where another continues meets the replica label earlier). Every case is run under a set of configurations (eager | lazy with buffer 1..3) x
// (ResponseBatchSize 0..3) and every configuration is compared with the same reference.
//
// Oracle = the statement: flattened response strictly increasing by labels (sorted, each label set once),
// exactly the label sets the stores sent (after replica-label removal), and for each of them exactly the
// distinct chunks (identity = time range + bytes of every sub-chunk) the stores sent, ordered by
// (MinTime, MaxTime). No error, no warning.
package c03

import (
	"context"
	"encoding/json"
	"fmt"
	"iter"
	"sort"
	"strings"
	"testing"
	"testing/synctest"
	"time"

	"github.com/prometheus/prometheus/model/labels"

	"github.com/thanos-io/thanos/pkg/component"
	"github.com/thanos-io/thanos/pkg/store"
	"github.com/thanos-io/thanos/pkg/store/labelpb"
	"github.com/thanos-io/thanos/pkg/store/storepb"

	"verif/vlib"
)

type Case struct {
	Stores []StoreSpec `json:"stores"`
	WRL    bool        `json:"wrl"`          // request WithoutReplicaLabels (= RL, or ["r"] when RL is empty)
	RL     []string    `json:"rl,omitempty"` // names of the replica labels of the request
	CS     string      `json:"cs"`           // configuration set to run the case under
}

type Config struct {
	Lazy  bool
	Buf   int
	Batch int
}

func (c Config) String() string {
	if c.Lazy {
		return fmt.Sprintf("lazy(buf=%d)/batch=%d", c.Buf, c.Batch)
	}
	return fmt.Sprintf("eager/batch=%d", c.Batch)
}

func cross(batches ...int) []Config {
	var out []Config
	for _, b := range batches {
		out = append(out, Config{false, 0, b}, Config{true, 1, b}, Config{true, 2, b}, Config{true, 3, b})
	}
	return out
}

var configSets = map[string][]Config{
	"A":   {{false, 0, 0}, {true, 1, 0}, {true, 2, 2}},
	"A6":  {{false, 0, 0}, {true, 1, 0}, {true, 2, 0}, {false, 0, 2}, {true, 1, 2}, {true, 2, 2}},
	"B12": cross(0, 2, 3),
	"B16": cross(0, 1, 2, 3),
}

// ---- per-store stream enumeration -------------------------------------------------------------------

const uniq = -1 // menu placeholder: a chunk unique to (store, entry)

// framings: every cut of n entries into frames; a part of size 1 is a single Series response (0) or a
// Batch of one (1); larger parts are Batch responses.
func framings(n int) [][]int {
	if n == 0 {
		return [][]int{nil}
	}
	var out [][]int
	for first := 1; first <= n; first++ {
		for _, rest := range framings(n - first) {
			if first == 1 {
				out = append(out, append([]int{0}, rest...))
			}
			out = append(out, append([]int{first}, rest...))
		}
	}
	return out
}

type streamOpts struct {
	maxE     int
	nLabels  int
	menu     [][]int
	framings bool     // all frame cuts (else: single Series responses only)
	noWRL    bool     // the store cannot strip the replica label(s): entries carry each of them with a value in {none,1,2}
	rl       []string // replica label names (nil = "r"), see ReplicaNames in rig_test.go
}

// streams lists every scripted store for the options: every non-decreasing (in labels.Compare order of
// what the store really sends) sequence of 0..maxE entries x menu choice per entry x frame cut.
func streams(o streamOpts) []StoreSpec {
	type lr struct{ l, r int }
	var alpha []lr
	for l := 0; l < o.nLabels; l++ {
		if o.noWRL {
			nr := 3
			for i := 1; i < len(o.rl); i++ {
				nr *= 3
			}
			for r := 0; r < nr; r++ {
				alpha = append(alpha, lr{l, r})
			}
		} else {
			alpha = append(alpha, lr{l, 0})
		}
	}
	sort.Slice(alpha, func(i, j int) bool {
		return labels.Compare(lsetN(alpha[i].l, alpha[i].r, o.rl), lsetN(alpha[j].l, alpha[j].r, o.rl)) < 0
	})
	var out []StoreSpec
	for n := 0; n <= o.maxE; n++ {
		fr := [][]int{nil}
		if o.framings {
			fr = framings(n)
		}
		for seq := range vlib.Multisets(n, len(alpha)) {
			for ms := range vlib.Tuples(n, len(o.menu)) {
				var es []Entry
				for i := range seq {
					es = append(es, Entry{L: alpha[seq[i]].l, R: alpha[seq[i]].r, C: o.menu[ms[i]]})
				}
				for _, f := range fr {
					sp := StoreSpec{E: es, F: f, NoWRL: o.noWRL}
					if o.noWRL {
						sp.RL = o.rl
					}
					out = append(out, sp)
				}
			}
		}
	}
	return out
}

type block struct {
	name string
	k    int
	wrl  bool
	cs   string
	opts []streamOpts // alternatives per store (union)
	rl   []string     // replica label names of the request (nil = "r")
}

var (
	menu7 = [][]int{{}, {ChC1}, {ChC1h, ChC2}, {ChC3}, {ChG}, {ChG2}, {ChC2}}
	menu5 = [][]int{{}, {ChC1}, {ChC1h, ChC2}, {ChG}, {ChC3}}
	menu4 = [][]int{{ChC1}, {ChC1h, ChC2}, {ChG}, {ChC3}}
	menu3 = [][]int{{ChC1}, {ChC2}, {ChG}}
	menuU = [][]int{{uniq}}
	menuR = [][]int{{uniq}, {ChC1}}
)

func blocks(thorough bool) []block {
	so := func(maxE, nl int, menu [][]int, fr bool) []streamOpts {
		return []streamOpts{{maxE: maxE, nLabels: nl, menu: menu, framings: fr}}
	}
	// replica block: every store either strips the replica label(s) rl itself or cannot.
	rep := func(name string, k int, cs string, maxE int, menu [][]int, rl ...string) block {
		return block{name, k, true, cs, []streamOpts{{maxE: maxE, nLabels: 3, menu: menu}, {maxE: maxE, nLabels: 3, menu: menu, noWRL: true, rl: rl}}, rl}
	}
	if !thorough {
		return []block{
			{"content-1", 1, false, "A6", so(3, 3, menu7, false), nil},
			{"content-2", 2, false, "A", so(2, 3, menu7, false), nil},
			{"content-3", 3, false, "A", so(1, 3, menu7, false), nil},
			{"content-4", 4, false, "A", so(1, 2, menu3, false), nil},
			{"content-5", 5, false, "A", so(1, 2, menu3, false), nil},
			{"framing-1", 1, false, "B16", so(4, 3, menuU, true), nil},
			{"framing-2", 2, false, "B12", so(3, 3, menuU, true), nil},
			{"framing-3", 3, false, "B12", so(2, 2, menuU, true), nil},
			rep("replica-1", 1, "A6", 3, menuR),
			rep("replica-1/xz", 1, "A6", 3, menuR, "xz"),
			rep("replica-1/z", 1, "A6", 3, menuR, "z"),
			rep("replica-1/r+z", 1, "A6", 2, menuR, "r", "z"),
			rep("replica-2", 2, "A", 2, menuR),
			rep("replica-2/z", 2, "A", 2, menuR, "z"),
			rep("replica-2/r+z", 2, "A", 1, menuR, "r", "z"),
		}
	}
	return []block{
		{"content-1", 1, false, "B16", so(4, 3, menu7, false), nil},
		{"content-2", 2, false, "A", so(3, 3, menu5, false), nil},
		{"content-2w", 2, false, "A6", so(2, 3, menu7, false), nil},
		{"content-3", 3, false, "A", so(2, 3, menu4, false), nil},
		{"content-4", 4, false, "A", so(1, 3, menu4, false), nil},
		{"content-5", 5, false, "A", so(1, 3, menu3, false), nil},
		{"framing-1", 1, false, "B16", so(5, 3, menuU, true), nil},
		{"framing-2", 2, false, "B16", so(4, 3, menuU, true), nil},
		{"framing-3", 3, false, "B16", so(2, 3, menuU, true), nil},
		{"framing-4", 4, false, "B12", so(1, 3, menuU, true), nil},
		rep("replica-1", 1, "B12", 4, menuR),
		rep("replica-1/xz", 1, "B12", 4, menuR, "xz"),
		rep("replica-1/z", 1, "B12", 4, menuR, "z"),
		rep("replica-1/r+z", 1, "B12", 3, menuR, "r", "z"),
		rep("replica-2", 2, "A", 3, menuR),
		rep("replica-2/xz", 2, "A", 2, menuR, "xz"),
		rep("replica-2/z", 2, "A6", 2, menuR, "z"),
		rep("replica-2u/z", 2, "A", 3, menuU, "z"),
		rep("replica-2/r+z", 2, "A6", 1, menuR, "r", "z"),
		rep("replica-3", 3, "A", 1, menuR),
		rep("replica-3/z", 3, "A", 1, menuR, "z"),
	}
}

func gen(r *vlib.R) iter.Seq[Case] {
	return func(yield func(Case) bool) {
		for _, b := range blocks(r.Thorough()) {
			var list []StoreSpec
			for _, o := range b.opts {
				list = append(list, streams(o)...)
			}
			n := int64(1)
			for i := 0; i < b.k; i++ {
				n *= int64(len(list))
			}
			r.Set("block_"+b.name, fmt.Sprintf("%d stores x %d scripted streams each = %d cases x %d configurations", b.k, len(list), n, len(configSets[b.cs])))
			for idx := range vlib.Tuples(b.k, len(list)) {
				c := Case{WRL: b.wrl, RL: b.rl, CS: b.cs}
				for s, li := range idx {
					sp := list[li]
					// give placeholders a chunk id unique to (store, entry)
					es := make([]Entry, len(sp.E))
					for i, e := range sp.E {
						es[i] = Entry{L: e.L, R: e.R, C: append([]int{}, e.C...)}
						for j, id := range es[i].C {
							if id == uniq {
								es[i].C[j] = ChUniq + 8*s + i
							}
						}
					}
					sp.E = es
					c.Stores = append(c.Stores, sp)
				}
				if !yield(c) {
					return
				}
			}
		}
	}
}

// ---- reference model --------------------------------------------------------------------------------

type expSeries struct {
	lset   labels.Labels
	chunks map[string]bool // identities
}

// replicaNames are the label names the request asks to be removed.
func (c Case) replicaNames() []string {
	if !c.WRL {
		return nil
	}
	if len(c.RL) == 0 {
		return []string{ReplicaLabel}
	}
	return c.RL
}

// finalLset is the label set a series message must appear under in the response: what the store sent minus the
// replica labels of the request.
func finalLset(c Case, st StoreSpec, e Entry) labels.Labels {
	return labels.NewBuilder(lsetN(e.L, e.R, st.RL)).Del(c.replicaNames()...).Labels()
}

// resortNeeded reports whether some store that cannot strip the replica labels sends a stream that is no longer
// sorted once they are removed, and whether that happens although all its series carry the same replica values.
func resortNeeded(c Case) (needed, constant bool) {
	if !c.WRL {
		return false, false
	}
	for _, st := range c.Stores {
		if !st.NoWRL {
			continue
		}
		unsorted, same := false, true
		for i := 1; i < len(st.E); i++ {
			if labels.Compare(finalLset(c, st, st.E[i-1]), finalLset(c, st, st.E[i])) > 0 {
				unsorted = true
			}
			if st.E[i].R != st.E[0].R {
				same = false
			}
		}
		needed = needed || unsorted
		constant = constant || (unsorted && same)
	}
	return needed, constant
}

// reference: label set (replica labels removed when the request asks for it) -> distinct chunks sent.
func reference(c Case) []*expSeries {
	m := map[string]*expSeries{}
	for _, st := range c.Stores {
		for _, e := range st.E {
			ls := finalLset(c, st, e)
			k := ls.String()
			if m[k] == nil {
				m[k] = &expSeries{lset: ls, chunks: map[string]bool{}}
			}
			for _, id := range e.C {
				m[k].chunks[identityOfID(id)] = true
			}
		}
	}
	out := make([]*expSeries, 0, len(m))
	for _, v := range m {
		out = append(out, v)
	}
	sort.Slice(out, func(i, j int) bool { return labels.Compare(out[i].lset, out[j].lset) < 0 })
	return out
}

// ---- driving the proxy ------------------------------------------------------------------------------

func runProxy(c Case, cfg Config) (*collectServer, error) {
	clients := make([]store.Client, len(c.Stores))
	for i, sp := range c.Stores {
		clients[i] = &fakeStore{name: fmt.Sprintf("store-%d", i), spec: sp}
	}
	strategy := store.EagerRetrieval
	if cfg.Lazy {
		strategy = store.LazyRetrieval
	}
	p := store.NewProxyStore(nil, nil, func() []store.Client { return clients }, component.Query, labels.EmptyLabels(),
		0*time.Second, strategy, store.WithLazyRetrievalMaxBufferedResponsesForProxy(cfg.Buf))
	req := &storepb.SeriesRequest{
		MinTime: -1 << 63,
		MaxTime: 1<<63 - 1,
		// x!="" selects every series of the universe (a regexp matcher would be compiled anew in every call).
		Matchers:          []storepb.LabelMatcher{{Type: storepb.LabelMatcher_NEQ, Name: "x", Value: ""}},
		ResponseBatchSize: int64(cfg.Batch),
	}
	req.WithoutReplicaLabels = c.replicaNames()
	srv := &collectServer{ctx: context.Background()}
	err := p.Series(req, srv)
	return srv, err
}

func TestCheck(t *testing.T) {
	r := vlib.New(t, "C03")
	defer r.Finish()
	r.Rule("blocks (sizes in coverage.block_*): content-k = k stores x label-sorted streams x chunk-list menu per entry; framing-k = k stores x streams of unique chunks x every cut into " +
		"Series/Batch frames; replica-k[/names] = request without the replica label(s) (default r; xz, z, r+z: the name sorts before / between / after the other label names x, y), k stores that either strip them themselves or cannot and send every series with each replica label in {absent,1,2} (proxy strips and re-sorts; coverage.cases_resort_needed* count the cases in which that store's stream is unsorted after stripping, in total and with one constant replica value on all its series). Each case is run under every configuration of its " +
		"set (eager | lazy buf 1..3) x (ResponseBatchSize 0..3). Non-trivial = distinct case in which some output label set is sent in >= 2 entries (split across frames or duplicated across stores), " +
		"i.e. the merge really has to join something")
	r.Assume("stores obey the StoreAPI contract: label-sorted streams, all data of a series in consecutive messages; stores that support WithoutReplicaLabels send already stripped and re-sorted series",
		"two chunks are the same chunk iff time range and the bytes of every sub-chunk are equal (the Hash field is ignored)",
		"goroutine interleavings are whatever the Go scheduler picks (E1 part of C03 explores them); the oracle does not depend on them")

	vlib.ForEach(r, gen(r), func(c Case) {
		r.Sample(c)
		cfgs, ok := configSets[c.CS]
		if !ok {
			t.Fatalf("HARNESS-ERROR unknown config set %q", c.CS)
		}
		ref := reference(c)
		entries := 0
		for _, st := range c.Stores {
			entries += len(st.E)
		}
		if entries > len(ref) {
			b, _ := json.Marshal(c.Stores)
			r.Nontrivial(fmt.Sprint(c.WRL, c.RL, string(b)))
		}
		if resort, constant := resortNeeded(c); resort {
			r.Add("cases_resort_needed", 1)
			if constant {
				r.Add("cases_resort_needed_with_constant_replica_values", 1)
			}
		}
		for _, cfg := range cfgs {
			// Inside a synctest bubble a deadlock of the proxy's goroutines (every goroutine durably blocked, no
			// timer pending) is reported deterministically as a panic instead of hanging the check.
			var srv *collectServer
			var err error
			dead := ""
			func() {
				defer func() {
					if p := recover(); p != nil {
						dead = fmt.Sprint(p)
					}
				}()
				synctest.Test(t, func(t *testing.T) { srv, err = runProxy(c, cfg) })
			}()
			if dead != "" {
				if !strings.Contains(dead, "deadlock") {
					panic(dead)
				}
				r.Violation("series-call-deadlocks", fmt.Sprintf("[%s] Series never returns: %s", cfg, dead), c)
				continue
			}
			compare(r, c, cfg, ref, srv, err)
		}
		r.Add("proxy_series_calls", int64(len(cfgs)))
	})
}

func compare(r *vlib.R, c Case, cfg Config, ref []*expSeries, srv *collectServer, err error) {
	vio := func(sig, format string, a ...any) {
		r.Violation(sig, fmt.Sprintf("[%s] ", cfg)+fmt.Sprintf(format, a...), c)
	}
	if err != nil {
		vio("series-call-failed", "Series returned %v", err)
		return
	}
	if len(srv.warnings) > 0 {
		vio("unexpected-warning", "warnings %v", srv.warnings)
	}
	got := map[string]*storepb.Series{}
	var prev labels.Labels
	for i, s := range srv.series {
		ls := labelpb.ZLabelsToPromLabels(s.Labels).Copy()
		if i > 0 {
			switch d := labels.Compare(prev, ls); {
			case d == 0:
				vio("label-set-listed-twice", "%s appears twice in the response", ls)
			case d > 0:
				vio("response-not-sorted", "%s after %s", ls, prev)
			}
		}
		prev = ls
		got[ls.String()] = s
	}
	for _, e := range ref {
		if got[e.lset.String()] == nil {
			vio("series-missing", "%s was sent by a store but is not in the response", e.lset)
		}
	}
	exp := map[string]*expSeries{}
	for _, e := range ref {
		exp[e.lset.String()] = e
	}
	for _, s := range srv.series {
		ls := labelpb.ZLabelsToPromLabels(s.Labels)
		e := exp[ls.String()]
		if e == nil {
			vio("unexpected-series", "%s is in the response but no store sent it", ls)
			continue
		}
		seen := map[string]bool{}
		for i, ch := range s.Chunks {
			id := chunkIdentity(ch)
			if !e.chunks[id] {
				vio("unexpected-chunk", "%s carries chunk %s that no store sent", ls, id)
			}
			if seen[id] {
				if isAggregate(ch) {
					vio("identical-aggregate-chunk-not-deduplicated", "%s carries aggregated chunk [%d,%d] twice", ls, ch.MinTime, ch.MaxTime)
				} else {
					vio("identical-raw-chunk-not-deduplicated", "%s carries raw chunk [%d,%d] twice", ls, ch.MinTime, ch.MaxTime)
				}
			}
			seen[id] = true
			if i > 0 {
				p := s.Chunks[i-1]
				if p.MinTime > ch.MinTime || (p.MinTime == ch.MinTime && p.MaxTime > ch.MaxTime) {
					vio("chunks-not-ordered-by-time", "%s chunk [%d,%d] after [%d,%d]", ls, ch.MinTime, ch.MaxTime, p.MinTime, p.MaxTime)
				}
			}
		}
		for id := range e.chunks {
			if !seen[id] {
				vio("chunk-missing", "%s lost chunk %s", ls, id)
			}
		}
	}
}
