#!/bin/bash
# Runs the thorough tier of the given checks one after the other (low priority) and keeps a copy of each evidence
# file under evidence/thorough/. Usage: ./thorough_sweep.sh C01 C02 ...
cd /verif
mkdir -p evidence/thorough
for id in "$@"; do
  t0=$(date +%s)
  nice -n 5 ./check $id --tier thorough > /var/tmp/thorough-$id.log 2>&1
  rc=$?
  t1=$(date +%s)
  echo "$id exit=$rc wall=$((t1-t0))s $(grep -E "tier=thorough" /var/tmp/thorough-$id.log | tail -1 | cut -c1-220)" >> /var/tmp/thorough.log
  if [ $rc -eq 0 ]; then cp evidence/$id.json evidence/thorough/$id.json; fi
done
echo DONE >> /var/tmp/thorough.log
