//go:build verif

package indexheader

// VerifCloseIdleReaders runs one sweep of the pool's idle-reader unloading.
func VerifCloseIdleReaders(p *ReaderPool) { p.closeIdleReaders() }

// VerifIsUnloadedWhileLoading reports whether err is the clean "unloaded while loading" error.
func VerifIsUnloadedWhileLoading(err error) bool { return err == errUnloadedWhileLoading }

// VerifLoaded reports whether the lazy reader currently holds a loaded header (caller guarantees quiescence).
func VerifLoaded(r Reader) bool {
	lr, ok := r.(*LazyBinaryReader)
	return ok && lr.reader != nil
}
