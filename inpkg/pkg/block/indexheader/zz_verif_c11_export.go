//go:build verif

package indexheader

import "github.com/prometheus/prometheus/tsdb/index"

// VerifC11WrapBytes replaces the byte source that the lookups of a loaded reader decode from (the index-header bytes in
// memory / the mmapped file) by wrap(source), so that a check can count reads (step budget against lookups that never
// finish). It reports false when r holds no loaded BinaryReader.
func VerifC11WrapBytes(r Reader, wrap func(index.ByteSlice) index.ByteSlice) bool {
	switch x := r.(type) {
	case *BinaryReader:
		x.b = wrap(x.b)
		return true
	case *LazyBinaryReader:
		x.readerMx.Lock()
		defer x.readerMx.Unlock()
		if x.reader == nil {
			return false
		}
		x.reader.b = wrap(x.reader.b)
		return true
	}
	return false
}
