//go:build verif

package block

import (
	"github.com/oklog/ulid/v2"

	"github.com/thanos-io/thanos/pkg/block/metadata"
)

// VerifC31FilterGroup runs the unexported filterGroup on the slice exactly as given (this is where the
// listing order of a compaction group enters the duplicate filter) and returns the ids it reports.
func VerifC31FilterGroup(f *DefaultDeduplicateFilter, group []*metadata.Meta) []ulid.ULID {
	ch := make(chan ulid.ULID)
	go func() {
		defer close(ch)
		f.filterGroup(group, ch)
	}()
	var out []ulid.ULID
	for id := range ch {
		out = append(out, id)
	}
	return out
}
