//go:build verif

package compact

import (
	"github.com/go-kit/log"
	"github.com/oklog/ulid/v2"

	"github.com/thanos-io/thanos/pkg/block/metadata"
)

// VerifC30NewPlanner builds the production planner (what NewPlanner returns) with the set of
// no-compact marked blocks supplied directly instead of through a GatherNoCompactionMarkFilter.
func VerifC30NewPlanner(ranges []int64, marked func() map[ulid.ULID]*metadata.NoCompactMark) *tsdbBasedPlanner {
	return &tsdbBasedPlanner{logger: log.NewNopLogger(), ranges: ranges, noCompBlocksFunc: marked}
}
