//go:build verif

package downsample

import (
	"errors"

	"github.com/prometheus/prometheus/tsdb/chunks"
)

// VerifC38DownsampleAggr calls the unexported downsampleAggr the way Downsample() does for one series of an
// already downsampled block.
func VerifC38DownsampleAggr(chks []*AggrChunk, mint, maxt, inRes, outRes int64) ([]chunks.Meta, error) {
	var (
		buf []sample
		res []chunks.Meta
	)
	err := downsampleAggr(chks, &buf, mint, maxt, inRes, outRes, &res)
	return res, err
}

var errVerifC38EmptyBatch = errors.New("verif: downsampleAggrLoop handed an empty batch to its batch function")

// VerifC38AggrLoopStalls runs the real downsampleAggrLoop over chks with the chunk target that downsampleAggr
// derives for them (real targetChunkCount over the real NumSamples) and the real float batch function, using
// the loop's own batch-function parameter as the seam: the wrapper aborts the call the first time the loop
// hands it an EMPTY batch. An empty batch consumes no input chunk and the loop has no other exit, so this is
// exactly the condition under which the loop never terminates; it is decided without any clock or step budget.
func VerifC38AggrLoopStalls(chks []*AggrChunk, mint, maxt, inRes, outRes int64) (stalled bool, numChunks int) {
	numSamples := 0
	for _, c := range chks {
		numSamples += c.NumSamples()
	}
	numChunks = targetChunkCount(mint, maxt, inRes, outRes, numSamples)
	var buf []sample
	defer func() {
		if p := recover(); p != nil {
			if p == errVerifC38EmptyBatch {
				stalled = true
				return
			}
			panic(p)
		}
	}()
	_, _ = downsampleAggrLoop(chks, &buf, outRes, numChunks, func(part []*AggrChunk, buf *[]sample, resolution int64) (chunks.Meta, error) {
		if len(part) == 0 {
			panic(errVerifC38EmptyBatch)
		}
		return downsampleFloatAggrBatch(part, buf, resolution)
	})
	return false, numChunks
}
