//go:build verif

package downsample

import "github.com/prometheus/prometheus/tsdb/chunks"

// VerifC37DownsampleAggr calls the unexported downsampleAggr the way Downsample() does for one series of an
// already downsampled block (fresh sample buffer, fresh result slice).
func VerifC37DownsampleAggr(chks []*AggrChunk, mint, maxt, inRes, outRes int64) ([]chunks.Meta, error) {
	var (
		buf []sample
		res []chunks.Meta
	)
	err := downsampleAggr(chks, &buf, mint, maxt, inRes, outRes, &res)
	return res, err
}
