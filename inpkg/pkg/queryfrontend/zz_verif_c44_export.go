//go:build verif

package queryfrontend

import (
	"net/http"
	"time"

	"github.com/go-kit/log"
	prommodel "github.com/prometheus/common/model"

	"github.com/thanos-io/thanos/internal/cortex/frontend/transport"
	cortexvalidation "github.com/thanos-io/thanos/internal/cortex/util/validation"
)

// VerifC44Tripperware builds the frontend tripperware with the product's default settings and vertical
// sharding into numShards (0 = sharding middleware absent), without a results cache.
func VerifC44Tripperware(numShards int, down http.RoundTripper) (http.RoundTripper, error) {
	limits := func() *cortexvalidation.Limits {
		return &cortexvalidation.Limits{MaxQueryParallelism: 14, MaxCacheFreshness: prommodel.Duration(time.Minute)}
	}
	cfg := Config{
		CortexHandlerConfig: &transport.HandlerConfig{},
		QueryRangeConfig: QueryRangeConfig{
			PartialResponseStrategy: true,
			AlignRangeWithStep:      true,
			RequestDownsampled:      true,
			SplitQueriesByInterval:  24 * time.Hour,
			MaxRetries:              5,
			Limits:                  limits(),
		},
		QueryInstantConfig: QueryInstantConfig{MaxRetries: 5},
		LabelsConfig: LabelsConfig{
			PartialResponseStrategy: true,
			DefaultTimeRange:        24 * time.Hour,
			SplitQueriesByInterval:  24 * time.Hour,
			MaxRetries:              5,
			Limits:                  limits(),
		},
		NumShards:     numShards,
		DownstreamURL: "http://downstream",
	}
	if err := cfg.Validate(); err != nil {
		return nil, err
	}
	tw, err := NewTripperware(cfg, nil, log.NewNopLogger())
	if err != nil {
		return nil, err
	}
	return tw(down), nil
}
