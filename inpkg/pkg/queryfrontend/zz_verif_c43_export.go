//go:build verif

package queryfrontend

import (
	"bytes"
	"context"
	"io"
	"net/http"
	"net/url"
	"time"

	"github.com/go-kit/log"
	"github.com/prometheus/common/model"
	"github.com/weaveworks/common/user"

	cortexcache "github.com/thanos-io/thanos/internal/cortex/chunk/cache"
	"github.com/thanos-io/thanos/internal/cortex/frontend/transport"
	"github.com/thanos-io/thanos/internal/cortex/querier/queryrange"
	"github.com/thanos-io/thanos/internal/cortex/tenant"
	cortexvalidation "github.com/thanos-io/thanos/internal/cortex/util/validation"
)

var (
	verifC43RangeCodec  = NewThanosQueryRangeCodec(false)
	verifC43LabelsCodec = NewThanosLabelsCodec(false, 0)
	verifC43KeyGen      = newThanosCacheKeyGenerator()
)

// VerifC43Key is VerifC43Keys without the alternative keys.
func VerifC43Key(orgID, path string, form url.Values, split time.Duration) (key string, cacheable bool, err error) {
	key, _, cacheable, err = VerifC43Keys(orgID, path, form, split)
	return key, cacheable, err
}

// VerifC43Keys does what the frontend does with one HTTP request up to the cache keys: the org id (value
// of the tenant header, injected by cmd/thanos) is resolved with the real tenant resolver, the request is
// decoded with the real codec, shouldCache is consulted, the split interval is attached as the split
// middleware does, and the real key generator is called with the joined tenant ids, like resultsCache.Do:
// GenerateCacheKey for the key the entry is read and written under, GenerateCacheKeyAlternatives (if the
// generator has it, like resultsCache.generateAlternativeCacheKeys) for the keys looked up on a miss.
func VerifC43Keys(orgID, path string, form url.Values, split time.Duration) (key string, alternatives []string, cacheable bool, err error) {
	ctx := user.InjectOrgID(context.Background(), orgID)
	ids, err := tenant.TenantIDs(ctx)
	if err != nil {
		return "", nil, false, err
	}
	hr, err := http.NewRequestWithContext(ctx, http.MethodGet, "http://fe"+path+"?"+form.Encode(), nil)
	if err != nil {
		return "", nil, false, err
	}
	var req queryrange.Request
	if getOperation(hr) == rangeQueryOp {
		req, err = verifC43RangeCodec.DecodeRequest(ctx, hr, nil)
	} else {
		req, err = verifC43LabelsCodec.DecodeRequest(ctx, hr, nil)
	}
	if err != nil {
		return "", nil, false, err
	}
	if !shouldCache(req) {
		return "", nil, false, nil
	}
	req = req.(SplitRequest).WithSplitInterval(split)
	userID := tenant.JoinTenantIDs(ids)
	if alt, ok := any(verifC43KeyGen).(queryrange.AlternativeCacheSplitter); ok {
		alternatives = alt.GenerateCacheKeyAlternatives(userID, req)
	}
	return verifC43KeyGen.GenerateCacheKey(userID, req), alternatives, true, nil
}

// VerifC43Frontend is the real frontend tripperware (NewTripperware: codecs, split by interval, results cache
// middleware with the real key generator, for range and for labels/series requests) over fresh in-memory FIFO
// results caches and a caller-supplied downstream.
type VerifC43Frontend struct {
	rt http.RoundTripper
}

// VerifC43NewFrontend wires the tripperware. downstream plays the querier: it gets the org id header, the path
// and the form of every forwarded request and returns status and JSON body.
func VerifC43NewFrontend(split time.Duration, downstream func(orgID, path string, form url.Values) (int, []byte)) (*VerifC43Frontend, error) {
	limits := &cortexvalidation.Limits{
		MaxQueryLength:      model.Duration(7 * 24 * time.Hour),
		MaxQueryParallelism: 14,
		MaxCacheFreshness:   model.Duration(time.Minute),
	}
	cacheConf := func() *queryrange.ResultsCacheConfig {
		return &queryrange.ResultsCacheConfig{CacheConfig: cortexcache.Config{
			EnableFifoCache: true,
			Fifocache:       cortexcache.FifoCacheConfig{MaxSizeBytes: "1MiB", MaxSizeItems: 1000, Validity: time.Hour},
		}}
	}
	tpw, err := NewTripperware(Config{
		CortexHandlerConfig: &transport.HandlerConfig{},
		QueryRangeConfig:    QueryRangeConfig{Limits: limits, ResultsCacheConfig: cacheConf(), SplitQueriesByInterval: split},
		LabelsConfig:        LabelsConfig{Limits: limits, ResultsCacheConfig: cacheConf(), SplitQueriesByInterval: split},
	}, nil, log.NewNopLogger())
	if err != nil {
		return nil, err
	}
	next := queryrange.RoundTripFunc(func(r *http.Request) (*http.Response, error) {
		if err := r.ParseForm(); err != nil {
			return nil, err
		}
		code, body := downstream(r.Header.Get(user.OrgIDHeaderName), r.URL.Path, r.Form)
		return &http.Response{
			StatusCode:    code,
			Header:        http.Header{"Content-Type": []string{"application/json"}},
			Body:          io.NopCloser(bytes.NewReader(body)),
			ContentLength: int64(len(body)),
		}, nil
	})
	return &VerifC43Frontend{rt: tpw(next)}, nil
}

// Do sends one HTTP request of the given org id through the tripperware and returns status and body.
func (f *VerifC43Frontend) Do(orgID, path string, form url.Values) (int, []byte, error) {
	ctx := user.InjectOrgID(context.Background(), orgID)
	hr, err := http.NewRequestWithContext(ctx, http.MethodGet, "http://fe"+path+"?"+form.Encode(), nil)
	if err != nil {
		return 0, nil, err
	}
	resp, err := f.rt.RoundTrip(hr)
	if err != nil {
		return 0, nil, err
	}
	defer resp.Body.Close()
	body, err := io.ReadAll(resp.Body)
	return resp.StatusCode, body, err
}
