//go:build verif

package queryfrontend

import (
	"context"
	"net/http"
	"net/url"
	"time"

	"github.com/weaveworks/common/user"

	"github.com/thanos-io/thanos/internal/cortex/querier/queryrange"
	"github.com/thanos-io/thanos/internal/cortex/tenant"
)

var (
	verifC43RangeCodec  = NewThanosQueryRangeCodec(false)
	verifC43LabelsCodec = NewThanosLabelsCodec(false, 0)
	verifC43KeyGen      = newThanosCacheKeyGenerator()
)

// VerifC43Key does what the frontend does with one HTTP request up to the cache key: the org id (value
// of the tenant header, injected by cmd/thanos) is resolved with the real tenant resolver, the request is
// decoded with the real codec, shouldCache is consulted, the split interval is attached as the split
// middleware does, and the real key generator is called with the joined tenant ids, like resultsCache.Do.
func VerifC43Key(orgID, path string, form url.Values, split time.Duration) (key string, cacheable bool, err error) {
	ctx := user.InjectOrgID(context.Background(), orgID)
	ids, err := tenant.TenantIDs(ctx)
	if err != nil {
		return "", false, err
	}
	hr, err := http.NewRequestWithContext(ctx, http.MethodGet, "http://fe"+path+"?"+form.Encode(), nil)
	if err != nil {
		return "", false, err
	}
	var req queryrange.Request
	if getOperation(hr) == rangeQueryOp {
		req, err = verifC43RangeCodec.DecodeRequest(ctx, hr, nil)
	} else {
		req, err = verifC43LabelsCodec.DecodeRequest(ctx, hr, nil)
	}
	if err != nil {
		return "", false, err
	}
	if !shouldCache(req) {
		return "", false, nil
	}
	req = req.(SplitRequest).WithSplitInterval(split)
	return verifC43KeyGen.GenerateCacheKey(tenant.JoinTenantIDs(ids), req), true, nil
}
