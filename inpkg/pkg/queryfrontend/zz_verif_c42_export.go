//go:build verif

package queryfrontend

import (
	"context"
	"fmt"
	"net/http"
	"sort"
	"sync"
	"time"

	"github.com/go-kit/log"
	"github.com/gogo/protobuf/proto"
	prommodel "github.com/prometheus/common/model"

	cortexcache "github.com/thanos-io/thanos/internal/cortex/chunk/cache"
	"github.com/thanos-io/thanos/internal/cortex/frontend/transport"
	"github.com/thanos-io/thanos/internal/cortex/querier/queryrange"
	cortexvalidation "github.com/thanos-io/thanos/internal/cortex/util/validation"
)

// VerifC42Cache is the real in-memory FIFO cache of the results cache with a recorder in front of Store, so
// that the check can snapshot the cache content (= the whole state of the frontend) and put it back.
type VerifC42Cache struct {
	mu    sync.Mutex
	inner *cortexcache.FifoCache
	data  map[string][]byte
}

func verifC42Fifo() *cortexcache.FifoCache {
	return cortexcache.NewFifoCache("verif", cortexcache.FifoCacheConfig{MaxSizeBytes: "64MiB", MaxSizeItems: 100000}, nil, log.NewNopLogger())
}

func VerifC42NewCache() *VerifC42Cache {
	return &VerifC42Cache{inner: verifC42Fifo(), data: map[string][]byte{}}
}

func (c *VerifC42Cache) Store(ctx context.Context, keys []string, bufs [][]byte) {
	c.mu.Lock()
	for i, k := range keys {
		c.data[k] = append([]byte(nil), bufs[i]...)
	}
	c.mu.Unlock()
	c.inner.Store(ctx, keys, bufs)
}

func (c *VerifC42Cache) Fetch(ctx context.Context, keys []string) ([]string, [][]byte, []string) {
	return c.inner.Fetch(ctx, keys)
}

func (c *VerifC42Cache) Stop() {}

// Snapshot returns what has been stored (hashed key -> marshalled CachedResponse).
func (c *VerifC42Cache) Snapshot() map[string][]byte {
	c.mu.Lock()
	defer c.mu.Unlock()
	out := make(map[string][]byte, len(c.data))
	for k, v := range c.data {
		out[k] = v
	}
	return out
}

// Restore replaces the cache content by a snapshot (fresh FIFO cache filled through its Store).
func (c *VerifC42Cache) Restore(s map[string][]byte) {
	c.mu.Lock()
	defer c.mu.Unlock()
	c.inner = verifC42Fifo()
	c.data = make(map[string][]byte, len(s))
	for k, v := range s {
		c.data[k] = v
		c.inner.Store(context.Background(), []string{k}, [][]byte{v})
	}
}

// VerifC42DescribeState decodes a snapshot into "key [start,end] [start,end]..." lines (diagnostics only).
func VerifC42DescribeState(s map[string][]byte) []string {
	var out []string
	for _, v := range s {
		var cr queryrange.CachedResponse
		if err := proto.Unmarshal(v, &cr); err != nil {
			out = append(out, "undecodable: "+err.Error())
			continue
		}
		l := cr.Key
		for _, e := range cr.Extents {
			l += fmt.Sprintf(" [%d,%d]", e.Start, e.End)
		}
		out = append(out, l)
	}
	sort.Strings(out)
	return out
}

// VerifC42Tripperware builds the frontend tripperware with the product's default query-range settings
// (cmd/thanos/query_frontend.go) and the given split interval; cache == nil leaves the results cache out.
func VerifC42Tripperware(cache *VerifC42Cache, split time.Duration, down http.RoundTripper) (http.RoundTripper, error) {
	return VerifC42TripperwareAlign(cache, split, true, down)
}

// VerifC42TripperwareAlign is VerifC42Tripperware with --query-range.align-range-with-step given.
func VerifC42TripperwareAlign(cache *VerifC42Cache, split time.Duration, align bool, down http.RoundTripper) (http.RoundTripper, error) {
	limits := func() *cortexvalidation.Limits {
		return &cortexvalidation.Limits{MaxQueryParallelism: 14, MaxCacheFreshness: prommodel.Duration(time.Minute)}
	}
	cfg := Config{
		CortexHandlerConfig: &transport.HandlerConfig{},
		QueryRangeConfig: QueryRangeConfig{
			PartialResponseStrategy: true,
			AlignRangeWithStep:      align,
			RequestDownsampled:      true,
			SplitQueriesByInterval:  split,
			MaxRetries:              5,
			Limits:                  limits(),
		},
		LabelsConfig: LabelsConfig{
			PartialResponseStrategy: true,
			DefaultTimeRange:        24 * time.Hour,
			SplitQueriesByInterval:  24 * time.Hour,
			MaxRetries:              5,
			Limits:                  limits(),
		},
		DownstreamURL: "http://downstream",
	}
	if cache != nil {
		cfg.QueryRangeConfig.ResultsCacheConfig = &queryrange.ResultsCacheConfig{CacheConfig: cortexcache.Config{Cache: cache}}
	}
	if err := cfg.Validate(); err != nil {
		return nil, err
	}
	tw, err := NewTripperware(cfg, nil, log.NewNopLogger())
	if err != nil {
		return nil, err
	}
	return tw(down), nil
}
