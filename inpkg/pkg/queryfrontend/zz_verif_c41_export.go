//go:build verif

package queryfrontend

import (
	"context"
	"sync"
	"time"

	"github.com/weaveworks/common/user"

	"github.com/thanos-io/thanos/internal/cortex/querier/queryrange"
)

// VerifC41Sub is one sub-request produced by the split (plain data for the check).
type VerifC41Sub struct {
	Start, End, Step int64
	SplitInterval    time.Duration
	Kind             string // "range", "labels", "series"
}

func verifC41Sub(r queryrange.Request) VerifC41Sub {
	s := VerifC41Sub{Start: r.GetStart(), End: r.GetEnd(), Step: r.GetStep()}
	switch t := r.(type) {
	case *ThanosQueryRangeRequest:
		s.Kind, s.SplitInterval = "range", t.SplitInterval
	case *ThanosLabelsRequest:
		s.Kind, s.SplitInterval = "labels", t.SplitInterval
	case *ThanosSeriesRequest:
		s.Kind, s.SplitInterval = "series", t.SplitInterval
	}
	return s
}

// VerifC41SplitQuery calls the unexported splitQuery. r must be one of the exported Thanos request types.
func VerifC41SplitQuery(r any, interval time.Duration) ([]VerifC41Sub, error) {
	reqs, err := splitQuery(r.(queryrange.Request), interval)
	if err != nil {
		return nil, err
	}
	out := make([]VerifC41Sub, 0, len(reqs))
	for _, q := range reqs {
		out = append(out, verifC41Sub(q))
	}
	return out, nil
}

type verifC41Limits struct{}

func (verifC41Limits) MaxQueryLookback(string) time.Duration  { return 0 }
func (verifC41Limits) MaxQueryLength(string) time.Duration    { return 0 }
func (verifC41Limits) MaxQueryParallelism(string) int         { return 4 }
func (verifC41Limits) MaxCacheFreshness(string) time.Duration { return 0 }

// VerifC41SplitThroughMiddleware sends r through the real SplitByIntervalMiddleware and returns the
// requests that reached the next handler (in arrival order, which is not deterministic).
func VerifC41SplitThroughMiddleware(r any, interval time.Duration) ([]VerifC41Sub, error) {
	req := r.(queryrange.Request)
	var (
		mu   sync.Mutex
		seen []VerifC41Sub
	)
	var merger queryrange.Merger
	var resp queryrange.Response
	switch req.(type) {
	case *ThanosQueryRangeRequest:
		merger = NewThanosQueryRangeCodec(false)
		resp = &queryrange.PrometheusResponse{Status: queryrange.StatusSuccess, Data: queryrange.PrometheusData{ResultType: "matrix"}}
	case *ThanosLabelsRequest:
		merger = NewThanosLabelsCodec(false, 0)
		resp = &ThanosLabelsResponse{Status: queryrange.StatusSuccess, Data: []string{}}
	default:
		merger = NewThanosLabelsCodec(false, 0)
		resp = &ThanosSeriesResponse{Status: queryrange.StatusSuccess}
	}
	next := queryrange.HandlerFunc(func(_ context.Context, q queryrange.Request) (queryrange.Response, error) {
		mu.Lock()
		seen = append(seen, verifC41Sub(q))
		mu.Unlock()
		return resp, nil
	})
	mw := SplitByIntervalMiddleware(func(queryrange.Request) time.Duration { return interval }, verifC41Limits{}, merger, nil)
	ctx := user.InjectOrgID(context.Background(), "t")
	if _, err := mw.Wrap(next).Do(ctx, req); err != nil {
		return nil, err
	}
	return seen, nil
}
