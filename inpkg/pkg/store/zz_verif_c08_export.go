//go:build verif

package store

// VerifC08SetMaxBytesPerFrame sets the per-frame byte budget of TSDBStore.Series (unexported field, the
// production value is RemoteReadFrameLimit).
func VerifC08SetMaxBytesPerFrame(s *TSDBStore, n int) { s.maxBytesPerFrame = n }
