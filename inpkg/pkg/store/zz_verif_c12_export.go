//go:build verif

package store

import (
	"fmt"

	"github.com/prometheus/prometheus/tsdb/index"
)

// Thin exports of the postings cache codecs for the C12 check (/verif/checks/c12).

// VerifC12Encode encodes p with one of the cache codecs:
// 0 = diffVarintSnappyEncode ("dvs"), 1 = diffVarintSnappyStreamedEncode ("dss"),
// 2 = diffVarintEncodeNoHeader + snappyStreamedEncode ("dss", the path used when postings are fetched from the bucket).
func VerifC12Encode(codec int, p index.Postings, length int) ([]byte, error) {
	switch codec {
	case 0:
		return diffVarintSnappyEncode(p, length)
	case 1:
		return diffVarintSnappyStreamedEncode(p, length)
	case 2:
		raw, err := diffVarintEncodeNoHeader(p, length)
		if err != nil {
			return nil, err
		}
		return snappyStreamedEncode(length, raw)
	}
	return nil, fmt.Errorf("unknown codec %d", codec)
}

// VerifC12Decode decodes a cached value. mode 0 = decodePostings (what bucketIndexReader.decodeCachedPostings calls,
// pooled buffers), mode 1 = the codec's own decode function with pooling disabled.
func VerifC12Decode(b []byte, mode int) (index.Postings, func(), error) {
	var (
		p   closeablePostings
		err error
	)
	switch {
	case mode == 0:
		p, err = decodePostings(b)
	case isDiffVarintSnappyEncodedPostings(b):
		p, err = diffVarintSnappyDecode(b, true)
	default:
		p, err = diffVarintSnappyStreamedDecode(b, true)
	}
	if err != nil {
		return nil, nil, err
	}
	return p, p.close, nil
}
