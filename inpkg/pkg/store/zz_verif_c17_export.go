//go:build verif

package store

import "unsafe"

// VerifDrainShardBuffers takes n buffers out of the proxy's shard-matcher buffer pool and returns their
// identities (the pool hands out fresh buffers once it is empty).
func VerifDrainShardBuffers(p *ProxyStore, n int) []uintptr {
	out := make([]uintptr, 0, n)
	for i := 0; i < n; i++ {
		b := p.buffers.Get().(*[]byte)
		out = append(out, uintptr(unsafe.Pointer(b)))
	}
	return out
}
