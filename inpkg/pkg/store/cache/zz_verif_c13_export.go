//go:build verif

package storecache

// VerifC13MatchersCacheKey exposes the key under which LruMatchersCache stores a converted matcher (C13 check).
func VerifC13MatchersCacheKey(m ConversionLabelMatcher) (string, error) {
	return cacheKey(m)
}
