//go:build verif

package store

import (
	"github.com/oklog/ulid/v2"
	"github.com/prometheus/prometheus/model/labels"
	"github.com/prometheus/prometheus/tsdb"

	"github.com/thanos-io/thanos/pkg/block/metadata"
)

// VerifC15Block describes one block of a layout for the C15 check.
type VerifC15Block struct {
	Min, Max, Res int64
}

// VerifC15Set wraps a real bucketBlockSet filled through add().
type VerifC15Set struct {
	s   *bucketBlockSet
	idx map[*bucketBlock]int
}

// VerifC15NewSet adds the blocks, in the given order, to a fresh bucketBlockSet.
func VerifC15NewSet(blocks []VerifC15Block) (*VerifC15Set, error) {
	v := &VerifC15Set{s: newBucketBlockSet(labels.EmptyLabels()), idx: map[*bucketBlock]int{}}
	for i, b := range blocks {
		var id ulid.ULID
		id[15] = byte(i + 1)
		m := &metadata.Meta{}
		m.ULID = id
		m.BlockMeta = tsdb.BlockMeta{ULID: id, MinTime: b.Min, MaxTime: b.Max}
		m.Thanos.Downsample.Resolution = b.Res
		bb := &bucketBlock{meta: m}
		if err := v.s.add(bb); err != nil {
			return nil, err
		}
		v.idx[bb] = i
	}
	return v, nil
}

// GetFor calls bucketBlockSet.getFor without block matchers and returns the positions (in the slice given to
// VerifC15NewSet) of the returned blocks, in the returned order.
func (v *VerifC15Set) GetFor(mint, maxt, maxRes int64) []int {
	bs := v.s.getFor(mint, maxt, maxRes, nil)
	out := make([]int, len(bs))
	for i, b := range bs {
		out[i] = v.idx[b]
	}
	return out
}
