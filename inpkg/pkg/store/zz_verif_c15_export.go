//go:build verif

package store

import (
	"github.com/oklog/ulid/v2"
	"github.com/prometheus/prometheus/model/labels"
	"github.com/prometheus/prometheus/tsdb"

	"github.com/thanos-io/thanos/pkg/block/metadata"
)

// VerifC15Block describes one block of a layout for the C15 check.
type VerifC15Block struct {
	Min, Max, Res int64
}

// VerifC15Set wraps a real bucketBlockSet driven through add() and remove().
type VerifC15Set struct {
	s   *bucketBlockSet
	idx map[*bucketBlock]int
}

// VerifC15Empty returns an empty real bucketBlockSet (empty external labels).
func VerifC15Empty() *VerifC15Set {
	return &VerifC15Set{s: newBucketBlockSet(labels.EmptyLabels()), idx: map[*bucketBlock]int{}}
}

func verifC15ID(i int) ulid.ULID {
	var id ulid.ULID
	id[14] = byte((i + 1) >> 8)
	id[15] = byte(i + 1)
	return id
}

// Add calls bucketBlockSet.add with a new block that is known to the caller as number i.
func (v *VerifC15Set) Add(i int, b VerifC15Block) error {
	id := verifC15ID(i)
	m := &metadata.Meta{}
	m.ULID = id
	m.BlockMeta = tsdb.BlockMeta{ULID: id, MinTime: b.Min, MaxTime: b.Max}
	m.Thanos.Downsample.Resolution = b.Res
	bb := &bucketBlock{meta: m}
	v.idx[bb] = i
	return v.s.add(bb)
}

// Remove calls bucketBlockSet.remove with the ULID of block number i (whether or not it is in the set).
func (v *VerifC15Set) Remove(i int) {
	v.s.remove(verifC15ID(i))
}

// VerifC15NewSet adds the blocks, in the given order, to a fresh bucketBlockSet.
func VerifC15NewSet(blocks []VerifC15Block) (*VerifC15Set, error) {
	v := VerifC15Empty()
	for i, b := range blocks {
		if err := v.Add(i, b); err != nil {
			return nil, err
		}
	}
	return v, nil
}

// GetFor calls bucketBlockSet.getFor without block matchers and returns the numbers (as given to Add) of the
// returned blocks, in the returned order; -1 stands for a returned pointer that is nil or was never added.
func (v *VerifC15Set) GetFor(mint, maxt, maxRes int64) []int {
	bs := v.s.getFor(mint, maxt, maxRes, nil)
	out := make([]int, len(bs))
	for i, b := range bs {
		n, ok := v.idx[b]
		if !ok {
			n = -1
		}
		out[i] = n
	}
	return out
}
