//go:build verif

package store

// VerifC04SetMaxBytesPerFrame sets the per-frame byte budget of TSDBStore.Series (unexported field; the
// production value is RemoteReadFrameLimit), so that tiny series span several response frames.
func VerifC04SetMaxBytesPerFrame(s *TSDBStore, n int) { s.maxBytesPerFrame = n }
