//go:build verif

package replicate

import (
	"context"
	"time"

	"github.com/go-kit/log"
	"github.com/oklog/ulid/v2"
	"github.com/prometheus/prometheus/model/labels"
	"github.com/thanos-io/objstore"

	"github.com/thanos-io/thanos/pkg/compact"
	thanosmodel "github.com/thanos-io/thanos/pkg/model"
)

// VerifReplicateOnce runs one replication pass exactly as RunReplicate's replicateFn does (same fetcher,
// same block filter, same scheme), but on caller-supplied buckets.
func VerifReplicateOnce(ctx context.Context, logger log.Logger, from objstore.InstrumentedBucket, to objstore.Bucket,
	sel labels.Selector, resolutions []compact.ResolutionLevel, compactions []int, blockIDs []ulid.ULID) error {
	minT := time.Unix(0, 0)
	maxT, _ := time.Parse(time.RFC3339, "9999-12-31T23:59:59Z")
	fetcher, err := newMetaFetcher(logger, from, nil,
		thanosmodel.TimeOrDurationValue{Time: &minT}, thanosmodel.TimeOrDurationValue{Time: &maxT}, 32, false)
	if err != nil {
		return err
	}
	filter := NewBlockFilter(logger, sel, resolutions, compactions, blockIDs).Filter
	return newReplicationScheme(logger, newReplicationMetrics(nil), filter, fetcher, from, to, nil).execute(ctx)
}
