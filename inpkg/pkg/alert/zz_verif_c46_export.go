//go:build verif

package alert

// VerifQueueState returns the alert names currently queued and whether the wake-up token is present.
// It reads without locking: the caller guarantees that no other goroutine runs (all parked).
func VerifQueueState(q *Queue) (names []string, token bool) {
	for _, a := range q.queue {
		names = append(names, a.Labels.Get("alertname"))
	}
	return names, len(q.morec) > 0
}
