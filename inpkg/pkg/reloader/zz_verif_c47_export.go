//go:build verif

package reloader

import (
	"context"
	"fmt"
	"sort"
	"strings"
)

// VerifApply runs one apply round (what Watch does on every file-system notification / watch interval tick).
func (r *Reloader) VerifApply(ctx context.Context) error { return r.apply(ctx) }

// VerifSetTriggerReloader replaces the HTTP/signal reloader by the given one.
func (r *Reloader) VerifSetTriggerReloader(tr TriggerReloader) { r.tr = tr }

// VerifInternalState renders the fields apply carries from one round to the next.
func (r *Reloader) VerifInternalState() string {
	var sb strings.Builder
	fmt.Fprintf(&sb, "cfg=%x dirs=%x watched=%x force=%v files=", r.lastCfgHash, r.lastCfgDirsHash, r.lastWatchedDirsHash, r.forceReload)
	for _, m := range r.lastCfgDirFiles {
		if m == nil {
			sb.WriteString("[nil]")
			continue
		}
		names := make([]string, 0, len(m))
		for n := range m {
			names = append(names, n)
		}
		sort.Strings(names)
		fmt.Fprintf(&sb, "%q", names)
	}
	return sb.String()
}
