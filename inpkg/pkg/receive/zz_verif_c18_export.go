//go:build verif

package receive

// VerifC18Section is one section of a ketama ring: its position and the endpoints serving replica 0..RF-1
// of every series that hashes into it.
type VerifC18Section struct {
	Hash     uint64
	Replicas []Endpoint
}

// VerifC18Sections exposes the section table of a multi-hashring made of exactly one ketama hashring
// (nil otherwise), in ring order.
func VerifC18Sections(h Hashring) []VerifC18Section {
	m, ok := h.(*multiHashring)
	if !ok || len(m.hashrings) != 1 {
		return nil
	}
	k, ok := m.hashrings[0].(*ketamaHashring)
	if !ok {
		return nil
	}
	out := make([]VerifC18Section, len(k.sections))
	for i, s := range k.sections {
		reps := make([]Endpoint, len(s.replicas))
		for j, e := range s.replicas {
			reps[j] = k.endpoints[e]
		}
		out[i] = VerifC18Section{Hash: s.hash, Replicas: reps}
	}
	return out
}
