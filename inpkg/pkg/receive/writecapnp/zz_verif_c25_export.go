//go:build verif

package writecapnp

import "github.com/thanos-io/thanos/pkg/symboltable"

// VerifMarshalSymbols is marshalSymbols: the step RemoteWriteClient performs after BuildInto for every tenant
// (the multi-tenant encoding path lives inline in client.go and cannot be called without a connection).
func VerifMarshalSymbols(builder *symboltable.Builder, symbols Symbols) error {
	return marshalSymbols(builder, symbols)
}
