//go:build verif

package receive

import "errors"

// VerifC19TenantShardNodes returns the nodes of the sub-ring that the (first) shuffle-sharded hashring of a
// multi-hashring computes for tenant (real getTenantShard, no cache).
func VerifC19TenantShardNodes(h Hashring, tenant string) ([]Endpoint, error) {
	m, ok := h.(*multiHashring)
	if !ok {
		return nil, errors.New("verif: not a multiHashring")
	}
	for _, hr := range m.hashrings {
		if s, ok := hr.(*shuffleShardHashring); ok {
			k, err := s.getTenantShard(tenant)
			if err != nil {
				return nil, err
			}
			return k.Nodes(), nil
		}
	}
	return nil, errors.New("verif: no shuffle-sharded hashring")
}
