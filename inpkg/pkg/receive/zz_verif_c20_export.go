//go:build verif

package receive

// VerifC20Section is one section of a ketama ring: its position and the endpoints serving replica 0..RF-1
// of every series that hashes into it.
type VerifC20Section struct {
	Hash     uint64
	Replicas []Endpoint
}

// VerifC20Sections exposes the section table of a multi-hashring made of exactly one ketama hashring
// (nil otherwise), in ring order.
func VerifC20Sections(h Hashring) []VerifC20Section {
	m, ok := h.(*multiHashring)
	if !ok || len(m.hashrings) != 1 {
		return nil
	}
	k, ok := m.hashrings[0].(*ketamaHashring)
	if !ok {
		return nil
	}
	out := make([]VerifC20Section, len(k.sections))
	for i, s := range k.sections {
		reps := make([]Endpoint, len(s.replicas))
		for j, e := range s.replicas {
			reps[j] = k.endpoints[e]
		}
		out[i] = VerifC20Section{Hash: s.hash, Replicas: reps}
	}
	return out
}
