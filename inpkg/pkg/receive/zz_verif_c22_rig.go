//go:build verif

package receive

// Verification adapter shared by the C22, C23 and C26 checks (added to the package by `go build -overlay`;
// the repository is untouched). It only exposes what cannot be reached from outside the package: the
// unexported HTTP entry point, and a way to seed the handler's REAL peerGroup with REAL peerWorkers whose
// network client is supplied by the check (so no gRPC dialing happens). Everything else - NewHandler,
// fanoutForward, sendWrites, peerWorker.buildWork, the worker pool, getConnection/back-off, the local
// writer - is the production code.

import (
	"io"
	"net/http"

	"github.com/go-kit/log"

	"github.com/thanos-io/thanos/pkg/store/storepb"
)

// VerifPeerClient is the network stub of one remote peer (the unexported peerClient interface).
type VerifPeerClient interface {
	storepb.WriteableStoreClient
	io.Closer
}

// VerifNewHandler builds a Handler with NewHandler, pre-populates the connections of its real peerGroup for
// the given remote endpoints (the local endpoint is resolved by the real getConnection to the real
// localAsyncWriter) and installs the hashring.
func VerifNewHandler(o *Options, hr Hashring, remote map[Endpoint]VerifPeerClient) *Handler {
	h := NewHandler(log.NewNopLogger(), o)
	pg := h.peers.(*peerGroup)
	for ep, c := range remote {
		pg.connections[ep] = newPeerWorker(c, pg.forwardDelay.WithLabelValues(ep.Address), pg.asyncForwardWorkersCount, 0)
	}
	h.Hashring(hr)
	return h
}

// VerifReceiveHTTP is Handler.receiveHTTP (the handler registered for POST /api/v1/receive).
func (h *Handler) VerifReceiveHTTP(w http.ResponseWriter, r *http.Request) { h.receiveHTTP(w, r) }

// VerifMarkPeerUnavailable puts the peer into back-off exactly like a failed forward does.
func (h *Handler) VerifMarkPeerUnavailable(ep Endpoint) { h.peers.markPeerUnavailable(ep) }

// VerifWriteQuorum is Handler.writeQuorum.
func (h *Handler) VerifWriteQuorum() int { return h.writeQuorum() }
