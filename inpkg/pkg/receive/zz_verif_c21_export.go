//go:build verif

package receive

import "errors"

// VerifC21Shard returns the nodes of tenant's sub-ring on the shuffle-sharded hashring that is the only entry of
// the multi-hashring h: freshly computed (getTenantShard) or through the cache (getTenantShardCached, the ring
// GetN answers from).
func VerifC21Shard(h Hashring, tenant string, cached bool) ([]Endpoint, error) {
	m, ok := h.(*multiHashring)
	if !ok || len(m.hashrings) != 1 {
		return nil, errors.New("verif: not a multi-hashring with one entry")
	}
	s, ok := m.hashrings[0].(*shuffleShardHashring)
	if !ok {
		return nil, errors.New("verif: not a shuffle-sharded hashring")
	}
	var k *ketamaHashring
	var err error
	if cached {
		k, err = s.getTenantShardCached(tenant)
	} else {
		k, err = s.getTenantShard(tenant)
	}
	if err != nil {
		return nil, err
	}
	return append([]Endpoint(nil), k.Nodes()...), nil
}

// VerifC21CacheLen is the number of cached sub-rings.
func VerifC21CacheLen(h Hashring) int {
	m, ok := h.(*multiHashring)
	if !ok || len(m.hashrings) != 1 {
		return -1
	}
	s, ok := m.hashrings[0].(*shuffleShardHashring)
	if !ok {
		return -1
	}
	return s.cache.Len()
}
