//go:build verif

package receive

import "errors"

// verifC21Unwrap finds the shuffle-sharded hashring: h itself, or the only entry of the multi-hashring h.
func verifC21Unwrap(h Hashring) (*shuffleShardHashring, error) {
	if s, ok := h.(*shuffleShardHashring); ok {
		return s, nil
	}
	m, ok := h.(*multiHashring)
	if !ok || len(m.hashrings) != 1 {
		return nil, errors.New("verif: not a multi-hashring with one entry")
	}
	s, ok := m.hashrings[0].(*shuffleShardHashring)
	if !ok {
		return nil, errors.New("verif: not a shuffle-sharded hashring")
	}
	return s, nil
}

// VerifC21Shard returns the nodes of tenant's sub-ring on the shuffle-sharded hashring h (or the only entry of
// the multi-hashring h): freshly computed (getTenantShard) or through the cache (getTenantShardCached, the ring
// GetN answers from).
func VerifC21Shard(h Hashring, tenant string, cached bool) ([]Endpoint, error) {
	s, err := verifC21Unwrap(h)
	if err != nil {
		return nil, err
	}
	var k *ketamaHashring
	if cached {
		k, err = s.getTenantShardCached(tenant)
	} else {
		k, err = s.getTenantShard(tenant)
	}
	if err != nil {
		return nil, err
	}
	return append([]Endpoint(nil), k.Nodes()...), nil
}

// VerifC21CacheLen is the number of cached sub-rings.
func VerifC21CacheLen(h Hashring) int {
	s, err := verifC21Unwrap(h)
	if err != nil {
		return -1
	}
	return s.cache.Len()
}

// VerifC21SmallRing is the shuffle-sharded hashring newHashring builds, except that the base ketama ring has
// sectionsPerNode sections per node instead of SectionsPerNode (1000).
func VerifC21SmallRing(endpoints []Endpoint, sectionsPerNode int, replicationFactor uint64, cfg ShuffleShardingConfig) (Hashring, error) {
	base, err := newKetamaHashring(endpoints, sectionsPerNode, replicationFactor)
	if err != nil {
		return nil, err
	}
	return newShuffleShardHashring(base, cfg, replicationFactor, nil, "verif")
}

// VerifC21Section is one section of the base ring: its position and the node that owns it.
type VerifC21Section struct {
	Hash uint64
	Node Endpoint
}

// VerifC21BaseSections lists the sections of the base ketama ring in ring order (read-only).
func VerifC21BaseSections(h Hashring) ([]VerifC21Section, error) {
	s, err := verifC21Unwrap(h)
	if err != nil {
		return nil, err
	}
	b, ok := s.baseRing.(*ketamaHashring)
	if !ok {
		return nil, errors.New("verif: base ring is not a ketama ring")
	}
	out := make([]VerifC21Section, 0, len(b.sections))
	for _, sec := range b.sections {
		out = append(out, VerifC21Section{Hash: sec.hash, Node: b.endpoints[sec.endpointIndex]})
	}
	return out, nil
}
