//go:build verif

package receive

import "net/http"

// VerifReceiveHTTP exposes the remote-write (protobuf) endpoint handler.
func (h *Handler) VerifReceiveHTTP(w http.ResponseWriter, r *http.Request) { h.receiveHTTP(w, r) }

// VerifReceiveOTLPHTTP exposes the OTLP endpoint handler.
func (h *Handler) VerifReceiveOTLPHTTP(w http.ResponseWriter, r *http.Request) {
	h.receiveOTLPHTTP(w, r)
}
