package vexplore

import (
	"encoding/json"
	"fmt"

	"verif/vlib"
)

// Case is the replay artefact of an E1 check: which scenario (by name, with its parameters as opaque
// JSON) and which choice sequence.
type Case struct {
	Scenario string          `json:"scenario"`
	Params   json.RawMessage `json:"params,omitempty"`
	Choices  []int           `json:"choices"`
	Bound    int             `json:"bound"`
	Trace    []string        `json:"trace,omitempty"`
}

// Named couples a scenario with replayable parameters.
type Named struct {
	S      *Scenario
	Params any
	// Bound overrides Drive's maxBound for this scenario when UseBound is set (<0 = unbounded).
	Bound    int
	UseBound bool
}

// Drive explores every scenario with iterative deviation bounding 0..maxBound (maxBound<0: a single
// unbounded pass) and reports through r. lookup rebuilds a scenario from a replay artefact.
func Drive(r *vlib.R, scenarios []Named, maxBound int, lookup func(c Case) *Scenario) {
	var rc Case
	if r.ReplayCase(&rc) {
		s := lookup(rc)
		if s == nil {
			r.T.Fatalf("HARNESS-ERROR replay names unknown scenario %q", rc.Scenario)
		}
		run := RunOnce(s, rc.Choices, true)
		r.Eval(1)
		r.AddStates(int64(len(run.Exec.Digests)))
		r.AddTransitions(int64(run.Exec.Steps))
		r.AddTraces(1)
		if run.Diverg != "" {
			r.T.Fatalf("HARNESS-ERROR %s", run.Diverg)
		}
		if run.Sig != "" {
			rc.Trace = run.Exec.Trace
			r.Violation(run.Sig, run.Desc, rc)
		}
		return
	}
	si, sn := r.Shard()
	totalStates := int64(0)
	for scenarioIdx, ns := range scenarios {
		s := ns.S
		if err := CheckDeterminism(s); err != nil {
			r.T.Fatalf("HARNESS-ERROR scenario %s: %v", s.Name, err)
		}
		maxBound := maxBound
		if ns.UseBound {
			maxBound = ns.Bound
		}
		bounds := []int{}
		if maxBound < 0 {
			bounds = append(bounds, -1)
		} else {
			// iterate the bound; only the last bound's numbers are reported as coverage, lower bounds are
			// subsumed by it (a violation found at a lower bound is the simplest counter-example).
			for b := 0; b <= maxBound; b++ {
				bounds = append(bounds, b)
			}
		}
		completed := -2
		var last *Explorer
		for _, b := range bounds {
			x := &Explorer{S: s, Bound: b, ShardI: si, ShardN: sn, Stop: func() bool { return r.Remaining() <= 0 }}
			x.Explore()
			last = x
			if x.Stats.HarnessErr != "" {
				r.T.Fatalf("HARNESS-ERROR scenario %s bound %d: %s", s.Name, b, x.Stats.HarnessErr)
			}
			for _, v := range x.Violations {
				ok, tr := Confirm(s, v, 5)
				if !ok {
					r.T.Fatalf("HARNESS-ERROR scenario %s: violating schedule %v (%s) does not reproduce identically on 5 re-runs", s.Name, v.Choices, v.Sig)
				}
				p, _ := json.Marshal(ns.Params)
				if len(tr) > 400 {
					tr = tr[:400]
				}
				r.Violation(v.Sig, fmt.Sprintf("scenario %s, deviation bound %d: %s", s.Name, b, v.Desc),
					Case{Scenario: s.Name, Params: p, Choices: v.Choices, Bound: b, Trace: tr})
			}
			if !x.Stats.Complete {
				r.Cap(fmt.Sprintf("scenario %s: deviation bound %d not completed (deadline); completed bound %d", s.Name, b, completed))
				break
			}
			completed = b
			if len(x.Violations) > 0 {
				break
			}
		}
		if last != nil {
			st := last.Stats
			r.Eval(st.Executions)
			r.AddTraces(st.Executions)
			r.AddTransitions(st.Points)
			r.AddStates(int64(len(st.States)))
			totalStates += int64(len(st.States))
			r.Depth(st.MaxPoints)
			for o := range st.Outcomes {
				r.Outcome(s.Name + ": " + o)
				r.Nontrivial(s.Name + "|" + o)
			}
			r.Set(fmt.Sprintf("scenario_%02d", scenarioIdx), map[string]any{"scenario": s.Name, "completed_bound": completed,
				"max_threads": st.MaxThreads, "executions": st.Executions, "distinct_outcomes": len(st.Outcomes)})
			if len(st.Outcomes) == 1 && st.Executions > 50 {
				r.Note("scenario %s: %d executions gave one distinct outcome", s.Name, st.Executions)
			}
			r.Sample(map[string]any{"scenario": s.Name, "params": ns.Params, "bound": completed, "executions": st.Executions, "distinct_outcomes": len(st.Outcomes), "max_choice_points": st.MaxPoints})
		}
	}
}
