// Package vexplore is the explorer half of engine E1: stateless depth-first search over the choice
// sequences of a vsync execution with iterative deviation (preemption) bounding, replay, determinism
// validation and sharding of the top-level subtrees over worker processes.
package vexplore

import (
	"fmt"
	"strings"

	"verif/vsync"
)

// Scenario builds one fresh instance of the harness and returns the body to run as thread 0 and a
// function that inspects the finished execution (returning a non-empty signature+description on a
// property violation).
type Scenario struct {
	Name     string
	MaxSteps int
	// New creates fresh state and returns: setup (called with the Exec before thread 0 starts, may set
	// Invariant), body (thread 0) and check (called after the execution ended).
	New func() (setup func(e *vsync.Exec), body func(), check func(e *vsync.Exec) (sig, desc string, outcome string))
}

type point struct {
	alts   []vsync.Alt
	choice int
}

type replayChooser struct {
	prefix []int
	pts    []point
	diverg string
}

func (c *replayChooser) Choose(p int, alts []vsync.Alt, desc func(vsync.Alt) string) int {
	ch := 0
	if p < len(c.prefix) {
		ch = c.prefix[p]
		if ch >= len(alts) {
			c.diverg = fmt.Sprintf("replay divergence at point %d: choice %d but only %d alternatives", p, ch, len(alts))
			ch = 0
		}
	}
	cp := make([]vsync.Alt, len(alts))
	copy(cp, alts)
	c.pts = append(c.pts, point{alts: cp, choice: ch})
	return ch
}

// Result of one execution.
type Run struct {
	Choices []int
	Points  []point
	Exec    *vsync.Exec
	Sig     string
	Desc    string
	Outcome string
	Diverg  string
}

// RunOnce runs the scenario following prefix, then default choices.
func RunOnce(s *Scenario, prefix []int, trace bool) *Run {
	setup, body, check := s.New()
	ch := &replayChooser{prefix: prefix}
	ms := s.MaxSteps
	if ms == 0 {
		ms = 20000
	}
	e := vsync.Run(ch, ms, func(e *vsync.Exec) {
		e.Tracing = trace
		e.TrackDigests = true
		if setup != nil {
			setup(e)
		}
	}, body)
	r := &Run{Points: ch.pts, Exec: e, Diverg: ch.diverg}
	for _, p := range ch.pts {
		r.Choices = append(r.Choices, p.choice)
	}
	if len(ch.pts) < len(prefix) && ch.diverg == "" {
		r.Diverg = fmt.Sprintf("replay divergence: prefix has %d choices but the execution had only %d points", len(prefix), len(ch.pts))
	}
	if e.Stalled {
		r.Diverg = e.DeadlockMsg
	}
	r.Sig, r.Desc, r.Outcome = check(e)
	return r
}

// Stats accumulates coverage.
type Stats struct {
	Executions  int64
	Points      int64 // scheduling decisions executed
	MaxThreads  int
	MaxPoints   int
	States      map[uint64]struct{}
	Outcomes    map[string]int64
	Bound       int
	Complete    bool
	HarnessErr  string
	FirstTraces [][]string
}

// Violation found by the explorer.
type Violation struct {
	Sig     string   `json:"sig"`
	Desc    string   `json:"desc"`
	Choices []int    `json:"choices"`
	Bound   int      `json:"bound"`
	Trace   []string `json:"trace,omitempty"`
}

// Explorer drives the DFS.
type Explorer struct {
	S       *Scenario
	Bound   int
	ShardI  int
	ShardN  int
	Stop    func() bool // deadline
	MaxViol int

	Stats      Stats
	Violations []Violation
	seenSig    map[string]bool
	stopped    bool
}

func (x *Explorer) record(r *Run) {
	st := &x.Stats
	st.Executions++
	st.Points += int64(r.Exec.Steps)
	if r.Exec.MaxThreads > st.MaxThreads {
		st.MaxThreads = r.Exec.MaxThreads
	}
	if len(r.Points) > st.MaxPoints {
		st.MaxPoints = len(r.Points)
	}
	for d := range r.Exec.Digests {
		if len(st.States) < 5_000_000 {
			st.States[d] = struct{}{}
		}
	}
	st.Outcomes[r.Outcome]++
	if r.Diverg != "" && st.HarnessErr == "" {
		st.HarnessErr = r.Diverg
	}
	if r.Sig != "" {
		if x.seenSig == nil {
			x.seenSig = map[string]bool{}
		}
		if !x.seenSig[r.Sig] {
			x.seenSig[r.Sig] = true
			x.Violations = append(x.Violations, Violation{Sig: r.Sig, Desc: r.Desc, Choices: append([]int(nil), r.Choices...), Bound: x.Bound})
		}
	}
}

func cost(pts []point, upto int) int {
	c := 0
	for i := 0; i < upto; i++ {
		c += pts[i].alts[pts[i].choice].Cost
	}
	return c
}

// children lists the deviating prefixes of a run at positions >= from that fit the bound.
func (x *Explorer) children(r *Run, from int) [][]int {
	var out [][]int
	used := cost(r.Points, from)
	for i := from; i < len(r.Points); i++ {
		p := r.Points[i]
		for alt := 0; alt < len(p.alts); alt++ {
			if alt == p.choice {
				continue
			}
			if x.Bound >= 0 && used+p.alts[alt].Cost > x.Bound {
				continue
			}
			pre := make([]int, i+1)
			copy(pre, r.Choices[:i])
			pre[i] = alt
			out = append(out, pre)
		}
		used += p.alts[p.choice].Cost
	}
	return out
}

func (x *Explorer) dfs(prefix []int) {
	if x.stopped {
		return
	}
	if x.Stop != nil && x.Stop() {
		x.stopped = true
		return
	}
	r := RunOnce(x.S, prefix, false)
	x.record(r)
	if x.Stats.HarnessErr != "" {
		x.stopped = true
		return
	}
	for _, c := range x.children(r, len(prefix)) {
		x.dfs(c)
		if x.stopped {
			return
		}
	}
}

// Explore runs the complete bounded search (Bound < 0 = unbounded). With sharding, every worker runs the
// root and the level-1 executions (counted only by shard 0) and explores the level-2 subtrees j with
// j % ShardN == ShardI.
func (x *Explorer) Explore() {
	x.Stats.States = map[uint64]struct{}{}
	x.Stats.Outcomes = map[string]int64{}
	x.Stats.Bound = x.Bound
	if x.ShardN <= 1 {
		x.dfs(nil)
		x.Stats.Complete = !x.stopped
		return
	}
	root := RunOnce(x.S, nil, false)
	if x.ShardI == 0 {
		x.record(root)
	}
	if root.Diverg != "" {
		x.Stats.HarnessErr = root.Diverg
		return
	}
	j := 0
	for _, l1 := range x.children(root, 0) {
		if x.stopped {
			break
		}
		r1 := RunOnce(x.S, l1, false)
		if x.ShardI == 0 {
			x.record(r1)
		}
		if r1.Diverg != "" {
			x.Stats.HarnessErr = r1.Diverg
			return
		}
		for _, l2 := range x.children(r1, len(l1)) {
			if j%x.ShardN == x.ShardI {
				x.dfs(l2)
			}
			j++
			if x.stopped {
				break
			}
		}
	}
	x.Stats.Complete = !x.stopped
}

// CheckDeterminism replays the default schedule and one deviating schedule twice each and compares the
// operation traces.
func CheckDeterminism(s *Scenario) error {
	a := RunOnce(s, nil, true)
	b := RunOnce(s, nil, true)
	if d := diffTrace(a.Exec.Trace, b.Exec.Trace); d != "" {
		return fmt.Errorf("default schedule is not deterministic: %s", d)
	}
	x := &Explorer{S: s, Bound: 1}
	ch := x.children(a, 0)
	if len(ch) > 0 {
		p := ch[len(ch)/2]
		c := RunOnce(s, p, true)
		d := RunOnce(s, p, true)
		if c.Diverg != "" {
			return fmt.Errorf("replay of a deviating prefix diverged: %s", c.Diverg)
		}
		if df := diffTrace(c.Exec.Trace, d.Exec.Trace); df != "" {
			return fmt.Errorf("deviating schedule %v is not deterministic: %s", p, df)
		}
		if c.Outcome != d.Outcome || c.Sig != d.Sig {
			return fmt.Errorf("deviating schedule %v gives different observations: %q/%q vs %q/%q", p, c.Outcome, c.Sig, d.Outcome, d.Sig)
		}
	}
	if a.Outcome != b.Outcome || a.Sig != b.Sig {
		return fmt.Errorf("default schedule gives different observations: %q vs %q", a.Outcome, b.Outcome)
	}
	return nil
}

func diffTrace(a, b []string) string {
	n := len(a)
	if len(b) < n {
		n = len(b)
	}
	for i := 0; i < n; i++ {
		if a[i] != b[i] {
			return fmt.Sprintf("step %d: %q vs %q", i, a[i], b[i])
		}
	}
	if len(a) != len(b) {
		return fmt.Sprintf("lengths %d vs %d", len(a), len(b))
	}
	return ""
}

// Confirm re-runs a violating schedule n times and reports whether it fails identically every time.
func Confirm(s *Scenario, v Violation, n int) (bool, []string) {
	var tr []string
	for i := 0; i < n; i++ {
		r := RunOnce(s, v.Choices, i == 0)
		if i == 0 {
			tr = r.Exec.Trace
		}
		if r.Sig != v.Sig || r.Diverg != "" {
			return false, tr
		}
	}
	return true, tr
}

// FormatTrace shortens a trace for artefacts.
func FormatTrace(tr []string) string { return strings.Join(tr, " → ") }
