package vlib

import (
	"encoding/json"
	"fmt"
	"os"
	"path/filepath"
)

// RepoDir is the source tree the check is built from.
func RepoDir() string {
	if d := os.Getenv("VERIF_REPO"); d != "" {
		return d
	}
	return "/repo"
}

// ReadSource reads a file (path relative to the repository root) of the source tree the running check binary
// was built from. The driver builds with `go test -c -overlay <dir of the binary>/overlay.json`: mutants and
// proposed fixes replace files without touching the repository, so a replacement listed in the overlay file
// next to the running binary wins over the file in the repository. Checks that bind themselves to source text
// (wiring of package main) must read it through this function.
func ReadSource(rel string) ([]byte, error) {
	p := filepath.Join(RepoDir(), rel)
	if exe, err := os.Executable(); err == nil {
		if b, err := os.ReadFile(filepath.Join(filepath.Dir(exe), "overlay.json")); err == nil {
			var ov struct{ Replace map[string]string }
			if err := json.Unmarshal(b, &ov); err != nil {
				return nil, fmt.Errorf("build overlay next to the check binary is unreadable: %v", err)
			}
			if r, ok := ov.Replace[p]; ok && r != "" {
				p = r
			}
		}
	}
	return os.ReadFile(p)
}
