// Package vlib is the shared runtime of the /verif checks: result reporting, replay plumbing,
// parallel bounded-exhaustive enumeration and small combinatorial generators.
//
// Every check is a Go test `TestCheck` in /verif/checks/<id>/ that creates a Reporter, enumerates its
// space completely (or until the internal deadline, in which case Exhaustive is cleared and the cap is
// recorded) and calls Finish, which writes a JSON result to $VERIF_OUT for the driver (/verif/check).
package vlib

import (
	"encoding/json"
	"fmt"
	"hash/fnv"
	"os"
	"sort"
	"strconv"
	"strings"
	"sync"
	"testing"
	"time"
)

// Violation is one counter-example. Sig classifies it (matched by the driver against
// known_findings.json); Case is the replayable input.
type Violation struct {
	Sig  string          `json:"sig"`
	Desc string          `json:"desc"`
	Case json.RawMessage `json:"case"`
	N    int64           `json:"n"` // how many counter-examples carried this signature
}

// Result is what a check process hands to the driver.
type Result struct {
	Property           string         `json:"property"`
	Tier               string         `json:"tier"`
	Seed               int64          `json:"seed"`
	Shard              string         `json:"shard"`
	Evaluations        int64          `json:"evaluations"`
	DistinctNontrivial int64          `json:"distinct_nontrivial"`
	States             int64          `json:"states"`
	Transitions        int64          `json:"transitions"`
	TracesValidated    int64          `json:"traces_validated_against_impl"`
	MaxDepth           int64          `json:"max_depth"`
	Exhaustive         bool           `json:"exhaustive"`
	Caps               []string       `json:"caps"`
	Rule               string         `json:"rule"`
	Samples            []any          `json:"samples"`
	Violations         []Violation    `json:"violations"`
	ViolationCount     int64          `json:"violation_count"`
	Outcomes           []string       `json:"outcomes"` // distinct observed outcomes (E1), unioned by the driver
	Extra              map[string]any `json:"extra"`
	Assumptions        []string       `json:"assumptions"`
	Notes              []string       `json:"notes"`
	WallS              float64        `json:"wall_s"`
	Replay             bool           `json:"replay"`
}

// R is the reporter handed to a check.
type R struct {
	T  testing.TB
	mu sync.Mutex

	res      Result
	start    time.Time
	deadline time.Time
	nt       map[uint64]struct{}
	outc     map[string]struct{}
	vio      map[string]*Violation
	nsample  int64
	shardI   int
	shardN   int
	replay   json.RawMessage
	finished bool
}

func envInt(k string, def int64) int64 {
	if v := os.Getenv(k); v != "" {
		if n, err := strconv.ParseInt(v, 10, 64); err == nil {
			return n
		}
	}
	return def
}

// New creates the reporter for property id.
func New(t testing.TB, id string) *R {
	r := &R{T: t, start: time.Now(), nt: map[uint64]struct{}{}, outc: map[string]struct{}{}, vio: map[string]*Violation{}}
	r.res.Property = id
	r.res.Tier = os.Getenv("VERIF_TIER")
	if r.res.Tier != "thorough" {
		r.res.Tier = "quick"
	}
	r.res.Seed = envInt("VERIF_SEED", 0)
	r.res.Exhaustive = true
	r.res.Extra = map[string]any{}
	def := int64(100)
	if r.res.Tier == "thorough" {
		def = 1500
	}
	r.deadline = r.start.Add(time.Duration(envInt("VERIF_DEADLINE_S", def)) * time.Second)
	r.shardN = 1
	if s := os.Getenv("VERIF_SHARD"); s != "" {
		var i, n int
		if _, err := fmt.Sscanf(s, "%d/%d", &i, &n); err == nil && n > 0 {
			r.shardI, r.shardN = i, n
		}
		r.res.Shard = s
	}
	if p := os.Getenv("VERIF_REPLAY"); p != "" {
		b, err := os.ReadFile(p)
		if err != nil {
			t.Fatalf("HARNESS-ERROR cannot read replay %s: %v", p, err)
		}
		var env struct {
			Case json.RawMessage `json:"case"`
		}
		if err := json.Unmarshal(b, &env); err != nil || env.Case == nil {
			t.Fatalf("HARNESS-ERROR bad replay file %s: %v", p, err)
		}
		r.replay = env.Case
		r.res.Replay = true
	}
	return r
}

func (r *R) Tier() string      { return r.res.Tier }
func (r *R) Thorough() bool    { return r.res.Tier == "thorough" }
func (r *R) Seed() int64       { return r.res.Seed }
func (r *R) Shard() (int, int) { return r.shardI, r.shardN }

// Pick returns q for the quick tier and t for the thorough tier.
func Pick[T any](r *R, q, t T) T {
	if r.Thorough() {
		return t
	}
	return q
}

// Expired reports whether the internal deadline has passed; the first time it does the run is marked
// non-exhaustive with the given cap description.
func (r *R) Expired(what string) bool {
	if time.Now().Before(r.deadline) {
		return false
	}
	r.Cap("internal deadline reached: " + what)
	return true
}

// Remaining is the time left before the internal deadline.
func (r *R) Remaining() time.Duration { return time.Until(r.deadline) }

// Cap records that some enumeration was cut short (and clears Exhaustive).
func (r *R) Cap(what string) {
	r.mu.Lock()
	defer r.mu.Unlock()
	r.res.Exhaustive = false
	for _, c := range r.res.Caps {
		if c == what {
			return
		}
	}
	r.res.Caps = append(r.res.Caps, what)
}

func (r *R) Eval(n int64) {
	r.mu.Lock()
	r.res.Evaluations += n
	r.mu.Unlock()
}

// Nontrivial counts a distinct non-trivial case, identified by key.
func (r *R) Nontrivial(key string) {
	h := fnv.New64a()
	h.Write([]byte(key))
	k := h.Sum64()
	r.mu.Lock()
	r.nt[k] = struct{}{}
	r.mu.Unlock()
}

// Outcome records a distinct observed final outcome.
func (r *R) Outcome(o string) {
	r.mu.Lock()
	if len(r.outc) < 10000 {
		r.outc[o] = struct{}{}
	}
	r.mu.Unlock()
}

func (r *R) AddStates(n int64)      { r.mu.Lock(); r.res.States += n; r.mu.Unlock() }
func (r *R) AddTransitions(n int64) { r.mu.Lock(); r.res.Transitions += n; r.mu.Unlock() }
func (r *R) AddTraces(n int64)      { r.mu.Lock(); r.res.TracesValidated += n; r.mu.Unlock() }
func (r *R) Depth(d int) {
	r.mu.Lock()
	if int64(d) > r.res.MaxDepth {
		r.res.MaxDepth = int64(d)
	}
	r.mu.Unlock()
}
func (r *R) Rule(s string) { r.mu.Lock(); r.res.Rule = s; r.mu.Unlock() }
func (r *R) Assume(s ...string) {
	r.mu.Lock()
	r.res.Assumptions = append(r.res.Assumptions, s...)
	r.mu.Unlock()
}
func (r *R) Note(format string, a ...any) {
	r.mu.Lock()
	if len(r.res.Notes) < 50 {
		r.res.Notes = append(r.res.Notes, fmt.Sprintf(format, a...))
	}
	r.mu.Unlock()
}
func (r *R) Set(k string, v any) { r.mu.Lock(); r.res.Extra[k] = v; r.mu.Unlock() }
func (r *R) Add(k string, n int64) {
	r.mu.Lock()
	cur, _ := r.res.Extra[k].(int64)
	r.res.Extra[k] = cur + n
	r.mu.Unlock()
}

// Sample keeps a few of the explored cases for the evidence file: the first two and then a sparse
// selection rotated by the seed.
func (r *R) Sample(c any) {
	r.mu.Lock()
	defer r.mu.Unlock()
	r.nsample++
	n := r.nsample
	keep := n <= 2
	if !keep && len(r.res.Samples) < 6 {
		// powers of 7 offset by seed: 7, 49, 343 ...
		x := n + r.res.Seed%5
		for x > 1 && x%7 == 0 {
			x /= 7
		}
		keep = x == 1 && n >= 7
	}
	if keep && len(r.res.Samples) < 6 {
		b, err := json.Marshal(c)
		if err != nil {
			b, _ = json.Marshal(fmt.Sprintf("%+v", c))
		}
		if len(b) > 2000 {
			b, _ = json.Marshal(string(b[:2000]) + "…")
		}
		r.res.Samples = append(r.res.Samples, json.RawMessage(b))
	}
}

// Violation records a counter-example under a classification signature.
func (r *R) Violation(sig, desc string, c any) {
	b, err := json.Marshal(c)
	if err != nil {
		b, _ = json.Marshal(fmt.Sprintf("%+v", c))
	}
	r.mu.Lock()
	defer r.mu.Unlock()
	r.res.ViolationCount++
	if v, ok := r.vio[sig]; ok {
		v.N++
		// keep the smallest artefact
		if len(b) < len(v.Case) {
			v.Case, v.Desc = b, desc
		}
		return
	}
	if len(r.vio) < 200 {
		r.vio[sig] = &Violation{Sig: sig, Desc: desc, Case: b, N: 1}
	}
}

// Violated reports whether any violation was recorded so far.
func (r *R) Violated() bool { r.mu.Lock(); defer r.mu.Unlock(); return r.res.ViolationCount > 0 }

// ReplayCase decodes the replay artefact into c; false when not in replay mode.
func (r *R) ReplayCase(c any) bool {
	if r.replay == nil {
		return false
	}
	if err := json.Unmarshal(r.replay, c); err != nil {
		r.T.Fatalf("HARNESS-ERROR replay artefact does not decode: %v", err)
	}
	return true
}

// Replaying reports replay mode.
func (r *R) Replaying() bool { return r.replay != nil }

// Finish writes the result.
func (r *R) Finish() {
	r.mu.Lock()
	if r.finished {
		r.mu.Unlock()
		return
	}
	r.finished = true
	r.res.DistinctNontrivial = int64(len(r.nt))
	for o := range r.outc {
		r.res.Outcomes = append(r.res.Outcomes, o)
	}
	sort.Strings(r.res.Outcomes)
	sigs := make([]string, 0, len(r.vio))
	for s := range r.vio {
		sigs = append(sigs, s)
	}
	sort.Strings(sigs)
	for _, s := range sigs {
		r.res.Violations = append(r.res.Violations, *r.vio[s])
	}
	r.res.WallS = time.Since(r.start).Seconds()
	res := r.res
	r.mu.Unlock()

	b, err := json.MarshalIndent(res, "", " ")
	if err != nil {
		r.T.Fatalf("HARNESS-ERROR marshal result: %v", err)
	}
	if out := os.Getenv("VERIF_OUT"); out != "" {
		if err := os.WriteFile(out+".tmp", b, 0o644); err != nil {
			r.T.Fatalf("HARNESS-ERROR write result: %v", err)
		}
		if err := os.Rename(out+".tmp", out); err != nil {
			r.T.Fatalf("HARNESS-ERROR write result: %v", err)
		}
		return
	}
	// stand-alone `go test`: print a summary and fail on violations.
	fmt.Printf("%s tier=%s evaluations=%d distinct_nontrivial=%d states=%d transitions=%d exhaustive=%v caps=%v wall=%.1fs\n",
		res.Property, res.Tier, res.Evaluations, res.DistinctNontrivial, res.States, res.Transitions, res.Exhaustive, res.Caps, res.WallS)
	for _, v := range res.Violations {
		fmt.Printf("VIOLATION sig=%q n=%d %s\n  case=%s\n", v.Sig, v.N, v.Desc, strings.TrimSpace(string(v.Case)))
	}
	if len(res.Violations) > 0 {
		r.T.Fail()
	}
}
