package vlib

import (
	"iter"
	"runtime"
	"sync"
)

// ForEach evaluates eval on every case produced by gen, on all cores. In replay mode only the replay
// artefact is evaluated. Cases are distributed over shards by index (VERIF_SHARD=i/n). When the
// internal deadline passes the producer stops and the run is marked non-exhaustive. eval must be safe
// for concurrent use; it reports through r.
func ForEach[C any](r *R, gen iter.Seq[C], eval func(c C)) {
	var rc C
	if r.ReplayCase(&rc) {
		r.Eval(1)
		eval(rc)
		return
	}
	workers := runtime.GOMAXPROCS(0)
	const batch = 64
	ch := make(chan []C, workers*2)
	var wg sync.WaitGroup
	for w := 0; w < workers; w++ {
		wg.Add(1)
		go func() {
			defer wg.Done()
			for b := range ch {
				for _, c := range b {
					eval(c)
				}
				r.Eval(int64(len(b)))
			}
		}()
	}
	si, sn := r.Shard()
	var idx int64
	cur := make([]C, 0, batch)
	for c := range gen {
		idx++
		if sn > 1 && int((idx-1)%int64(sn)) != si {
			continue
		}
		cur = append(cur, c)
		if len(cur) == batch {
			ch <- cur
			cur = make([]C, 0, batch)
			if r.Expired("case enumeration stopped early") {
				break
			}
		}
	}
	if len(cur) > 0 {
		ch <- cur
	}
	close(ch)
	wg.Wait()
}

// Odometer yields every vector v with 0 <= v[i] < radix[i] (last position fastest). The yielded slice is
// freshly allocated per case.
func Odometer(radix ...int) iter.Seq[[]int] {
	return func(yield func([]int) bool) {
		for _, x := range radix {
			if x <= 0 {
				return
			}
		}
		v := make([]int, len(radix))
		for {
			out := make([]int, len(v))
			copy(out, v)
			if !yield(out) {
				return
			}
			i := len(v) - 1
			for i >= 0 {
				v[i]++
				if v[i] < radix[i] {
					break
				}
				v[i] = 0
				i--
			}
			if i < 0 {
				return
			}
		}
	}
}

// Tuples yields every sequence of length exactly n over 0..k-1.
func Tuples(n, k int) iter.Seq[[]int] {
	rad := make([]int, n)
	for i := range rad {
		rad[i] = k
	}
	return Odometer(rad...)
}

// TuplesUpTo yields every sequence of length lo..hi over 0..k-1, shortest first.
func TuplesUpTo(lo, hi, k int) iter.Seq[[]int] {
	return func(yield func([]int) bool) {
		for n := lo; n <= hi; n++ {
			for t := range Tuples(n, k) {
				if !yield(t) {
					return
				}
			}
		}
	}
}

// Subsets yields every subset of 0..n-1 as a bitmask, in increasing mask order.
func Subsets(n int) iter.Seq[uint64] {
	return func(yield func(uint64) bool) {
		for m := uint64(0); m < 1<<uint(n); m++ {
			if !yield(m) {
				return
			}
		}
	}
}

// Bits lists the set bit positions of m.
func Bits(m uint64) []int {
	var out []int
	for i := 0; m != 0; i, m = i+1, m>>1 {
		if m&1 == 1 {
			out = append(out, i)
		}
	}
	return out
}

// Perms yields every permutation of 0..n-1 (lexicographic).
func Perms(n int) iter.Seq[[]int] {
	return func(yield func([]int) bool) {
		p := make([]int, n)
		for i := range p {
			p[i] = i
		}
		for {
			out := make([]int, n)
			copy(out, p)
			if !yield(out) {
				return
			}
			i := n - 2
			for i >= 0 && p[i] >= p[i+1] {
				i--
			}
			if i < 0 {
				return
			}
			j := n - 1
			for p[j] <= p[i] {
				j--
			}
			p[i], p[j] = p[j], p[i]
			for a, b := i+1, n-1; a < b; a, b = a+1, b-1 {
				p[a], p[b] = p[b], p[a]
			}
		}
	}
}

// Compositions yields every way to cut n items into consecutive non-empty parts (at most maxParts), as
// the list of part lengths.
func Compositions(n, maxParts int) iter.Seq[[]int] {
	return func(yield func([]int) bool) {
		var rec func(rem int, acc []int) bool
		rec = func(rem int, acc []int) bool {
			if rem == 0 {
				out := make([]int, len(acc))
				copy(out, acc)
				return yield(out)
			}
			if len(acc) == maxParts {
				return true
			}
			for k := 1; k <= rem; k++ {
				if len(acc) == maxParts-1 && k != rem {
					continue
				}
				if !rec(rem-k, append(acc, k)) {
					return false
				}
			}
			return true
		}
		rec(n, nil)
	}
}

// Multisets yields every non-decreasing sequence of length n over 0..k-1.
func Multisets(n, k int) iter.Seq[[]int] {
	return func(yield func([]int) bool) {
		v := make([]int, n)
		var rec func(pos, lo int) bool
		rec = func(pos, lo int) bool {
			if pos == n {
				out := make([]int, n)
				copy(out, v)
				return yield(out)
			}
			for x := lo; x < k; x++ {
				v[pos] = x
				if !rec(pos+1, x) {
					return false
				}
			}
			return true
		}
		rec(0, 0)
	}
}
