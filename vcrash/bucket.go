// Package vcrash is the crash / fault enumeration seam (engine E2): an objstore.Bucket over an in-memory
// bucket that logs every operation, evaluates a hook after every mutating operation (the state a crash
// right there would leave: object PUT and DELETE are atomic in object storage), can "die" at mutating
// operation k (that operation and everything after fails, the object map is snapshotted at that instant)
// and can fail chosen read operations.
package vcrash

import (
	"context"
	"errors"
	"fmt"
	"io"
	"sort"
	"sync"
	"time"

	"github.com/thanos-io/objstore"
)

// ErrCrashed is returned by every operation once the bucket died.
var ErrCrashed = errors.New("vcrash: process crashed (injected)")

// ErrInjected is the transient error injected into read operations.
var ErrInjected = errors.New("vcrash: injected transient read failure")

// Op is one logged bucket operation.
type Op struct {
	Kind string `json:"kind"` // upload delete get getrange exists attributes iter
	Name string `json:"name"`
	Mut  bool   `json:"mut"`
	Err  string `json:"err,omitempty"`
	Seq  int    `json:"seq"`
}

func (o Op) String() string { return fmt.Sprintf("%s(%s)", o.Kind, o.Name) }

// Bucket wraps an in-memory bucket.
type Bucket struct {
	mu    sync.Mutex
	inner *objstore.InMemBucket

	Log []Op

	mutCount  int // mutating ops attempted so far (1-based index of the last one)
	readCount int

	// DieAtMut: if >0, the DieAtMut-th mutating operation (1-based) and everything after it fail with
	// ErrCrashed; the operation itself is NOT applied.
	DieAtMut int
	dead     bool
	// Snapshot of objects taken at the instant of death.
	deathSnap map[string][]byte

	// FailRead: if >0, the FailRead-th read operation (1-based, counted only while ReadPhase() is true)
	// fails with ErrInjected.
	FailRead  int
	ReadPhase func() bool
	// FailReadFilter restricts which reads count (nil = all).
	FailReadFilter func(kind, name string) bool
	FailedOp       *Op

	// AfterMut is called after every successfully applied mutating operation, with the bucket unlocked.
	AfterMut func(op Op)
}

// New creates an empty crash bucket.
func New() *Bucket { return &Bucket{inner: objstore.NewInMemBucket()} }

// FromObjects creates a crash bucket pre-populated with objs (object last-modified = now).
func FromObjects(objs map[string][]byte) *Bucket {
	b := New()
	names := make([]string, 0, len(objs))
	for n := range objs {
		names = append(names, n)
	}
	sort.Strings(names)
	for _, n := range names {
		_ = b.inner.Upload(context.Background(), n, readerOf(objs[n]))
	}
	return b
}

// Inner gives access to the in-memory bucket (for ChangeLastModified etc.).
func (b *Bucket) Inner() *objstore.InMemBucket { return b.inner }

// Objects returns a copy of the current object map.
func (b *Bucket) Objects() map[string][]byte { return b.inner.Objects() }

// Dead reports whether the injected crash happened.
func (b *Bucket) Dead() bool { b.mu.Lock(); defer b.mu.Unlock(); return b.dead }

// DeathSnapshot returns the object map at the instant of the crash (nil if no crash happened).
func (b *Bucket) DeathSnapshot() map[string][]byte {
	b.mu.Lock()
	defer b.mu.Unlock()
	return b.deathSnap
}

// MutCount is the number of mutating operations attempted.
func (b *Bucket) MutCount() int { b.mu.Lock(); defer b.mu.Unlock(); return b.mutCount }

// ReadCount is the number of read operations counted for fault injection.
func (b *Bucket) ReadCount() int { b.mu.Lock(); defer b.mu.Unlock(); return b.readCount }

// MutLog returns the mutating operations that were applied.
func (b *Bucket) MutLog() []Op {
	b.mu.Lock()
	defer b.mu.Unlock()
	var out []Op
	for _, o := range b.Log {
		if o.Mut && o.Err == "" {
			out = append(out, o)
		}
	}
	return out
}

// LogLen returns the current length of the operation log.
func (b *Bucket) LogLen() int { b.mu.Lock(); defer b.mu.Unlock(); return len(b.Log) }

// LogFrom returns a copy of the log from index i.
func (b *Bucket) LogFrom(i int) []Op {
	b.mu.Lock()
	defer b.mu.Unlock()
	return append([]Op(nil), b.Log[i:]...)
}

func (b *Bucket) mutate(kind, name string, apply func() error) error {
	b.mu.Lock()
	if b.dead {
		b.mu.Unlock()
		return ErrCrashed
	}
	b.mutCount++
	if b.DieAtMut > 0 && b.mutCount >= b.DieAtMut {
		b.dead = true
		b.deathSnap = b.inner.Objects()
		b.Log = append(b.Log, Op{Kind: kind, Name: name, Mut: true, Err: "crashed", Seq: len(b.Log)})
		b.mu.Unlock()
		return ErrCrashed
	}
	err := apply()
	op := Op{Kind: kind, Name: name, Mut: true, Seq: len(b.Log)}
	if err != nil {
		op.Err = err.Error()
	}
	b.Log = append(b.Log, op)
	hook := b.AfterMut
	b.mu.Unlock()
	if err == nil && hook != nil {
		hook(op)
	}
	return err
}

func (b *Bucket) read(kind, name string) error {
	b.mu.Lock()
	defer b.mu.Unlock()
	if b.dead {
		return ErrCrashed
	}
	op := Op{Kind: kind, Name: name, Seq: len(b.Log)}
	var err error
	if b.ReadPhase == nil || b.ReadPhase() {
		if b.FailReadFilter == nil || b.FailReadFilter(kind, name) {
			b.readCount++
			if b.FailRead > 0 && b.readCount == b.FailRead {
				err = ErrInjected
				op.Err = err.Error()
				o := op
				b.FailedOp = &o
			}
		}
	}
	b.Log = append(b.Log, op)
	return err
}

func (b *Bucket) Provider() objstore.ObjProvider { return objstore.MEMORY }
func (b *Bucket) Name() string                   { return "vcrash" }
func (b *Bucket) Close() error                   { return nil }

func (b *Bucket) Upload(ctx context.Context, name string, r io.Reader, opts ...objstore.ObjectUploadOption) error {
	// read the body first: a crash before the PUT completes leaves no object.
	body, err := io.ReadAll(r)
	if err != nil {
		return err
	}
	return b.mutate("upload", name, func() error { return b.inner.Upload(ctx, name, readerOf(body)) })
}

func (b *Bucket) Delete(ctx context.Context, name string) error {
	return b.mutate("delete", name, func() error { return b.inner.Delete(ctx, name) })
}

func (b *Bucket) Iter(ctx context.Context, dir string, f func(string) error, o ...objstore.IterOption) error {
	if err := b.read("iter", dir); err != nil {
		return err
	}
	return b.inner.Iter(ctx, dir, f, o...)
}

func (b *Bucket) IterWithAttributes(ctx context.Context, dir string, f func(objstore.IterObjectAttributes) error, o ...objstore.IterOption) error {
	if err := b.read("iter", dir); err != nil {
		return err
	}
	return b.inner.IterWithAttributes(ctx, dir, f, o...)
}

func (b *Bucket) SupportedIterOptions() []objstore.IterOptionType {
	return b.inner.SupportedIterOptions()
}

func (b *Bucket) Get(ctx context.Context, name string) (io.ReadCloser, error) {
	if err := b.read("get", name); err != nil {
		return nil, err
	}
	return b.inner.Get(ctx, name)
}

func (b *Bucket) GetRange(ctx context.Context, name string, off, length int64) (io.ReadCloser, error) {
	if err := b.read("getrange", name); err != nil {
		return nil, err
	}
	return b.inner.GetRange(ctx, name, off, length)
}

func (b *Bucket) Exists(ctx context.Context, name string) (bool, error) {
	if err := b.read("exists", name); err != nil {
		return false, err
	}
	return b.inner.Exists(ctx, name)
}

func (b *Bucket) Attributes(ctx context.Context, name string) (objstore.ObjectAttributes, error) {
	if err := b.read("attributes", name); err != nil {
		return objstore.ObjectAttributes{}, err
	}
	return b.inner.Attributes(ctx, name)
}

func (b *Bucket) IsObjNotFoundErr(err error) bool  { return b.inner.IsObjNotFoundErr(err) }
func (b *Bucket) IsAccessDeniedErr(err error) bool { return false }

// InstrumentedBucket plumbing (the compactor and fetchers take instrumented buckets).
func (b *Bucket) WithExpectedErrs(objstore.IsOpFailureExpectedFunc) objstore.Bucket { return b }
func (b *Bucket) ReaderWithExpectedErrs(objstore.IsOpFailureExpectedFunc) objstore.BucketReader {
	return b
}

// SetLastModified back-dates an object (virtual time support when not running under synctest).
func (b *Bucket) SetLastModified(name string, t time.Time) error {
	return b.inner.ChangeLastModified(name, t)
}

type sliceReader struct {
	b []byte
	i int
}

func (s *sliceReader) Read(p []byte) (int, error) {
	if s.i >= len(s.b) {
		return 0, io.EOF
	}
	n := copy(p, s.b[s.i:])
	s.i += n
	return n, nil
}

func readerOf(b []byte) io.Reader { return &sliceReader{b: b} }

var _ objstore.InstrumentedBucket = (*Bucket)(nil)
