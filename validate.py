#!/opt/veriftools/pyvenv/bin/python
import json, sys, glob, jsonschema
jsonschema.validate(json.load(open('/verif/MANIFEST.json')), json.load(open('/root/.vp/MANIFEST.schema.json')))
es = json.load(open('/root/.vp/EVIDENCE.schema.json'))
for p in sorted(glob.glob('/verif/evidence/*.json')):
    jsonschema.validate(json.load(open(p)), es)
print('manifest and %d evidence files valid' % len(glob.glob('/verif/evidence/*.json')))
