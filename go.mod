module verif

go 1.26.0

require (
	capnproto.org/go/capnp/v3 v3.1.0-alpha.1
	cloud.google.com/go/trace v1.11.6
	github.com/GoogleCloudPlatform/opentelemetry-operations-go/exporter/trace v1.27.0
	github.com/KimMachineGun/automemlimit v0.7.5
	github.com/VictoriaMetrics/easyproto v1.1.3
	github.com/alecthomas/kingpin/v2 v2.4.0
	github.com/alecthomas/units v0.0.0-20240927000941-0f3dac36c52b
	github.com/alicebob/miniredis/v2 v2.35.0
	github.com/anishathalye/porcupine v1.3.0
	github.com/blang/semver/v4 v4.0.0
	github.com/bradfitz/gomemcache v0.0.0-20250403215159-8d39553ac7cf
	github.com/caio/go-tdigest v3.1.0+incompatible
	github.com/cespare/xxhash/v2 v2.3.0
	github.com/chromedp/cdproto v0.0.0-20230802225258-3cf4e6d46a89
	github.com/chromedp/chromedp v0.9.2
	github.com/colega/zeropool v0.0.0-20230505084239-6fb4a4f75381
	github.com/coreos/go-systemd/v22 v22.6.0
	github.com/cortexproject/promqlsmith v0.0.0-20250407233056-90db95b1a4e4
	github.com/cristalhq/hedgedhttp v0.9.1
	github.com/dustin/go-humanize v1.0.1
	github.com/efficientgo/core v1.0.0-rc.3
	github.com/efficientgo/e2e v0.14.1-0.20260204162810-8c75b1e33ef9
	github.com/efficientgo/tools/extkingpin v0.0.0-20230505153745-6b7392939a60
	github.com/facette/natsort v0.0.0-20181210072756-2cd4dd1e2dcb
	github.com/fatih/structtag v1.2.0
	github.com/felixge/fgprof v0.9.5
	github.com/fortytw2/leaktest v1.3.0
	github.com/fsnotify/fsnotify v1.9.0
	github.com/go-kit/log v0.2.1
	github.com/go-openapi/strfmt v0.25.0
	github.com/gogo/protobuf v1.3.2
	github.com/gogo/status v1.1.1
	github.com/golang/groupcache v0.0.0-20241129210726-2c02b8208cf8
	github.com/golang/protobuf v1.5.4
	github.com/golang/snappy v1.0.0
	github.com/google/go-cmp v0.7.0
	github.com/google/uuid v1.6.0
	github.com/googleapis/gax-go v2.0.2+incompatible
	github.com/grpc-ecosystem/go-grpc-middleware/providers/prometheus v1.0.1
	github.com/grpc-ecosystem/go-grpc-middleware/v2 v2.3.2
	github.com/hashicorp/golang-lru/v2 v2.0.7
	github.com/jpillora/backoff v1.0.0
	github.com/json-iterator/go v1.1.12
	github.com/klauspost/compress v1.18.2
	github.com/leanovate/gopter v0.2.9
	github.com/lightstep/lightstep-tracer-go v0.26.0
	github.com/lovoo/gcloud-opentracing v0.3.0
	github.com/miekg/dns v1.1.69
	github.com/minio/sha256-simd v1.0.1
	github.com/mitchellh/go-ps v1.0.0
	github.com/mwitkow/go-conntrack v0.0.0-20190716064945-2f068394615f
	github.com/oklog/run v1.2.0
	github.com/oklog/ulid/v2 v2.1.1
	github.com/olekukonko/tablewriter v0.0.5
	github.com/onsi/gomega v1.36.2
	github.com/opentracing/basictracer-go v1.1.0
	github.com/opentracing/opentracing-go v1.2.0
	github.com/pkg/errors v0.9.1
	github.com/prometheus-community/prom-label-proxy v0.11.1
	github.com/prometheus/alertmanager v0.30.0
	github.com/prometheus/client_golang v1.23.2
	github.com/prometheus/client_model v0.6.2
	github.com/prometheus/common v0.67.5
	github.com/prometheus/exporter-toolkit v0.15.0
	github.com/prometheus/otlptranslator v1.0.0
	github.com/prometheus/prometheus v0.309.1
	github.com/redis/rueidis v1.0.61
	github.com/seiflotfy/cuckoofilter v0.0.0-20240715131351-a2f2c23f1771
	github.com/sony/gobreaker v1.0.0
	github.com/stretchr/testify v1.11.1
	github.com/thanos-io/objstore v0.0.0-20250804093838-71d60dfee488
	github.com/thanos-io/promql-engine v0.0.0-20260707114442-fa2cb843e6ba
	github.com/thanos-io/thanos v0.0.0
	github.com/tjhop/slog-gokit v0.2.2
	github.com/uber/jaeger-client-go v2.30.0+incompatible
	github.com/vimeo/galaxycache v1.3.1
	github.com/weaveworks/common v0.0.0-20230728070032-dd9e68f319d5
	go.elastic.co/apm v1.15.0
	go.elastic.co/apm/module/apmot v1.15.0
	go.opentelemetry.io/collector/pdata v1.48.0
	go.opentelemetry.io/collector/semconv v0.128.0
	go.opentelemetry.io/contrib/propagators/autoprop v0.61.0
	go.opentelemetry.io/contrib/samplers/jaegerremote v0.30.0
	go.opentelemetry.io/otel v1.44.0
	go.opentelemetry.io/otel/bridge/opentracing v1.36.0
	go.opentelemetry.io/otel/exporters/jaeger v1.17.0
	go.opentelemetry.io/otel/exporters/otlp/otlptrace v1.43.0
	go.opentelemetry.io/otel/exporters/otlp/otlptrace/otlptracegrpc v1.43.0
	go.opentelemetry.io/otel/exporters/otlp/otlptrace/otlptracehttp v1.43.0
	go.opentelemetry.io/otel/sdk v1.43.0
	go.opentelemetry.io/otel/trace v1.44.0
	go.opentelemetry.io/proto/otlp v1.10.0
	go.uber.org/atomic v1.11.0
	go.uber.org/goleak v1.3.0
	golang.org/x/crypto v0.53.0
	golang.org/x/net v0.56.0
	golang.org/x/sync v0.21.0
	golang.org/x/text v0.39.0
	golang.org/x/time v0.14.0
	golang.org/x/tools v0.47.0
	google.golang.org/grpc v1.82.1
	google.golang.org/grpc/examples v0.0.0-20250407062114-b368379ef8f6
	google.golang.org/protobuf v1.36.11
	gopkg.in/yaml.v2 v2.4.0
	gopkg.in/yaml.v3 v3.0.1
)

require (
	cel.dev/expr v0.25.1 // indirect
	cloud.google.com/go v0.120.0 // indirect
	cloud.google.com/go/auth v0.17.0 // indirect
	cloud.google.com/go/auth/oauth2adapt v0.2.8 // indirect
	cloud.google.com/go/compute/metadata v0.9.0 // indirect
	cloud.google.com/go/iam v1.5.2 // indirect
	cloud.google.com/go/monitoring v1.24.2 // indirect
	cloud.google.com/go/storage v1.50.0 // indirect
	github.com/Azure/azure-sdk-for-go/sdk/azcore v1.20.0 // indirect
	github.com/Azure/azure-sdk-for-go/sdk/azidentity v1.13.1 // indirect
	github.com/Azure/azure-sdk-for-go/sdk/internal v1.11.2 // indirect
	github.com/Azure/azure-sdk-for-go/sdk/storage/azblob v1.6.1 // indirect
	github.com/AzureAD/microsoft-authentication-library-for-go v1.6.0 // indirect
	github.com/GoogleCloudPlatform/opentelemetry-operations-go/detectors/gcp v1.32.0 // indirect
	github.com/GoogleCloudPlatform/opentelemetry-operations-go/exporter/metric v0.50.0 // indirect
	github.com/GoogleCloudPlatform/opentelemetry-operations-go/internal/resourcemapping v0.52.0 // indirect
	github.com/HdrHistogram/hdrhistogram-go v1.1.2 // indirect
	github.com/aliyun/aliyun-oss-go-sdk v3.0.2+incompatible // indirect
	github.com/armon/go-radix v1.0.0 // indirect
	github.com/aws/aws-sdk-go-v2 v1.41.0 // indirect
	github.com/aws/aws-sdk-go-v2/config v1.32.6 // indirect
	github.com/aws/aws-sdk-go-v2/credentials v1.19.6 // indirect
	github.com/aws/aws-sdk-go-v2/feature/ec2/imds v1.18.16 // indirect
	github.com/aws/aws-sdk-go-v2/internal/configsources v1.4.16 // indirect
	github.com/aws/aws-sdk-go-v2/internal/endpoints/v2 v2.7.16 // indirect
	github.com/aws/aws-sdk-go-v2/internal/ini v1.8.4 // indirect
	github.com/aws/aws-sdk-go-v2/service/internal/accept-encoding v1.13.4 // indirect
	github.com/aws/aws-sdk-go-v2/service/internal/presigned-url v1.13.16 // indirect
	github.com/aws/aws-sdk-go-v2/service/signin v1.0.4 // indirect
	github.com/aws/aws-sdk-go-v2/service/sso v1.30.8 // indirect
	github.com/aws/aws-sdk-go-v2/service/ssooidc v1.35.12 // indirect
	github.com/aws/aws-sdk-go-v2/service/sts v1.41.5 // indirect
	github.com/aws/smithy-go v1.24.0 // indirect
	github.com/baidubce/bce-sdk-go v0.9.230 // indirect
	github.com/bboreham/go-loser v0.0.0-20230920113527-fcc2c21820a3 // indirect
	github.com/beorn7/perks v1.0.1 // indirect
	github.com/cenkalti/backoff/v5 v5.0.3 // indirect
	github.com/chromedp/sysutil v1.0.0 // indirect
	github.com/clbanning/mxj v1.8.4 // indirect
	github.com/cncf/xds/go v0.0.0-20260202195803-dba9d589def2 // indirect
	github.com/davecgh/go-spew v1.1.2-0.20180830191138-d8f796af33cc // indirect
	github.com/dennwc/varint v1.0.0 // indirect
	github.com/dgryski/go-metro v0.0.0-20250106013310-edb8663e5e33 // indirect
	github.com/edsrzf/mmap-go v1.2.0 // indirect
	github.com/elastic/go-licenser v0.4.2 // indirect
	github.com/elastic/go-sysinfo v1.15.3 // indirect
	github.com/elastic/go-windows v1.0.2 // indirect
	github.com/envoyproxy/go-control-plane/envoy v1.37.0 // indirect
	github.com/envoyproxy/protoc-gen-validate v1.3.3 // indirect
	github.com/fatih/color v1.18.0 // indirect
	github.com/felixge/httpsnoop v1.0.4 // indirect
	github.com/go-ini/ini v1.67.0 // indirect
	github.com/go-jose/go-jose/v4 v4.1.4 // indirect
	github.com/go-logfmt/logfmt v0.6.1 // indirect
	github.com/go-logr/logr v1.4.3 // indirect
	github.com/go-logr/stdr v1.2.2 // indirect
	github.com/go-openapi/analysis v0.24.1 // indirect
	github.com/go-openapi/errors v0.22.4 // indirect
	github.com/go-openapi/jsonpointer v0.22.1 // indirect
	github.com/go-openapi/jsonreference v0.21.3 // indirect
	github.com/go-openapi/loads v0.23.2 // indirect
	github.com/go-openapi/runtime v0.29.2 // indirect
	github.com/go-openapi/spec v0.22.1 // indirect
	github.com/go-openapi/swag v0.25.4 // indirect
	github.com/go-openapi/swag/cmdutils v0.25.4 // indirect
	github.com/go-openapi/swag/conv v0.25.4 // indirect
	github.com/go-openapi/swag/fileutils v0.25.4 // indirect
	github.com/go-openapi/swag/jsonname v0.25.4 // indirect
	github.com/go-openapi/swag/jsonutils v0.25.4 // indirect
	github.com/go-openapi/swag/loading v0.25.4 // indirect
	github.com/go-openapi/swag/mangling v0.25.4 // indirect
	github.com/go-openapi/swag/netutils v0.25.4 // indirect
	github.com/go-openapi/swag/stringutils v0.25.4 // indirect
	github.com/go-openapi/swag/typeutils v0.25.4 // indirect
	github.com/go-openapi/swag/yamlutils v0.25.4 // indirect
	github.com/go-openapi/validate v0.25.1 // indirect
	github.com/go-viper/mapstructure/v2 v2.4.0 // indirect
	github.com/gobwas/glob v0.2.3 // indirect
	github.com/gobwas/httphead v0.1.0 // indirect
	github.com/gobwas/pool v0.2.1 // indirect
	github.com/gobwas/ws v1.2.1 // indirect
	github.com/goccy/go-json v0.10.5 // indirect
	github.com/gofrs/flock v0.12.1 // indirect
	github.com/gogo/googleapis v1.4.1 // indirect
	github.com/golang-jwt/jwt/v5 v5.3.0 // indirect
	github.com/google/go-querystring v1.1.0 // indirect
	github.com/google/pprof v0.0.0-20251213031049-b05bdaca462f // indirect
	github.com/google/s2a-go v0.1.9 // indirect
	github.com/googleapis/enterprise-certificate-proxy v0.3.7 // indirect
	github.com/googleapis/gax-go/v2 v2.15.0 // indirect
	github.com/gorilla/mux v1.8.1 // indirect
	github.com/grafana/regexp v0.0.0-20250905093917-f7b3be9d1853 // indirect
	github.com/grpc-ecosystem/grpc-gateway/v2 v2.28.0 // indirect
	github.com/hashicorp/go-version v1.8.0 // indirect
	github.com/huaweicloud/huaweicloud-sdk-go-obs v3.25.4+incompatible // indirect
	github.com/jaegertracing/jaeger-idl v0.6.0 // indirect
	github.com/jcchavezs/porto v0.7.0 // indirect
	github.com/josharian/intern v1.0.0 // indirect
	github.com/julienschmidt/httprouter v1.3.0 // indirect
	github.com/klauspost/cpuid/v2 v2.2.10 // indirect
	github.com/knadh/koanf/maps v0.1.2 // indirect
	github.com/knadh/koanf/providers/confmap v1.0.0 // indirect
	github.com/knadh/koanf/v2 v2.3.0 // indirect
	github.com/kylelemons/godebug v1.1.0 // indirect
	github.com/leesper/go_rng v0.0.0-20190531154944-a612b043e353 // indirect
	github.com/lightstep/lightstep-tracer-common/golang/gogo v0.0.0-20210210170715-a8dfcb80d3a7 // indirect
	github.com/mailru/easyjson v0.9.0 // indirect
	github.com/mattn/go-colorable v0.1.14 // indirect
	github.com/mattn/go-runewidth v0.0.16 // indirect
	github.com/mdlayher/socket v0.5.1 // indirect
	github.com/mdlayher/vsock v1.2.1 // indirect
	github.com/metalmatze/signal v0.0.0-20210307161603-1c9aa721a97a // indirect
	github.com/minio/crc64nvme v1.0.1 // indirect
	github.com/minio/md5-simd v1.1.2 // indirect
	github.com/minio/minio-go/v7 v7.0.93 // indirect
	github.com/mitchellh/copystructure v1.2.0 // indirect
	github.com/mitchellh/mapstructure v1.5.0 // indirect
	github.com/mitchellh/reflectwalk v1.0.2 // indirect
	github.com/modern-go/concurrent v0.0.0-20180306012644-bacd9c7ef1dd // indirect
	github.com/modern-go/reflect2 v1.0.3-0.20250322232337-35a7c28c31ee // indirect
	github.com/mozillazg/go-httpheader v0.4.0 // indirect
	github.com/munnerz/goautoneg v0.0.0-20191010083416-a7dc8b61c822 // indirect
	github.com/ncw/swift v1.0.53 // indirect
	github.com/oklog/ulid v1.3.1 // indirect
	github.com/onsi/ginkgo v1.16.5 // indirect
	github.com/open-telemetry/opentelemetry-collector-contrib/internal/exp/metrics v0.142.0 // indirect
	github.com/open-telemetry/opentelemetry-collector-contrib/pkg/pdatautil v0.142.0 // indirect
	github.com/open-telemetry/opentelemetry-collector-contrib/processor/deltatocumulativeprocessor v0.142.0 // indirect
	github.com/opentracing-contrib/go-grpc v0.1.2 // indirect
	github.com/opentracing-contrib/go-stdlib v1.1.0 // indirect
	github.com/oracle/oci-go-sdk/v65 v65.93.1 // indirect
	github.com/pbnjay/memory v0.0.0-20210728143218-7b4eea64cf58 // indirect
	github.com/philhofer/fwd v1.1.3-0.20240916144458-20a13a1f6b7c // indirect
	github.com/pkg/browser v0.0.0-20240102092130-5ac0b6a4141c // indirect
	github.com/planetscale/vtprotobuf v0.6.1-0.20240319094008-0393e58bdf10 // indirect
	github.com/pmezard/go-difflib v1.0.1-0.20181226105442-5d4384ee4fb2 // indirect
	github.com/prometheus/client_golang/exp v0.0.0-20251212205219-7ba246a648ca // indirect
	github.com/prometheus/procfs v0.16.1 // indirect
	github.com/prometheus/sigv4 v0.3.0 // indirect
	github.com/puzpuzpuz/xsync/v3 v3.5.1 // indirect
	github.com/rivo/uniseg v0.4.7 // indirect
	github.com/rs/xid v1.6.0 // indirect
	github.com/santhosh-tekuri/jsonschema v1.2.4 // indirect
	github.com/sercand/kuberesolver/v4 v4.0.0 // indirect
	github.com/sirupsen/logrus v1.9.3 // indirect
	github.com/spiffe/go-spiffe/v2 v2.6.0 // indirect
	github.com/stretchr/objx v0.5.2 // indirect
	github.com/tencentyun/cos-go-sdk-v5 v0.7.66 // indirect
	github.com/tinylib/msgp v1.3.0 // indirect
	github.com/uber/jaeger-lib v2.4.1+incompatible // indirect
	github.com/weaveworks/promrus v1.2.0 // indirect
	github.com/xhit/go-str2duration/v2 v2.1.0 // indirect
	github.com/youmark/pkcs8 v0.0.0-20240726163527-a2c0da244d78 // indirect
	github.com/yuin/gopher-lua v1.1.1 // indirect
	go.elastic.co/apm/module/apmhttp v1.15.0 // indirect
	go.elastic.co/fastjson v1.5.1 // indirect
	go.mongodb.org/mongo-driver v1.17.6 // indirect
	go.opencensus.io v0.24.0 // indirect
	go.opentelemetry.io/auto/sdk v1.2.1 // indirect
	go.opentelemetry.io/collector/component v1.48.0 // indirect
	go.opentelemetry.io/collector/confmap v1.48.0 // indirect
	go.opentelemetry.io/collector/confmap/xconfmap v0.142.0 // indirect
	go.opentelemetry.io/collector/consumer v1.48.0 // indirect
	go.opentelemetry.io/collector/featuregate v1.48.0 // indirect
	go.opentelemetry.io/collector/pipeline v1.48.0 // indirect
	go.opentelemetry.io/collector/processor v1.48.0 // indirect
	go.opentelemetry.io/contrib/detectors/gcp v1.43.0 // indirect
	go.opentelemetry.io/contrib/instrumentation/google.golang.org/grpc/otelgrpc v0.61.0 // indirect
	go.opentelemetry.io/contrib/instrumentation/net/http/httptrace/otelhttptrace v0.64.0 // indirect
	go.opentelemetry.io/contrib/instrumentation/net/http/otelhttp v0.64.0 // indirect
	go.opentelemetry.io/contrib/propagators/aws v1.36.0 // indirect
	go.opentelemetry.io/contrib/propagators/b3 v1.36.0 // indirect
	go.opentelemetry.io/contrib/propagators/jaeger v1.36.0 // indirect
	go.opentelemetry.io/contrib/propagators/ot v1.36.0 // indirect
	go.opentelemetry.io/otel/metric v1.44.0 // indirect
	go.opentelemetry.io/otel/sdk/metric v1.43.0 // indirect
	go.uber.org/multierr v1.11.0 // indirect
	go.uber.org/zap v1.27.1 // indirect
	go.yaml.in/yaml/v2 v2.4.3 // indirect
	go.yaml.in/yaml/v3 v3.0.4 // indirect
	golang.org/x/exp v0.0.0-20250808145144-a408d31f581a // indirect
	golang.org/x/lint v0.0.0-20241112194109-818c5a804067 // indirect
	golang.org/x/mod v0.37.0 // indirect
	golang.org/x/oauth2 v0.36.0 // indirect
	golang.org/x/sys v0.46.0 // indirect
	golang.org/x/telemetry v0.0.0-20260625142307-59b4966ccb57 // indirect
	gonum.org/v1/gonum v0.17.0 // indirect
	google.golang.org/api v0.257.0 // indirect
	google.golang.org/genproto v0.0.0-20250603155806-513f23925822 // indirect
	google.golang.org/genproto/googleapis/api v0.0.0-20260414002931-afd174a4e478 // indirect
	google.golang.org/genproto/googleapis/rpc v0.0.0-20260615183401-62b3387ff324 // indirect
	howett.net/plist v1.0.1 // indirect
	k8s.io/apimachinery v0.34.3 // indirect
	k8s.io/client-go v0.34.3 // indirect
	k8s.io/klog/v2 v2.130.1 // indirect
	k8s.io/utils v0.0.0-20250604170112-4c0f3b243397 // indirect
	zenhack.net/go/util v0.0.0-20230414204917-531d38494cf5 // indirect
)

replace github.com/thanos-io/thanos => /repo

replace (
	// Pinnning capnp due to https://github.com/thanos-io/thanos/issues/7944
	capnproto.org/go/capnp/v3 => capnproto.org/go/capnp/v3 v3.0.0-alpha.30

	// Using a 3rd-party branch for custom dialer - see https://github.com/bradfitz/gomemcache/pull/86.
	// Required by Cortex https://github.com/cortexproject/cortex/pull/3051.
	github.com/bradfitz/gomemcache => github.com/themihai/gomemcache v0.0.0-20180902122335-24332e2d58ab

	// Pin kuberesolver/v5 to support new grpc version. Need to upgrade kuberesolver version on weaveworks/common.
	github.com/sercand/kuberesolver/v4 => github.com/sercand/kuberesolver/v5 v5.1.1

	github.com/vimeo/galaxycache => github.com/thanos-community/galaxycache v0.0.0-20211122094458-3a32041a1f1e

	// Overriding to use latest commit.
	gopkg.in/alecthomas/kingpin.v2 => github.com/alecthomas/kingpin v1.3.8-0.20210301060133-17f40c25f497

	// The domain `zenhack.net` expired.
	zenhack.net/go/util => github.com/zenhack/go-util v0.0.0-20231005031245-66f5419c2aea
)
