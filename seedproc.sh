#!/bin/bash
# seedproc.sh <ID>: confirm a seeded defect produced in /tmp/seed-<ID> (demo passes without / fails with the
# patch), store it under /verif/seeded/<ID>/, and run the corresponding check against it (overlay, /repo untouched).
ID=$1
R=${2:-}
WT=/tmp/seed$R-$ID
DEST=$ID; [ -n "$R" ] && DEST=$ID-r$R
export GOFLAGS=-mod=mod GOPROXY=off
mkdir -p /verif/seeded/$DEST
[ -f $WT/SEED/patch.diff ] || { echo "no patch in $WT/SEED"; exit 2; }
rm -rf /verif/seeded/$DEST/demo; cp -r $WT/SEED/patch.diff $WT/SEED/meta.json /verif/seeded/$DEST/ 2>/dev/null; cp -r $WT/SEED/demo /verif/seeded/$DEST/demo
cd $WT || exit 2
cp -r SEED /var/tmp/seedkeep-$DEST
git checkout -q -- . ; git clean -fdq -e SEED
echo "--- demo WITHOUT patch"; ( timeout 1200 bash SEED/demo/run.sh > /var/tmp/seedkeep-$DEST/without.log 2>&1 ); W=$?; echo "exit=$W"
git checkout -q -- . ; git clean -fdq -e SEED
git apply SEED/patch.diff || { echo "PATCH DOES NOT APPLY"; exit 2; }
go build ./pkg/... ./cmd/... || echo "BUILD FAILS WITH PATCH"
echo "--- demo WITH patch"; ( timeout 1200 bash SEED/demo/run.sh > /var/tmp/seedkeep-$DEST/with.log 2>&1 ); P=$?; echo "exit=$P"
git checkout -q -- . ; git clean -fdq -e SEED
cp /var/tmp/seedkeep-$DEST/without.log /var/tmp/seedkeep-$DEST/with.log /verif/seeded/$DEST/ 2>/dev/null
rm -rf /var/tmp/seedkeep-$DEST
echo "--- check $ID with the seeded patch"
cd /verif && timeout 2400 ./check $ID --mutant seeded/$DEST/patch.diff > /var/tmp/seedcheck-$DEST.log 2>&1; C=$?
grep -v "^built" /var/tmp/seedcheck-$DEST.log | cut -c1-400 | head -8
SIGS=$(grep -o "signature=[^ ]*" /var/tmp/seedcheck-$DEST.log | sort -u | tr '\n' ' ')
cat > /verif/seeded/$DEST/confirm.json <<EOT
{"property": "$ID", "demo_exit_without_patch": $W, "demo_exit_with_patch": $P, "check_cmd": "./check $ID --mutant seeded/$DEST/patch.diff", "check_exit": $C, "check_signatures": "$SIGS", "confirmed_by": "seedproc.sh in the scratch worktree $WT (removed afterwards)"}
EOT
rm -f /var/tmp/seedcheck-$DEST.log
echo "demo_without_exit=$W demo_with_exit=$P check_exit=$C"
