#!/bin/bash
# seedproc.sh <ID>: confirm a seeded defect produced in /tmp/seed-<ID> (demo passes without / fails with the
# patch), store it under /verif/seeded/<ID>/, and run the corresponding check against it (overlay, /repo untouched).
ID=$1
WT=/tmp/seed-$ID
export GOFLAGS=-mod=mod GOPROXY=off
mkdir -p /verif/seeded/$ID
[ -f $WT/SEED/patch.diff ] || { echo "no patch in $WT/SEED"; exit 2; }
rm -rf /verif/seeded/$ID/demo; cp -r $WT/SEED/patch.diff $WT/SEED/meta.json /verif/seeded/$ID/ 2>/dev/null; cp -r $WT/SEED/demo /verif/seeded/$ID/demo
cd $WT || exit 2
cp -r SEED /var/tmp/seedkeep-$ID
git checkout -q -- . ; git clean -fdq -e SEED
echo "--- demo WITHOUT patch"; ( timeout 1200 bash SEED/demo/run.sh > /var/tmp/seedkeep-$ID/without.log 2>&1 ); W=$?; echo "exit=$W"
git checkout -q -- . ; git clean -fdq -e SEED
git apply SEED/patch.diff || { echo "PATCH DOES NOT APPLY"; exit 2; }
go build ./pkg/... ./cmd/... || echo "BUILD FAILS WITH PATCH"
echo "--- demo WITH patch"; ( timeout 1200 bash SEED/demo/run.sh > /var/tmp/seedkeep-$ID/with.log 2>&1 ); P=$?; echo "exit=$P"
git checkout -q -- . ; git clean -fdq -e SEED
cp /var/tmp/seedkeep-$ID/without.log /var/tmp/seedkeep-$ID/with.log /verif/seeded/$ID/ 2>/dev/null
rm -rf /var/tmp/seedkeep-$ID
echo "--- check $ID with the seeded patch"
cd /verif && timeout 2400 ./check $ID --mutant seeded/$ID/patch.diff > /var/tmp/seedcheck-$ID.log 2>&1; C=$?
grep -v "^built" /var/tmp/seedcheck-$ID.log | cut -c1-400 | head -8
SIGS=$(grep -o "signature=[^ ]*" /var/tmp/seedcheck-$ID.log | sort -u | tr '\n' ' ')
cat > /verif/seeded/$ID/confirm.json <<EOT
{"property": "$ID", "demo_exit_without_patch": $W, "demo_exit_with_patch": $P, "check_cmd": "./check $ID --mutant seeded/$ID/patch.diff", "check_exit": $C, "check_signatures": "$SIGS", "confirmed_by": "seedproc.sh in the scratch worktree /tmp/seed-$ID (removed afterwards)"}
EOT
rm -f /var/tmp/seedcheck-$ID.log
echo "demo_without_exit=$W demo_with_exit=$P check_exit=$C"
