// Package vsync is the run-time half of engine E1: drop-in shims for the synchronisation operations of
// instrumented Thanos source files (sync.Mutex/RWMutex/Cond/WaitGroup/Once, channel send/receive/close/
// select/range, go statements, timers and the clock) plus a cooperative scheduler that runs the threads of
// one execution one at a time and lets an explorer decide, at every operation, which thread goes next.
//
// With no execution active every shim delegates to the real primitive, so the same instrumented build runs
// free (e.g. under -race).
package vsync

import (
	"fmt"
	"os"
	"reflect"
	"runtime"
	"sort"
	"strconv"
	"strings"
	"sync"
	"sync/atomic"
	"time"
)

// opKind enumerates pending operations.
type opKind int

const (
	opStart    opKind = iota // thread created, not yet run
	opContinue               // pure scheduling point / completed rendezvous partner
	opLock
	opRLock
	opCondWake // blocked in Cond.Wait until signalled
	opWGWait
	opOnce
	opSelect  // also plain send / recv (one case, no default)
	opSleep   // blocked until the virtual clock reaches a deadline (timer pseudo-event wakes it)
	opJoin    // harness: wait for thread termination
	opQuiesce // harness: enabled only when no other thread can run
)

type selCase struct {
	send bool
	ch   reflect.Value // invalid for nil channel
	key  uintptr
}

type pend struct {
	kind   opKind
	obj    any       // *Mutex, *RWMutex, *WaitGroup, *Once, *Cond …
	cases  []selCase // opSelect
	hasDef bool
	desc   string
	arrive int64 // arrival sequence number (FIFO partner choice)
	join   *thread
}

type thread struct {
	id       int
	name     string
	resume   chan struct{}
	p        pend
	done     bool
	selected int // select: chosen case (-1 = default)
	partner  bool
	nops     int
	signaled bool // cond wake-up delivered
	panicVal any
	exec     *Exec
}

// Alt is one alternative at a scheduling point.
type Alt struct {
	T    int // thread id, or -1-timerIndex for timer firing
	Case int // select case (or 0)
	Cost int // deviation cost of taking it instead of alternative 0
}

// Chooser decides at each scheduling point. alts[0] is the default.
type Chooser interface {
	Choose(point int, alts []Alt, desc func(Alt) string) int
}

type chanState struct {
	closed bool
}

type timer struct {
	deadline int64 // virtual ns
	seq      int64
	armed    bool
	fn       func()         // AfterFunc
	ch       chan time.Time // NewTimer / After (cap 1)
	sleeper  *thread        // Sleep
	owner    *Timer
}

// Exec is one controlled execution.
type Exec struct {
	mu       sync.Mutex // protects nothing hot: threads run one at a time; used for the parked hand-off only
	threads  []*thread
	cur      *thread
	parked   chan *thread
	pair     chan struct{}
	abort    chan struct{}
	aborting atomic.Bool
	chooser  Chooser
	chans    map[uintptr]*chanState
	timers   []*timer
	now      int64
	seq      int64
	objIDs   map[any]int

	Points      int // scheduling points with >1 alternative
	Steps       int
	MaxSteps    int
	Trace       []string // one entry per executed operation when Tracing
	Tracing     bool
	Deadlock    bool
	DeadlockMsg string
	Horizon     bool
	Panics      []string
	MaxThreads  int
	// Invariant, when set, is evaluated at every scheduling point (all threads parked); a non-empty
	// result is recorded in InvariantViolations.
	Invariant           func() string
	InvariantViolations []string
	StateHash           func() uint64 // optional extra state for the digest
	Digests             map[uint64]struct{}
	TrackDigests        bool
	// OnTimerFire, when set, is called (all threads parked) when an AfterFunc timer fires, with the name of the
	// thread that will run the timer's function.
	OnTimerFire func(thread string)
	timerFires  int
	watch       atomic.Int64 // last progress (unix nano) for the foreign-blocking watchdog
	Stalled     bool
}

var current atomic.Pointer[Exec]

func cur() *Exec { return current.Load() }

// Active reports whether a controlled execution is running.
func Active() bool { return cur() != nil }

var baseTime = time.Date(2024, 1, 1, 0, 0, 0, 0, time.UTC)

// gidMap maps goroutine → thread for the running execution.
var gidMap sync.Map // int64 -> *thread

func goid() int64 {
	var buf [64]byte
	n := runtime.Stack(buf[:], false)
	// "goroutine 123 ["
	s := buf[10:n]
	var id int64
	for _, c := range s {
		if c < '0' || c > '9' {
			break
		}
		id = id*10 + int64(c-'0')
	}
	return id
}

func (e *Exec) self() *thread {
	if v, ok := gidMap.Load(goid()); ok {
		t := v.(*thread)
		if t.exec == e {
			return t
		}
	}
	return nil
}

// Run executes body as thread 0 under the scheduler with the given chooser and returns the finished
// execution record. Only one execution can be active per process.
func Run(chooser Chooser, maxSteps int, setup func(e *Exec), body func()) *Exec {
	e := &Exec{
		parked:   make(chan *thread),
		pair:     make(chan struct{}),
		abort:    make(chan struct{}),
		chooser:  chooser,
		chans:    map[uintptr]*chanState{},
		objIDs:   map[any]int{},
		MaxSteps: maxSteps,
		Digests:  map[uint64]struct{}{},
	}
	if !current.CompareAndSwap(nil, e) {
		panic("vsync: an execution is already active")
	}
	if setup != nil {
		setup(e)
	}
	e.spawn("main", body)
	e.loop()
	current.Store(nil)
	return e
}

func (e *Exec) spawn(name string, f func()) *thread {
	t := &thread{id: len(e.threads), name: name, resume: make(chan struct{}), exec: e}
	t.p = pend{kind: opStart, desc: "start"}
	e.threads = append(e.threads, t)
	if len(e.threads) > e.MaxThreads {
		e.MaxThreads = len(e.threads)
	}
	go func() {
		gidMap.Store(goid(), t)
		defer gidMap.Delete(goid())
		// wait for the first scheduling decision
		select {
		case <-t.resume:
		case <-e.abort:
			t.done = true
			return
		}
		defer func() {
			if r := recover(); r != nil {
				if _, ok := r.(abortSignal); !ok {
					t.panicVal = r
					e.Panics = append(e.Panics, fmt.Sprintf("thread %d(%s): %v", t.id, t.name, r))
				}
			}
			t.done = true
			if e.aborting.Load() {
				return
			}
			if t.partner {
				// finished right after a rendezvous as the passive side: cannot happen (After parks)
				t.partner = false
			}
			e.parked <- t
		}()
		f()
	}()
	return t
}

type abortSignal struct{}

// yield publishes the pending operation of the running thread, parks it and returns when the scheduler
// has chosen it again (the operation's effect has then been applied by the scheduler).
func (e *Exec) yield(t *thread, p pend) {
	if e.aborting.Load() {
		panic(abortSignal{})
	}
	e.seq++
	p.arrive = e.seq
	t.p = p
	e.parked <- t
	select {
	case <-t.resume:
	case <-e.abort:
		panic(abortSignal{})
	}
}

func (e *Exec) objID(o any) int {
	if id, ok := e.objIDs[o]; ok {
		return id
	}
	id := len(e.objIDs)
	e.objIDs[o] = id
	return id
}

// enabledCases returns the ready cases of a select-like pending op.
func (e *Exec) readyCases(t *thread) []int {
	var out []int
	for i, c := range t.p.cases {
		if e.caseReady(t, c) {
			out = append(out, i)
		}
	}
	return out
}

func (e *Exec) chanClosed(c selCase) bool {
	if st := e.chans[c.key]; st != nil && st.closed {
		return true
	}
	return false
}

func (e *Exec) caseReady(t *thread, c selCase) bool {
	if !c.ch.IsValid() || c.ch.IsNil() {
		return false
	}
	if c.send {
		if e.chanClosed(c) {
			return true // will panic, like Go
		}
		if c.ch.Cap() > 0 {
			return c.ch.Len() < c.ch.Cap()
		}
		return e.findPartner(t, c) != nil
	}
	if c.ch.Len() > 0 || e.chanClosed(c) {
		return true
	}
	if c.ch.Cap() == 0 && e.findPartner(t, c) != nil {
		return true
	}
	// channel closed by un-instrumented code (context cancellation)?
	if e.foreignClosed(c) {
		return true
	}
	return false
}

// foreignClosed probes a channel that instrumented code never closed: a non-blocking receive that
// reports "closed". Harness rules guarantee no un-instrumented goroutine sends on such channels.
func (e *Exec) foreignClosed(c selCase) bool {
	if c.ch.Type().ChanDir()&reflect.RecvDir == 0 {
		return false
	}
	x, ok := c.ch.TryRecv()
	if x.IsValid() && !ok {
		st := e.chans[c.key]
		if st == nil {
			st = &chanState{}
			e.chans[c.key] = st
		}
		st.closed = true
		return true
	}
	if x.IsValid() && ok {
		panic("vsync: consumed a value sent by un-instrumented code on a probed channel")
	}
	return false
}

// findPartner finds the earliest-arrived other thread with a complementary pending case on the same
// unbuffered channel.
func (e *Exec) findPartner(t *thread, c selCase) *thread {
	var best *thread
	for _, o := range e.threads {
		if o == t || o.done || o.p.kind != opSelect {
			continue
		}
		for _, oc := range o.p.cases {
			if oc.key == c.key && oc.send != c.send && oc.ch.IsValid() {
				if best == nil || o.p.arrive < best.p.arrive {
					best = o
				}
			}
		}
	}
	return best
}

func (e *Exec) partnerCase(o *thread, c selCase) int {
	for i, oc := range o.p.cases {
		if oc.key == c.key && oc.send != c.send {
			return i
		}
	}
	return -1
}

func (e *Exec) threadEnabled(t *thread) bool {
	switch t.p.kind {
	case opStart, opContinue:
		return true
	case opLock:
		switch m := t.p.obj.(type) {
		case *Mutex:
			return m.owner == nil
		case *RWMutex:
			return m.writer == nil && m.readers == 0
		}
	case opRLock:
		m := t.p.obj.(*RWMutex)
		return m.writer == nil
	case opCondWake:
		return t.signaled
	case opWGWait:
		return t.p.obj.(*WaitGroup).n == 0
	case opOnce:
		return !t.p.obj.(*Once).running
	case opSelect:
		return t.p.hasDef || len(e.readyCases(t)) > 0
	case opSleep:
		return false // woken by its timer
	case opJoin:
		return t.p.join.done
	case opQuiesce:
		for _, o := range e.threads {
			if o != t && !o.done && o.p.kind != opQuiesce && e.threadEnabled(o) {
				return false
			}
		}
		return true
	}
	return false
}

// Clock is a logical timestamp (number of scheduling steps so far) for call/return histories.
func Clock() int64 {
	if e := cur(); e != nil {
		return int64(e.Steps)
	}
	return 0
}

func (e *Exec) nextTimer() *timer {
	var best *timer
	for _, tm := range e.timers {
		if !tm.armed {
			continue
		}
		if tm.deadline-e.now > int64(50*365*24*time.Hour) {
			continue // armed "forever" (e.g. Reset(math.MaxInt64)): never fires
		}
		if best == nil || tm.deadline < best.deadline || (tm.deadline == best.deadline && tm.seq < best.seq) {
			best = tm
		}
	}
	return best
}

func (e *Exec) describe(a Alt) string {
	if a.T < 0 {
		return "timer"
	}
	t := e.threads[a.T]
	return fmt.Sprintf("t%d:%s#%d", t.id, t.p.desc, a.Case)
}

func (e *Exec) digest() uint64 {
	var sb strings.Builder
	for _, t := range e.threads {
		fmt.Fprintf(&sb, "%d:%d:%v:%s|", t.id, t.nops, t.done, t.p.desc)
	}
	h := uint64(14695981039346656037)
	for _, b := range []byte(sb.String()) {
		h ^= uint64(b)
		h *= 1099511628211
	}
	if e.StateHash != nil {
		h ^= e.StateHash() * 0x9e3779b97f4a7c15
	}
	return h
}

// watchdog: real time without reaching a scheduling point after which a run is given up as HARNESS-ERROR.
var watchdog = func() time.Duration {
	if v, err := strconv.Atoi(os.Getenv("VERIF_WATCHDOG_S")); err == nil && v > 0 {
		return time.Duration(v) * time.Second
	}
	return 600 * time.Second
}()

// loop is the scheduler.
func (e *Exec) loop() {
	running := e.threads[0]
	first := true
	// The watchdog only ends runs in which a thread blocks natively in un-instrumented code; it is generous (an
	// overloaded machine can delay a runnable goroutine for a long time) and one timer is reused for all steps.
	wd := time.NewTimer(watchdog)
	defer wd.Stop()
	for {
		if !first {
			// wait for the running thread to park or finish (with a watchdog for foreign blocking)
			wd.Reset(watchdog)
			select {
			case <-e.parked:
			case <-wd.C:
				e.Stalled = true
				e.DeadlockMsg = fmt.Sprintf("HARNESS: running thread did not reach a scheduling point within %v (blocked in un-instrumented code?)", watchdog)
				e.abortAll()
				return
			}
		}
		first = false
		e.Steps++
		if e.Invariant != nil {
			if msg := e.Invariant(); msg != "" {
				if len(e.InvariantViolations) < 4 {
					e.InvariantViolations = append(e.InvariantViolations, msg)
				}
			}
		}
		if e.TrackDigests {
			e.Digests[e.digest()] = struct{}{}
		}
		// enabled alternatives in canonical order: running thread first, then ascending ids, timers last.
		var alts []Alt
		order := make([]*thread, 0, len(e.threads))
		if running != nil && !running.done {
			order = append(order, running)
		}
		for _, t := range e.threads {
			if t != running && !t.done {
				order = append(order, t)
			}
		}
		runningEnabled := false
		anyUnfinished := false
		for _, t := range order {
			anyUnfinished = true
			if !e.threadEnabled(t) {
				continue
			}
			if t == running {
				runningEnabled = true
			}
			if t.p.kind == opSelect {
				rc := e.readyCases(t)
				if len(rc) == 0 { // default only
					alts = append(alts, Alt{T: t.id, Case: -1})
				}
				for j, ci := range rc {
					a := Alt{T: t.id, Case: ci}
					if j > 0 {
						a.Cost = 1 // a non-first ready select arm is a deviation
					}
					alts = append(alts, a)
				}
				continue
			}
			alts = append(alts, Alt{T: t.id})
		}
		threadAlts := len(alts)
		if tm := e.nextTimer(); tm != nil {
			a := Alt{T: -1}
			if threadAlts > 0 {
				a.Cost = 1 // firing a timer while threads can run is a deviation
			}
			alts = append(alts, a)
		}
		if runningEnabled {
			for i := range alts {
				if alts[i].T >= 0 && alts[i].T != running.id {
					alts[i].Cost = 1 // preemption
				}
			}
		}
		if len(alts) == 0 {
			if anyUnfinished {
				e.Deadlock = true
				var sb strings.Builder
				for _, t := range order {
					fmt.Fprintf(&sb, "t%d(%s) blocked at %s; ", t.id, t.name, t.p.desc)
				}
				e.DeadlockMsg = sb.String()
				e.abortAll()
			}
			return
		}
		if e.MaxSteps > 0 && e.Steps > e.MaxSteps {
			e.Horizon = true
			e.abortAll()
			return
		}
		choice := 0
		if len(alts) > 1 {
			choice = e.chooser.Choose(e.Points, alts, e.describe)
			e.Points++
			if choice < 0 || choice >= len(alts) {
				panic(fmt.Sprintf("vsync: chooser returned %d for %d alternatives", choice, len(alts)))
			}
		}
		a := alts[choice]
		if a.T < 0 {
			// fire the earliest timer
			tm := e.nextTimer()
			tm.armed = false
			if tm.deadline > e.now {
				e.now = tm.deadline
			}
			if e.Tracing {
				e.Trace = append(e.Trace, "timer-fire")
			}
			switch {
			case tm.fn != nil:
				e.timerFires++
				nt := e.spawn(fmt.Sprintf("afterfunc#%d", e.timerFires), tm.fn)
				if e.OnTimerFire != nil {
					e.OnTimerFire(nt.name)
				}
			case tm.sleeper != nil:
				tm.sleeper.p = pend{kind: opContinue, desc: "woke"}
			case tm.ch != nil:
				select {
				case tm.ch <- baseTime.Add(time.Duration(e.now)):
				default:
				}
			}
			// no thread ran: re-evaluate without waiting for a park
			first = true
			continue
		}
		t := e.threads[a.T]
		if e.Tracing {
			e.Trace = append(e.Trace, fmt.Sprintf("t%d %s #%d", t.id, t.p.desc, a.Case))
		}
		e.apply(t, a.Case)
		t.nops++
		running = t
		e.cur = t
		t.resume <- struct{}{}
	}
}

// apply performs the effect of t's pending operation (all threads are parked).
func (e *Exec) apply(t *thread, cs int) {
	t.partner = false
	switch t.p.kind {
	case opLock:
		switch m := t.p.obj.(type) {
		case *Mutex:
			m.owner = t
		case *RWMutex:
			m.writer = t
		}
	case opRLock:
		t.p.obj.(*RWMutex).readers++
	case opCondWake:
		t.signaled = false
	case opOnce:
		o := t.p.obj.(*Once)
		if !o.done {
			o.running = true
			t.selected = 1 // run f
		} else {
			t.selected = 0
		}
	case opSelect:
		t.selected = cs
		if cs >= 0 {
			c := t.p.cases[cs]
			if c.ch.IsValid() && c.ch.Cap() == 0 && !e.chanClosed(c) {
				// unbuffered: rendezvous with the earliest partner; both perform the real operation.
				if o := e.findPartner(t, c); o != nil {
					o.selected = e.partnerCase(o, c)
					o.partner = true
					o.p = pend{kind: opContinue, desc: "rendezvous-done"}
					o.nops++
					o.resume <- struct{}{}
				}
			}
		}
	}
	t.p = pend{kind: opContinue, desc: "running"}
}

func (e *Exec) abortAll() {
	e.aborting.Store(true)
	close(e.abort)
	// give aborted goroutines a moment to unwind so they do not pile up
	for i := 0; i < 200; i++ {
		alive := false
		for _, t := range e.threads {
			if !t.done {
				alive = true
			}
		}
		if !alive {
			return
		}
		time.Sleep(50 * time.Microsecond)
	}
}

// after is called by a thread right after a real channel operation: the passive side of a rendezvous parks,
// the active side waits for the passive side to have parked (so that one thread runs at a time).
func (e *Exec) after(t *thread, hadPartner bool) {
	if t.partner {
		t.partner = false
		e.pair <- struct{}{}
		select {
		case <-t.resume:
		case <-e.abort:
			panic(abortSignal{})
		}
		return
	}
	if hadPartner {
		select {
		case <-e.pair:
		case <-e.abort:
			panic(abortSignal{})
		}
	}
}

// Outcome summarises how the execution ended, for distinct-outcome counting.
func (e *Exec) Outcome() string {
	var parts []string
	if e.Deadlock {
		parts = append(parts, "deadlock")
	}
	if e.Horizon {
		parts = append(parts, "horizon")
	}
	if e.Stalled {
		parts = append(parts, "stalled")
	}
	ps := append([]string(nil), e.Panics...)
	sort.Strings(ps)
	for _, p := range ps {
		parts = append(parts, "panic:"+p)
	}
	if len(parts) == 0 {
		return "ok"
	}
	return strings.Join(parts, ";")
}

// ThreadInfo describes one thread of the execution for harness monitors (call only while all threads are
// parked, e.g. from Exec.Invariant).
type ThreadInfo struct {
	ID      int
	Name    string
	Pending string
	Done    bool
}

// Threads lists the threads in creation order.
func (e *Exec) Threads() []ThreadInfo {
	out := make([]ThreadInfo, 0, len(e.threads))
	for _, t := range e.threads {
		out = append(out, ThreadInfo{ID: t.id, Name: t.name, Pending: t.p.desc, Done: t.done})
	}
	return out
}

// LastRun is the name of the thread that ran last (the one whose step led to the current scheduling point).
func (e *Exec) LastRun() string {
	if e.cur == nil {
		return ""
	}
	return e.cur.name
}
