package vsync

import (
	"context"
	"fmt"
	"iter"
	"reflect"
	"sync"
	"sync/atomic"
	"time"
)

// Aliases for sync types that are not shimmed (so instrumented signatures still type-check).
type (
	Pool   = sync.Pool
	Map    = sync.Map
	Locker = sync.Locker
)

func mustSelf(e *Exec, what string) *thread {
	t := e.self()
	if t == nil {
		panic("vsync: " + what + " called from a goroutine the scheduler does not own while an execution is active")
	}
	return t
}

// ---------------------------------------------------------------------------------------------- Mutex

type Mutex struct {
	real  sync.Mutex
	owner *thread
}

func (m *Mutex) Lock() {
	e := cur()
	if e == nil {
		m.real.Lock()
		return
	}
	if e.aborting.Load() {
		return
	}
	t := mustSelf(e, "Mutex.Lock")
	e.yield(t, pend{kind: opLock, obj: m, desc: fmt.Sprintf("lock(m%d)", e.objID(m))})
}

func (m *Mutex) TryLock() bool {
	e := cur()
	if e == nil {
		return m.real.TryLock()
	}
	if e.aborting.Load() {
		return true
	}
	t := mustSelf(e, "Mutex.TryLock")
	e.yield(t, pend{kind: opContinue, desc: fmt.Sprintf("trylock(m%d)", e.objID(m))})
	if m.owner == nil {
		m.owner = t
		return true
	}
	return false
}

func (m *Mutex) Unlock() {
	e := cur()
	if e == nil {
		m.real.Unlock()
		return
	}
	if e.aborting.Load() {
		return
	}
	if m.owner == nil {
		panic("sync: unlock of unlocked mutex")
	}
	m.owner = nil
}

// -------------------------------------------------------------------------------------------- RWMutex

// RWMutex is modelled without writer preference (a superset of the runtime's behaviours).
type RWMutex struct {
	real    sync.RWMutex
	writer  *thread
	readers int
}

func (m *RWMutex) Lock() {
	e := cur()
	if e == nil {
		m.real.Lock()
		return
	}
	if e.aborting.Load() {
		return
	}
	t := mustSelf(e, "RWMutex.Lock")
	e.yield(t, pend{kind: opLock, obj: m, desc: fmt.Sprintf("wlock(rw%d)", e.objID(m))})
}

func (m *RWMutex) Unlock() {
	e := cur()
	if e == nil {
		m.real.Unlock()
		return
	}
	if e.aborting.Load() {
		return
	}
	if m.writer == nil {
		panic("sync: Unlock of unlocked RWMutex")
	}
	m.writer = nil
}

func (m *RWMutex) RLock() {
	e := cur()
	if e == nil {
		m.real.RLock()
		return
	}
	if e.aborting.Load() {
		return
	}
	t := mustSelf(e, "RWMutex.RLock")
	e.yield(t, pend{kind: opRLock, obj: m, desc: fmt.Sprintf("rlock(rw%d)", e.objID(m))})
}

func (m *RWMutex) RUnlock() {
	e := cur()
	if e == nil {
		m.real.RUnlock()
		return
	}
	if e.aborting.Load() {
		return
	}
	if m.readers <= 0 {
		panic("sync: RUnlock of unlocked RWMutex")
	}
	m.readers--
}

func (m *RWMutex) RLocker() sync.Locker { return (*rlocker)(m) }

type rlocker RWMutex

func (r *rlocker) Lock()   { (*RWMutex)(r).RLock() }
func (r *rlocker) Unlock() { (*RWMutex)(r).RUnlock() }

// ----------------------------------------------------------------------------------------------- Cond

type Cond struct {
	L       sync.Locker
	real    *sync.Cond
	once    sync.Once
	waiters []*thread
}

func NewCond(l sync.Locker) *Cond { return &Cond{L: l} }

func (c *Cond) r() *sync.Cond {
	c.once.Do(func() { c.real = sync.NewCond(c.L) })
	return c.real
}

func (c *Cond) Wait() {
	e := cur()
	if e == nil {
		c.r().Wait()
		return
	}
	if e.aborting.Load() {
		return
	}
	t := mustSelf(e, "Cond.Wait")
	// scheduling point before the atomic unlock+enqueue (Signal does not need the lock)
	e.yield(t, pend{kind: opContinue, desc: fmt.Sprintf("cond-wait-enter(c%d)", e.objID(c))})
	c.waiters = append(c.waiters, t)
	t.signaled = false
	c.L.Unlock()
	e.yield(t, pend{kind: opCondWake, obj: c, desc: fmt.Sprintf("cond-wake(c%d)", e.objID(c))})
	c.L.Lock()
}

func (c *Cond) Signal() {
	e := cur()
	if e == nil {
		c.r().Signal()
		return
	}
	if e.aborting.Load() {
		return
	}
	t := mustSelf(e, "Cond.Signal")
	e.yield(t, pend{kind: opContinue, desc: fmt.Sprintf("cond-signal(c%d)", e.objID(c))})
	if len(c.waiters) > 0 {
		w := c.waiters[0]
		c.waiters = c.waiters[1:]
		w.signaled = true
	}
}

func (c *Cond) Broadcast() {
	e := cur()
	if e == nil {
		c.r().Broadcast()
		return
	}
	if e.aborting.Load() {
		return
	}
	t := mustSelf(e, "Cond.Broadcast")
	e.yield(t, pend{kind: opContinue, desc: fmt.Sprintf("cond-broadcast(c%d)", e.objID(c))})
	for _, w := range c.waiters {
		w.signaled = true
	}
	c.waiters = nil
}

// ------------------------------------------------------------------------------------------ WaitGroup

type WaitGroup struct {
	real sync.WaitGroup
	n    int
}

func (w *WaitGroup) Add(delta int) {
	e := cur()
	if e == nil {
		w.real.Add(delta)
		return
	}
	if e.aborting.Load() {
		return
	}
	if delta > 0 {
		t := mustSelf(e, "WaitGroup.Add")
		e.yield(t, pend{kind: opContinue, desc: fmt.Sprintf("wg-add(w%d)", e.objID(w))})
	}
	w.n += delta
	if w.n < 0 {
		panic("sync: negative WaitGroup counter")
	}
}

func (w *WaitGroup) Done() { w.Add(-1) }

func (w *WaitGroup) Wait() {
	e := cur()
	if e == nil {
		w.real.Wait()
		return
	}
	if e.aborting.Load() {
		return
	}
	t := mustSelf(e, "WaitGroup.Wait")
	e.yield(t, pend{kind: opWGWait, obj: w, desc: fmt.Sprintf("wg-wait(w%d)", e.objID(w))})
}

func (w *WaitGroup) Go(f func()) {
	w.Add(1)
	Go(func() {
		defer w.Done()
		f()
	})
}

// ----------------------------------------------------------------------------------------------- Once

type Once struct {
	real    sync.Once
	done    bool
	running bool
}

func (o *Once) Do(f func()) {
	e := cur()
	if e == nil {
		o.real.Do(f)
		return
	}
	if e.aborting.Load() {
		return
	}
	t := mustSelf(e, "Once.Do")
	e.yield(t, pend{kind: opOnce, obj: o, desc: fmt.Sprintf("once(o%d)", e.objID(o))})
	if t.selected == 1 {
		defer func() { o.done, o.running = true, false }()
		f()
	}
}

// ------------------------------------------------------------------------------------------------- Go

// Go replaces the go statement.
func Go(f func()) {
	e := cur()
	if e == nil || e.self() == nil {
		go f()
		return
	}
	if e.aborting.Load() {
		return
	}
	e.spawn("go", f)
}

// Point is a pure scheduling point (inserted before un-locked atomics and harness events).
func Point(site string) {
	e := cur()
	if e == nil || e.aborting.Load() {
		return
	}
	t := e.self()
	if t == nil {
		return
	}
	e.yield(t, pend{kind: opContinue, desc: "point(" + site + ")"})
}

// Handle identifies a harness thread for Join.
type Handle struct{ t *thread }

// Spawn starts a named harness thread and returns a handle.
func Spawn(name string, f func()) Handle {
	e := cur()
	if e == nil {
		panic("vsync.Spawn outside an execution")
	}
	return Handle{e.spawn(name, f)}
}

// Join blocks until the thread has finished.
func Join(h Handle) {
	e := cur()
	if e == nil || e.aborting.Load() {
		return
	}
	t := mustSelf(e, "Join")
	e.yield(t, pend{kind: opJoin, join: h.t, desc: fmt.Sprintf("join(t%d)", h.t.id)})
}

// Quiesce blocks the calling harness thread until no other thread can make progress (all others are
// finished or blocked); armed timers do not count.
func Quiesce() {
	e := cur()
	if e == nil || e.aborting.Load() {
		return
	}
	t := mustSelf(e, "Quiesce")
	e.yield(t, pend{kind: opQuiesce, desc: "quiesce"})
}

// Blocked reports whether the thread behind h is currently blocked (not finished, not enabled). Only
// meaningful right after Quiesce.
func Blocked(h Handle) bool {
	e := cur()
	if e == nil {
		return false
	}
	return !h.t.done && !e.threadEnabled(h.t)
}

// Finished reports whether the thread behind h has terminated.
func Finished(h Handle) bool { return h.t.done }

// PendingDesc describes what the thread behind h is waiting for.
func PendingDesc(h Handle) string { return h.t.p.desc }

// ------------------------------------------------------------------------------------------- Channels

func chanKey(v reflect.Value) uintptr {
	if !v.IsValid() || v.IsNil() {
		return 0
	}
	return v.Pointer()
}

func mkCase(ch any, send bool) selCase {
	v := reflect.ValueOf(ch)
	if !v.IsValid() || v.Kind() != reflect.Chan || v.IsNil() {
		return selCase{send: send}
	}
	return selCase{send: send, ch: v, key: v.Pointer()}
}

func caseDesc(e *Exec, c selCase) string {
	d := "recv"
	if c.send {
		d = "send"
	}
	if !c.ch.IsValid() {
		return d + "(nil)"
	}
	return fmt.Sprintf("%s(ch%d)", d, e.objID(c.key))
}

// chanOp yields for a one-case operation and reports whether a rendezvous partner was involved.
func chanOp(ch any, send bool) (e *Exec, t *thread, paired bool) {
	e = cur()
	if e == nil || e.aborting.Load() {
		return nil, nil, false
	}
	t = e.self()
	if t == nil { // goroutine not owned by the scheduler (started before the execution): real operation
		return nil, nil, false
	}
	c := mkCase(ch, send)
	e.yield(t, pend{kind: opSelect, cases: []selCase{c}, desc: caseDesc(e, c)})
	paired = c.ch.IsValid() && c.ch.Cap() == 0 && !e.chanClosed(c)
	return e, t, paired
}

// Recv replaces `<-ch`.
func Recv[T any](ch <-chan T) T {
	e, t, paired := chanOp(ch, false)
	v := <-ch
	if e != nil {
		e.after(t, paired)
	}
	return v
}

// Recv2 replaces `v, ok := <-ch`.
func Recv2[T any](ch <-chan T) (T, bool) {
	e, t, paired := chanOp(ch, false)
	v, ok := <-ch
	if e != nil {
		e.after(t, paired)
	}
	return v, ok
}

// SendTok is returned by BeforeSend and consumed by AfterSend around the real `ch <- v`.
type SendTok struct {
	e      *Exec
	t      *thread
	paired bool
}

// BeforeSend / AfterSend bracket a real send statement: `tok := BeforeSend(ch); ch <- v; tok.Done()`.
func BeforeSend(ch any) SendTok {
	e, t, paired := chanOp(ch, true)
	return SendTok{e, t, paired}
}

func (s SendTok) Done() {
	if s.e != nil {
		s.e.after(s.t, s.paired)
	}
}

// Close replaces close(ch).
func Close(ch any) {
	e := cur()
	v := reflect.ValueOf(ch)
	if e == nil || e.aborting.Load() || e.self() == nil {
		v.Close()
		return
	}
	t := mustSelf(e, "close")
	key := chanKey(v)
	e.yield(t, pend{kind: opContinue, desc: fmt.Sprintf("close(ch%d)", e.objID(key))})
	st := e.chans[key]
	if st == nil {
		st = &chanState{}
		e.chans[key] = st
	}
	st.closed = true
	v.Close() // panics like Go on double close
}

// Case describes one select arm.
type Case struct{ c selCase }

func RecvCase(ch any) Case { return Case{mkCase(ch, false)} }
func SendCase(ch any) Case { return Case{mkCase(ch, true)} }

// Sel is the outcome of Select: I is the chosen arm (-1 = default); Done must be called right after the
// real channel operation of the arm (the instrumenter emits it).
type Sel struct {
	I      int
	e      *Exec
	t      *thread
	paired bool
}

func (s Sel) Done() {
	if s.e != nil {
		s.e.after(s.t, s.paired)
	}
}

// Select decides which arm of a select statement runs. With no execution active it returns I=-2 and the
// instrumented code falls back to the original select statement.
func Select(hasDefault bool, cases ...Case) Sel {
	e := cur()
	if e == nil || e.aborting.Load() {
		return Sel{I: -2}
	}
	t := e.self()
	if t == nil {
		return Sel{I: -2}
	}
	p := pend{kind: opSelect, hasDef: hasDefault}
	desc := "select["
	for i, c := range cases {
		p.cases = append(p.cases, c.c)
		if i > 0 {
			desc += ","
		}
		desc += caseDesc(e, c.c)
	}
	if hasDefault {
		desc += ",default"
	}
	p.desc = desc + "]"
	e.yield(t, p)
	s := Sel{I: t.selected, e: e, t: t}
	if s.I >= 0 {
		c := cases[s.I].c
		s.paired = c.ch.IsValid() && c.ch.Cap() == 0 && !e.chanClosed(c)
	}
	return s
}

// Range replaces `for v := range ch`.
func Range[T any](ch <-chan T) iter.Seq[T] {
	return func(yield func(T) bool) {
		for {
			v, ok := Recv2(ch)
			if !ok {
				return
			}
			if !yield(v) {
				return
			}
		}
	}
}

// -------------------------------------------------------------------------------------- Clock / timers

// Now is the virtual clock under an execution.
func Now() time.Time {
	e := cur()
	if e == nil || e.self() == nil {
		return time.Now()
	}
	return baseTime.Add(time.Duration(e.now))
}

func Since(t time.Time) time.Duration { return Now().Sub(t) }
func Until(t time.Time) time.Duration { return t.Sub(Now()) }

// Advance moves the virtual clock (harness use; does not fire timers by itself).
func Advance(d time.Duration) {
	if e := cur(); e != nil {
		e.now += int64(d)
	}
}

type Timer struct {
	C    <-chan time.Time
	real *time.Timer
	tm   *timer
	e    *Exec
}

func (e *Exec) arm(tm *timer, d time.Duration) {
	if d < 0 {
		d = 0
	}
	e.seq++
	dl := e.now + int64(d)
	if dl < e.now { // overflow: "never"
		dl = 1<<63 - 1
	}
	tm.deadline, tm.seq, tm.armed = dl, e.seq, true
}

func NewTimer(d time.Duration) *Timer {
	e := cur()
	if e == nil || e.aborting.Load() || e.self() == nil {
		rt := time.NewTimer(d)
		return &Timer{C: rt.C, real: rt}
	}
	ch := make(chan time.Time, 1)
	tm := &timer{ch: ch}
	e.timers = append(e.timers, tm)
	e.arm(tm, d)
	return &Timer{C: ch, tm: tm, e: e}
}

func AfterFunc(d time.Duration, f func()) *Timer {
	e := cur()
	if e == nil || e.aborting.Load() || e.self() == nil {
		return &Timer{real: time.AfterFunc(d, f)}
	}
	tm := &timer{fn: f}
	e.timers = append(e.timers, tm)
	e.arm(tm, d)
	return &Timer{tm: tm, e: e}
}

func After(d time.Duration) <-chan time.Time { return NewTimer(d).C }

func (t *Timer) Stop() bool {
	if t.tm == nil {
		return t.real.Stop()
	}
	if cur() != t.e || t.e.aborting.Load() {
		return false
	}
	Point("timer-stop")
	was := t.tm.armed
	t.tm.armed = false
	return was
}

func (t *Timer) Reset(d time.Duration) bool {
	if t.tm == nil {
		return t.real.Reset(d)
	}
	if cur() != t.e || t.e.aborting.Load() {
		return false
	}
	Point("timer-reset")
	was := t.tm.armed
	t.e.arm(t.tm, d)
	return was
}

func Sleep(d time.Duration) {
	e := cur()
	if e == nil || e.aborting.Load() || e.self() == nil {
		time.Sleep(d)
		return
	}
	t := mustSelf(e, "Sleep")
	tm := &timer{sleeper: t}
	e.timers = append(e.timers, tm)
	e.arm(tm, d)
	e.yield(t, pend{kind: opSleep, desc: "sleep"})
}

// ------------------------------------------------------------------------------------------ errgroup

// ErrGroup is a clone of golang.org/x/sync/errgroup.Group on top of the shims.
type ErrGroup struct {
	cancel  func(error)
	wg      WaitGroup
	mu      Mutex
	err     error
	limit   int
	running int
	slots   *Cond
}

func ErrGroupWithContext(ctx context.Context) (*ErrGroup, context.Context) {
	ctx, cancel := context.WithCancelCause(ctx)
	return &ErrGroup{cancel: cancel}, ctx
}

func (g *ErrGroup) SetLimit(n int) { g.limit = n }

func (g *ErrGroup) Go(f func() error) {
	if g.limit > 0 {
		g.mu.Lock()
		if g.slots == nil {
			g.slots = NewCond(&g.mu)
		}
		for g.running >= g.limit {
			g.slots.Wait()
		}
		g.running++
		g.mu.Unlock()
	}
	g.wg.Add(1)
	Go(func() {
		defer func() {
			if g.limit > 0 {
				g.mu.Lock()
				g.running--
				g.slots.Signal()
				g.mu.Unlock()
			}
			g.wg.Done()
		}()
		if err := f(); err != nil {
			g.mu.Lock()
			first := g.err == nil
			if first {
				g.err = err
			}
			g.mu.Unlock()
			if first && g.cancel != nil {
				g.cancel(err)
			}
		}
	})
}

func (g *ErrGroup) Wait() error {
	g.wg.Wait()
	if g.cancel != nil {
		g.cancel(g.err)
	}
	return g.err
}

// ProbeFn, when set by a harness, is called at the entry of probed functions.
var ProbeFn func(site string, recv any)

// Probe is inserted by the instrumenter at the entry of configured methods.
func Probe(site string, recv any) {
	if f := ProbeFn; f != nil {
		f(site, recv)
	}
}

// ----------------------------------------------------------------------------------------- loop ticks

var tickHandler atomic.Pointer[func(site string, key any)]

// SetLoopTickHandler installs a process-wide loop-tick handler (nil removes it). The handler runs at every
// iteration of the instrumented loops, in the goroutine executing the loop; key is the first parameter of
// the enclosing function (it identifies the call without needing goroutine identity). The handler may panic
// to abort a loop that provably makes no progress: a deterministic step budget instead of a wall-clock.
func SetLoopTickHandler(f func(site string, key any)) {
	if f == nil {
		tickHandler.Store(nil)
		return
	}
	tickHandler.Store(&f)
}

// LoopTick is inserted by the instrumenter at the top of the loop bodies of configured functions.
func LoopTick(site string, key any) {
	if h := tickHandler.Load(); h != nil {
		(*h)(site, key)
	}
}
